"""A5: path-forking bit-vector interpretation of a "digit loop".

Interprets the AST (celerfacts --ast) of a function of the shape

    void jump(uint64 count, Table const& table) { ... this->jump(table[idx]) ... }

for *all* values of `count` at once: `count` is a vector of 64 symbolic bits; shifts, masks with
constants, integral casts and array literals are evaluated exactly on that vector; a test such
as `x > 0` that the bits seen so far do not decide forks the interpretation on the highest
undecided bit (so a loop `while (count > 0)` yields one path per position of the leading one);
a counted loop `for (i = 0; i < n; ++i) body` whose bound n is symbolic is summarised as "body
with multiplicity n".  The result of every path is the list of (multiplicity, table index)
pairs of the calls `jump(table[idx])`.  Anything outside this vocabulary raises
OutOfVocabulary (analysis broken, never a verdict)."""
from astutil import strip, OutOfVocabulary, show

WIDTH = {"unsigned long long": 64, "unsigned long": 64, "unsigned int": 32, "unsigned short": 16,
         "unsigned char": 8, "long long": 64, "long": 64, "int": 32, "short": 16, "bool": 1,
         "celeritas::size_type": 32, "celeritas::ull_int": 64}


def width_of(ty):
    t = (ty or "").replace("const ", "").replace(" const", "").replace("&", "").strip()
    return WIDTH.get(t)


class NeedDecision(Exception):
    def __init__(self, bit):
        Exception.__init__(self, "bit %d" % bit)
        self.bit = bit


class Bits(object):
    """Unsigned value as a list of bit entries (LSB first): 0, 1 or ('b', p) = bit p of count."""

    def __init__(self, bits):
        self.bits = list(bits)

    @staticmethod
    def symbolic(width):
        return Bits([("b", p) for p in range(width)])

    @staticmethod
    def const(v, width):
        return Bits([(v >> i) & 1 for i in range(width)])

    def resize(self, width):
        b = self.bits[:width]
        return Bits(b + [0] * (width - len(b)))

    def shr(self, k):
        w = len(self.bits)
        return Bits(self.bits[k:] + [0] * min(k, w))

    def shl(self, k):
        w = len(self.bits)
        return Bits(([0] * k + self.bits)[:w])

    def band(self, mask):
        return Bits([b if (mask >> i) & 1 else 0 for i, b in enumerate(self.bits)])

    def concrete(self):
        if all(b in (0, 1) for b in self.bits):
            return sum(b << i for i, b in enumerate(self.bits))
        return None

    def __repr__(self):
        return "Bits(%s)" % self.bits


class Return(Exception):
    pass


class Interp(object):
    def __init__(self, func, table_len, jump_callee, know):
        self.f = func
        self.ast = func.r["ast"]
        self.L = table_len
        self.jump_callee = jump_callee
        self.know = know
        self.env = {}
        self.contribs = []        # (multiplicity: Bits or int, index)
        self.mult = None
        self.steps = 0
        p = func.r["params"]
        self.count = p[0]["n"]
        self.table = p[1]["n"]
        w = width_of(p[0]["cty"])
        if w is None:
            raise OutOfVocabulary("count parameter of type %s" % p[0]["cty"])
        self.env[self.count] = Bits.symbolic(w)

    # ----------------------------------------------------------------- helpers
    def tick(self):
        self.steps += 1
        if self.steps > 20000:
            raise OutOfVocabulary("digit loop: interpretation does not terminate")

    def truth(self, v):
        """Decide v != 0 for an int or a Bits value (may fork)."""
        if isinstance(v, bool):
            return v
        if isinstance(v, int):
            return v != 0
        if isinstance(v, Bits):
            unknown = None
            for i in range(len(v.bits) - 1, -1, -1):
                b = v.bits[i]
                if b == 1:
                    return True
                if b == 0:
                    continue
                k = self.know.get(b[1])
                if k == 1:
                    return True
                if k is None and unknown is None:
                    unknown = b[1]
            if unknown is None:
                return False
            raise NeedDecision(unknown)
        raise OutOfVocabulary("digit loop: truth value of %r" % (v,))

    def as_int(self, v):
        if isinstance(v, bool):
            return int(v)
        if isinstance(v, int):
            return v
        if isinstance(v, Bits):
            c = v.concrete()
            if c is not None:
                return c
        return None

    # ------------------------------------------------------------- expressions
    def ev(self, n):
        self.tick()
        if n is None:
            return None
        k = n["k"]
        if "cval" in n and k != "VarDecl":
            return int(n["cval"])
        if k in ("ImplicitCastExpr", "CXXStaticCastExpr", "CStyleCastExpr", "CXXFunctionalCastExpr"):
            v = self.ev(n["c"][-1] if k != "CXXFunctionalCastExpr" else n["c"][0])
            w = width_of(n.get("ty"))
            if n.get("cast") in ("IntegralCast", "NoOp", None) and w:
                if isinstance(v, Bits):
                    return v.resize(w)
                if isinstance(v, int) and not isinstance(v, bool) and w < 64:
                    return v & ((1 << w) - 1) if v >= 0 else v
            if n.get("cast") == "IntegralToBoolean":
                return self.truth(v)
            return v
        if k in ("ParenExpr", "ExprWithCleanups", "MaterializeTemporaryExpr", "ConstantExpr"):
            return self.ev(n["c"][-1])
        if k == "IntegerLiteral":
            return int(n["val"])
        if k == "CXXBoolLiteralExpr":
            return n["val"] == "true"
        if k == "DeclRefExpr":
            if n["name"] in self.env:
                return self.env[n["name"]]
            if n["name"] == self.table:
                return ("table",)
            raise OutOfVocabulary("digit loop: unknown variable %s" % n["name"])
        if k == "InitListExpr":
            return [self.ev(c) for c in n["c"]]
        if k == "ArraySubscriptExpr":
            a, i = self.ev(n["c"][0]), self.as_int(self.ev(n["c"][1]))
            if isinstance(a, list) and i is not None and 0 <= i < len(a):
                return a[i]
            raise OutOfVocabulary("digit loop: subscript " + show(n))
        if k == "UnaryOperator":
            op = n["op"]
            if op in ("++", "--"):
                tgt = strip(n["c"][0])
                if tgt["k"] != "DeclRefExpr" or self.mult is not None:
                    raise OutOfVocabulary("digit loop: %s on %s" % (op, show(tgt)))
                v = self.as_int(self.env.get(tgt["name"]))
                if v is None:
                    raise OutOfVocabulary("digit loop: %s on a symbolic value" % op)
                self.env[tgt["name"]] = v + (1 if op == "++" else -1)
                return self.env[tgt["name"]]
            v = self.ev(n["c"][0])
            if op == "!":
                return not self.truth(v)
            if op == "-" and self.as_int(v) is not None:
                return -self.as_int(v)
            raise OutOfVocabulary("digit loop: unary %s" % op)
        if k == "BinaryOperator":
            op = n["op"]
            if op == "=":
                return self.assign(n["c"][0], self.ev(n["c"][1]))
            if op == "&&":
                return self.truth(self.ev(n["c"][0])) and self.truth(self.ev(n["c"][1]))
            if op == "||":
                return self.truth(self.ev(n["c"][0])) or self.truth(self.ev(n["c"][1]))
            a, b = self.ev(n["c"][0]), self.ev(n["c"][1])
            w = width_of(n.get("ty"))
            return self.binop(op, a, b, w, n)
        if k == "CompoundAssignOperator":
            op = n["op"][:-1]
            cur = self.ev(n["c"][0])
            v = self.binop(op, cur, self.ev(n["c"][1]), width_of(n.get("ty")), n)
            return self.assign(n["c"][0], v)
        if k == "CXXOperatorCallExpr" and n.get("oop") == "[]":
            a = self.ev(n["c"][1])
            i = self.as_int(self.ev(n["c"][2]))
            if a == ("table",):
                if i is None:
                    raise OutOfVocabulary("digit loop: symbolic table index")
                return ("poly", i)
            if isinstance(a, list) and i is not None and 0 <= i < len(a):
                return a[i]
            raise OutOfVocabulary("digit loop: operator[] " + show(n))
        if k in ("CXXMemberCallExpr", "CallExpr"):
            cal = n.get("callee", "")
            if cal == self.jump_callee:
                arg = self.ev(n["c"][1])
                if not (isinstance(arg, tuple) and arg[0] == "poly"):
                    raise OutOfVocabulary("digit loop: jump() with " + show(n["c"][1]))
                self.contribs.append((self.mult if self.mult is not None else 1, arg[1]))
                return None
            if cal.endswith("::size") and len(n["c"]) >= 1:
                return self.L
            raise OutOfVocabulary("digit loop: call of %s" % cal)
        raise OutOfVocabulary("digit loop: expression %s (%s)" % (show(n), k))

    def binop(self, op, a, b, w, n):
        ai, bi = self.as_int(a), self.as_int(b)
        if op in (">", "<", ">=", "<=", "==", "!="):
            if ai is not None and bi is not None:
                return {"<": ai < bi, ">": ai > bi, "<=": ai <= bi, ">=": ai >= bi,
                        "==": ai == bi, "!=": ai != bi}[op]
            if isinstance(a, Bits) and bi == 0 and op in (">", "!="):
                return self.truth(a)
            if isinstance(a, Bits) and bi == 0 and op == "==":
                return not self.truth(a)
            if isinstance(b, Bits) and ai == 0 and op in ("<", "!="):
                return self.truth(b)
            raise OutOfVocabulary("digit loop: comparison " + show(n))
        if isinstance(a, Bits) and bi is not None:
            if op == ">>":
                return a.shr(bi)
            if op == "<<":
                return a.shl(bi)
            if op == "&":
                return a.band(bi)
        if isinstance(b, Bits) and ai is not None and op == "&":
            return b.band(ai)
        if ai is not None and bi is not None:
            r = {"+": ai + bi, "-": ai - bi, "*": ai * bi, "&": ai & bi, "|": ai | bi,
                 "^": ai ^ bi, ">>": ai >> bi if bi >= 0 else None,
                 "<<": ai << bi if bi >= 0 else None}.get(op)
            if r is None:
                raise OutOfVocabulary("digit loop: operator %s" % op)
            if w and r >= 0:
                r &= (1 << w) - 1
            return r
        raise OutOfVocabulary("digit loop: %s on symbolic operands in %s" % (op, show(n)))

    def assign(self, lhs, v):
        t = strip(lhs)
        if t["k"] != "DeclRefExpr":
            raise OutOfVocabulary("digit loop: assignment to " + show(t))
        if self.mult is not None:
            raise OutOfVocabulary("digit loop: state change inside a symbolically counted loop")
        w = width_of(t.get("ty"))
        if isinstance(v, Bits) and w:
            v = v.resize(w)
        self.env[t["name"]] = v
        return v

    # -------------------------------------------------------------- statements
    def decl(self, st):
        for vd in st["c"]:
            init = vd["c"][0] if vd["c"] else None
            v = self.ev(init) if init is not None else 0
            w = width_of(vd.get("ty"))
            if isinstance(v, Bits) and w:
                v = v.resize(w)
            if self.mult is not None:
                raise OutOfVocabulary("digit loop: declaration inside a symbolically counted loop")
            self.env[vd["name"]] = v

    def run(self, st):
        self.tick()
        if st is None:
            return
        k = st["k"]
        if k == "CompoundStmt":
            for c in st["c"]:
                self.run(c)
        elif k == "DeclStmt":
            self.decl(st)
        elif k == "NullStmt":
            pass
        elif k == "ReturnStmt":
            raise Return()
        elif k == "IfStmt":
            kids = [c for c in st["c"]]
            # [init?, condvar?, cond, then, else?] - nulls are kept by the extractor
            exprs = [c for c in kids if c is not None]
            cond, then = exprs[0], exprs[1]
            els = exprs[2] if len(exprs) > 2 else None
            if self.truth(self.ev(cond)):
                self.run(then)
            elif els is not None:
                self.run(els)
        elif k == "DoStmt":
            body, cond = st["c"][0], st["c"][1]
            n = 0
            while True:
                self.run(body)
                n += 1
                if not self.truth(self.ev(cond)):
                    break
                if n > 300:
                    raise OutOfVocabulary("digit loop: do-while does not terminate")
        elif k == "WhileStmt":
            kids = [c for c in st["c"] if c is not None]
            cond, body = kids[0], kids[-1]
            n = 0
            while self.truth(self.ev(cond)):
                self.run(body)
                n += 1
                if n > 300:
                    raise OutOfVocabulary("digit loop: while loop does not terminate")
        elif k == "ForStmt":
            init, _cv, cond, inc, body = st["c"]
            self.run(init) if init is not None and init["k"] == "DeclStmt" else \
                (self.ev(init) if init is not None else None)
            sym = self.symbolic_bound(init, cond, inc)
            if sym is not None:
                if self.mult is not None:
                    raise OutOfVocabulary("digit loop: nested symbolically counted loops")
                self.mult = sym
                try:
                    self.run(body)
                finally:
                    self.mult = None
                return
            n = 0
            while cond is None or self.truth(self.ev(cond)):
                self.run(body)
                if inc is not None:
                    self.ev(inc)
                n += 1
                if n > 300:
                    raise OutOfVocabulary("digit loop: for loop does not terminate")
        elif k == "CXXForRangeStmt":
            kids = st["c"]
            rng, loopvar, body = kids[1], kids[6], kids[7]
            seq = self.ev(rng["c"][0]["c"][0])
            if not isinstance(seq, list):
                raise OutOfVocabulary("digit loop: range-for over " + show(rng["c"][0]["c"][0]))
            vd = loopvar["c"][0]
            w = width_of(vd.get("ty"))
            for item in seq:
                v = item.resize(w) if isinstance(item, Bits) and w else item
                self.env[vd["name"]] = v
                self.run(body)
        else:
            # expression statement
            self.ev(st)

    def symbolic_bound(self, init, cond, inc):
        """`for (T i = 0; i < n; ++i)` with a symbolic n -> n, else None."""
        if init is None or init["k"] != "DeclStmt" or len(init["c"]) != 1 or cond is None or inc is None:
            return None
        iv = init["c"][0]
        c = strip(cond)
        if c["k"] != "BinaryOperator" or c["op"] not in ("<", "!="):
            return None
        l = strip(c["c"][0], also=("CXXStaticCastExpr",))
        if l.get("name") != iv["name"]:
            return None
        bound = self.ev(c["c"][1])
        if not isinstance(bound, Bits) or bound.concrete() is not None:
            return None
        if self.as_int(self.env.get(iv["name"])) != 0:
            raise OutOfVocabulary("digit loop: symbolically bounded loop not starting at 0")
        i = strip(inc)
        if not (i["k"] == "UnaryOperator" and i["op"] == "++" and strip(i["c"][0]).get("name") == iv["name"]):
            raise OutOfVocabulary("digit loop: symbolically bounded loop with increment " + show(inc))
        return bound


def explore(func, table_len, jump_callee, max_paths=5000):
    """All paths: [(knowledge {bit: 0/1}, contributions)]."""
    out = []
    stack = [{}]
    while stack:
        know = stack.pop()
        it = Interp(func, table_len, jump_callee, know)
        try:
            try:
                it.run(it.ast)
            except Return:
                pass
            out.append((know, it.contribs))
        except NeedDecision as nd:
            for v in (0, 1):
                k2 = dict(know)
                k2[nd.bit] = v
                stack.append(k2)
        if len(out) + len(stack) > max_paths:
            raise OutOfVocabulary("digit loop: more than %d paths" % max_paths)
    return out


def check_paths(paths, width, table_len, log2_base=2):
    """Every bit p of count that can be 1 on a path must be applied exactly once with weight
    2^p: it occurs as bit i of the multiplicity of exactly one call jump(table[idx]) with
    i + log2_base*idx == p.  Returns (ok, counterexample text, stats)."""
    worst = None
    ncalls = 0
    for know, contribs in paths:
        seen = {}
        for mult, idx in contribs:
            ncalls += 1
            if not (0 <= idx < table_len):
                return False, "table index %d out of range on the path %s" % (idx, fmt_know(know, width)), {}
            if isinstance(mult, int):
                if mult != 1:
                    return False, "unexpected multiplicity %r" % (mult,), {}
                bits = [1]
            else:
                bits = mult.bits
            for i, b in enumerate(bits):
                if b == 0:
                    continue
                if b == 1:
                    return False, ("a jump that does not depend on count: table[%d] applied 2^%d "
                                   "extra times" % (idx, i)), {}
                seen.setdefault(b[1], []).append((i, idx))
        for p in range(width):
            if know.get(p) == 0:
                continue
            uses = seen.get(p, [])
            good = len(uses) == 1 and uses[0][0] + log2_base * uses[0][1] == p
            if not good:
                val = 1 << p
                for q, v in know.items():
                    if v == 1:
                        val |= 1 << q
                how = "is never applied" if not uses else "is applied as %s" % ", ".join(
                    "2^%d x table[%d] (= 2^%d steps)" % (i, ix, i + log2_base * ix) for i, ix in uses)
                msg = "count = %d (0x%x): bit %d (2^%d steps) %s" % (val, val, p, p, how)
                if worst is None or val < worst[0]:
                    worst = (val, msg)
    if worst:
        return False, worst[1], {}
    return True, "", {"paths": len(paths), "calls": ncalls}


def fmt_know(know, width):
    return "".join(str(know.get(p, "x")) for p in range(width - 1, -1, -1))
