"""A4: bit-sliced interpretation of straight-line bit manipulation code.

A W-bit unsigned value is a list of W boolean expressions.  Expressions are
tuples: ("c", 0|1), ("v", name), ("not", e), ("and", a, b), ("or", a, b),
("xor", a, b).  Equivalence is decided by exhaustive evaluation over the
variables that occur (each output bit of the analysed code depends on a
handful of inputs)."""
import itertools

from astutil import strip, OutOfVocabulary, show, const_int


def c(v):
    return ("c", 1 if v else 0)


def mk(op, a, b=None):
    if op == "not":
        if a[0] == "c":
            return c(not a[1])
        if a[0] == "not":
            return a[1]
        return ("not", a)
    if a[0] == "c" and b[0] == "c":
        if op == "and":
            return c(a[1] & b[1])
        if op == "or":
            return c(a[1] | b[1])
        return c(a[1] ^ b[1])
    for x, y in ((a, b), (b, a)):
        if x[0] == "c":
            if op == "and":
                return y if x[1] else c(0)
            if op == "or":
                return c(1) if x[1] else y
            if op == "xor":
                return mk("not", y) if x[1] else y
    return (op, a, b)


def vars_of(e, acc=None):
    acc = set() if acc is None else acc
    if e[0] == "v":
        acc.add(e[1])
    elif e[0] != "c":
        for x in e[1:]:
            vars_of(x, acc)
    return acc


def ev(e, env):
    k = e[0]
    if k == "c":
        return e[1]
    if k == "v":
        return env[e[1]]
    if k == "not":
        return 1 - ev(e[1], env)
    a, b = ev(e[1], env), ev(e[2], env)
    return a & b if k == "and" else a | b if k == "or" else a ^ b


def equivalent(a, b):
    vs = sorted(vars_of(a) | vars_of(b))
    if len(vs) > 12:
        raise OutOfVocabulary("bit expression depends on %d variables" % len(vs))
    for vals in itertools.product((0, 1), repeat=len(vs)):
        env = dict(zip(vs, vals))
        if ev(a, env) != ev(b, env):
            return False, env
    return True, None


class Machine:
    """Interprets the JSON AST of a member function over W-bit words."""

    def __init__(self, W, members, helpers):
        self.W = W
        self.members = members        # name -> list of bit exprs (symbolic initial state)
        self.helpers = helpers        # callee qualified name -> Func (with ast)
        self.counters = {}            # member name -> net ++/-- count
        self.ret = None

    def const(self, v):
        return [c((v >> i) & 1) for i in range(self.W)]

    # widths of the builtin integer types (LP64); anything else (typedefs of the storage word,
    # class types) is taken as the full word
    WIDTHS = {"unsigned int": (32, False), "int": (32, True), "unsigned short": (16, False),
              "short": (16, True), "unsigned char": (8, False), "signed char": (8, True),
              "char": (8, True), "unsigned long": (64, False), "long": (64, True),
              "unsigned long long": (64, False), "long long": (64, True)}

    def norm(self, v, ty):
        """Bring a W-bit vector into the value range of the C++ type `ty`: an unsigned type
        narrower than the word is zero-extended, a signed one sign-extended (so that a later
        implicit conversion to the word type is the identity on the vector)."""
        t = (ty or "").replace("const ", "").strip()
        if t not in self.WIDTHS:
            return v
        w, signed = self.WIDTHS[t]
        if w >= self.W:
            return v
        low = list(v[:w])
        ext = low[w - 1] if signed else c(0)
        return low + [ext] * (self.W - w)

    def expr(self, n, env):
        # clang's own constant folding knows the operand widths and conversions
        if n is not None and "cval" in n and n["k"] != "CXXBoolLiteralExpr" \
                and (n.get("ty") or "").replace("const ", "") != "bool":
            try:
                return self.const(int(n["cval"]) % (1 << self.W))
            except ValueError:
                pass
        if n["k"] in ("ImplicitCastExpr", "ParenExpr", "ExprWithCleanups", "MaterializeTemporaryExpr",
                      "ConstantExpr", "CXXStaticCastExpr", "CXXFunctionalCastExpr",
                      "SubstNonTypeTemplateParmExpr") and n["c"]:
            inner = n["c"][0] if n["k"] == "CXXFunctionalCastExpr" else n["c"][-1]
            if n.get("cast") == "IntegralToBoolean":
                bits = self.expr(inner, env)
                b = c(0)
                for x in bits:
                    b = mk("or", b, x)
                return [b] + [c(0)] * (self.W - 1)
            return self.norm(self.expr(inner, env), n.get("ty"))
        return self.norm(self.expr_(n, env), n.get("ty"))

    def expr_(self, n, env):
        n0 = n
        k = n["k"]
        if k == "CXXFunctionalCastExpr":
            return self.expr(n["c"][0], env)
        ci = const_int(n)
        if ci is not None and k in ("IntegerLiteral", "CXXBoolLiteralExpr", "UnaryExprOrTypeTraitExpr"):
            return self.const(ci)
        if k == "CXXBoolLiteralExpr":
            return self.const(1 if n["val"] == "true" else 0)
        if k == "IntegerLiteral":
            return self.const(int(n["val"]))
        if k == "MemberExpr":
            if n["name"] in self.members:
                return list(self.members[n["name"]])
            raise OutOfVocabulary("bitslice: read of unknown member " + n["name"])
        if k == "DeclRefExpr":
            if n["name"] in env:
                return list(env[n["name"]])
            if ci is not None:
                return self.const(ci)
            raise OutOfVocabulary("bitslice: unknown variable " + n["name"])
        if k == "UnaryOperator" and n["op"] == "~":
            return [mk("not", b) for b in self.expr(n["c"][0], env)]
        if k == "BinaryOperator":
            op = n["op"]
            if op in ("<<", ">>"):
                a = self.expr(n["c"][0], env)
                s = const_int(n["c"][1])
                if s is None:
                    sv = self.expr(n["c"][1], env)
                    if all(b[0] == "c" for b in sv):
                        s = sum(b[1] << i for i, b in enumerate(sv))
                if s is None or not (0 <= s < self.W):
                    raise OutOfVocabulary("bitslice: non-constant shift " + show(n))
                if op == "<<":
                    return [c(0)] * s + a[:self.W - s]
                return a[s:] + [c(0)] * s
            if op in ("&", "|", "^"):
                a, b = self.expr(n["c"][0], env), self.expr(n["c"][1], env)
                o = {"&": "and", "|": "or", "^": "xor"}[op]
                return [mk(o, x, y) for x, y in zip(a, b)]
            raise OutOfVocabulary("bitslice: operator %s outside vocabulary" % op)
        if k in ("CallExpr", "CXXMemberCallExpr"):
            cal = n.get("callee")
            h = self.helpers.get(cal)
            if h is None:
                raise OutOfVocabulary("bitslice: call to %s outside vocabulary" % cal)
            args = [self.expr(a, env) for a in n["c"][1:]]
            params = [p["n"] for p in h.r["params"]]
            sub = Machine(self.W, self.members, self.helpers)
            return sub.run_value(h.r["ast"], dict(zip(params, args)))
        raise OutOfVocabulary("bitslice: expression outside vocabulary: %s (%s)" % (show(n0), k))

    def run_value(self, body, env):
        self.run(body, env)
        if self.ret is None:
            raise OutOfVocabulary("bitslice: helper without return")
        return self.ret

    def run(self, st, env):
        k = st["k"]
        if k == "CompoundStmt":
            for x in st["c"]:
                self.run(x, env)
        elif k in ("DoStmt", "NullStmt"):
            return
        elif k == "DeclStmt":
            for vd in st["c"]:
                env[vd["name"]] = self.expr(vd["c"][0], env)
        elif k == "ReturnStmt":
            self.ret = self.expr(st["c"][0], env) if st["c"] and st["c"][0] else None
        elif k in ("BinaryOperator", "CompoundAssignOperator") and st["op"] in ("=", "^=", "|=", "&="):
            lhs = strip(st["c"][0])
            if lhs["k"] != "MemberExpr" or lhs["name"] not in self.members:
                raise OutOfVocabulary("bitslice: assignment to " + show(lhs))
            v = self.expr(st["c"][1], env)
            if st["op"] != "=":
                o = {"^=": "xor", "|=": "or", "&=": "and"}[st["op"]]
                v = [mk(o, x, y) for x, y in zip(self.members[lhs["name"]], v)]
            self.members[lhs["name"]] = v
        elif k == "UnaryOperator" and st["op"] in ("++", "--"):
            t = strip(st["c"][0])
            nm = t.get("name")
            self.counters[nm] = self.counters.get(nm, 0) + (1 if st["op"] == "++" else -1)
        elif k == "ExprWithCleanups":
            self.run(st["c"][0], env)
        else:
            raise OutOfVocabulary("bitslice: statement outside vocabulary: %s" % k)
