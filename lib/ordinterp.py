"""A8: ordering-domain interpretation of comparison-based algorithms (AST from celerfacts --ast).

The algorithms of corecel/math/Algorithms.hh (heap sort, partition, bisection, linear search,
min_element, quantifiers) touch the *values* of the elements only through a comparator or
predicate and through moves / swaps (rule C18.1 checks exactly that on the AST).  Their behaviour
on every input of length n is therefore a function of the finite abstract input "which element
has which rank" (a weak ordering, a boolean vector, ...).  This module interprets the emitted
expression trees -- it never compiles or runs C++ and never looks at source text -- over

* integers (Python integers, wrapped to the width of the C++ type on casts and arithmetic),
* iterators = (array, index) pairs; an iterator that leaves [first, last] and a dereference
  outside [first, last) are *violations* (the counterexample is the abstract input),
* element values = opaque `Elem` objects with an identity; they can be copied / moved / swapped
  and handed to a functor; the caller supplies the meaning of the external functors
  (`Machine.ext`) and of the built-in `<` on elements (`Machine.key`, used by `Less<>`),
* references (lvalues: a local variable, an array cell, a materialised temporary),
* calls to other functions whose AST was emitted (interpreted recursively from their own AST:
  the public wrappers, the *_impl functions, trivial_swap, move, forward, half_positive, ...).

Every function body is translated once into Python closures (one per AST node); the closures
are then run for each abstract input.  Statements return a status (0 normal, 1 break,
2 continue, 3 return).  A step budget bounds loops and calls: exceeding it is a violation
("does not terminate within the budget"), not an analysis failure.

Anything outside the vocabulary raises OutOfVocabulary (a subclass of facts.AnalysisBroken): the
rule turns it into exit 2 -- never a pass and never a violation."""
import operator

from astutil import OutOfVocabulary, show


class Violation(Exception):
    """The interpreted code misbehaves on the current abstract input."""

    def __init__(self, kind, msg, loc=""):
        Exception.__init__(self, msg)
        self.kind = kind
        self.loc = loc


# --------------------------------------------------------------------------- values
class Elem(object):
    """An element value: identity only; its rank lives in the caller's oracle."""
    __slots__ = ("id",)

    def __init__(self, i):
        self.id = i

    def __repr__(self):
        return "e%s" % (self.id,)


class Arr(object):
    __slots__ = ("cells", "n")

    def __init__(self, cells):
        self.cells = list(cells)
        self.n = len(self.cells)


class Ptr(object):
    __slots__ = ("arr", "i")

    def __init__(self, arr, i):
        self.arr = arr
        self.i = i

    def __repr__(self):
        return "&a[%d]" % self.i


class Functor(object):
    __slots__ = ("ty",)

    def __init__(self, ty):
        self.ty = ty

    def __repr__(self):
        return "functor<%s>" % self.ty


class _Uninit(object):
    def __repr__(self):
        return "<uninitialised>"


UNINIT = _Uninit()


# lvalues ----------------------------------------------------------------------
class Cell(object):
    __slots__ = ("arr", "i")

    def __init__(self, arr, i):
        self.arr = arr
        self.i = i

    def load(self):
        return self.arr.cells[self.i]

    def store(self, v):
        if type(v) is not Elem:
            raise OutOfVocabulary("a non-element value %r is stored into the sequence" % (v,))
        self.arr.cells[self.i] = v


class VarRef(object):
    __slots__ = ("fr", "name")

    def __init__(self, fr, name):
        self.fr = fr
        self.name = name

    def load(self):
        return self.fr[self.name]

    def store(self, v):
        self.fr[self.name] = v


class Box(object):
    """A materialised temporary / a value owned by the caller (the probe of a search)."""
    __slots__ = ("v",)

    def __init__(self, v):
        self.v = v

    def load(self):
        return self.v

    def store(self, v):
        self.v = v


# --------------------------------------------------------------------------- types
INT_TYPES = {
    "bool": (1, False), "char": (8, True), "signed char": (8, True), "unsigned char": (8, False),
    "short": (16, True), "unsigned short": (16, False), "int": (32, True),
    "unsigned int": (32, False), "long": (64, True), "unsigned long": (64, False),
    "long long": (64, True), "unsigned long long": (64, False),
}


def _base_type(ty):
    t = (ty or "").strip()
    if t.startswith("const "):
        t = t[6:]
    if t.endswith(" const"):
        t = t[:-6]
    return t.strip()


def int_range(ty):
    w = INT_TYPES.get(_base_type(ty))
    if w is None:
        return None
    bits, signed = w
    if signed:
        return (-(1 << (bits - 1)), (1 << (bits - 1)) - 1, bits)
    return (0, (1 << bits) - 1, bits)


def is_ref_type(ty):
    return (ty or "").rstrip().endswith("&")


def param_sig(text):
    """Normalised parameter list of a function type / signature text:
    'void (int *, long) const noexcept' and '(int *,long)const' -> '(int*,long)'."""
    s = text or ""
    end = s.rfind(")")
    if end < 0:
        return None
    depth = 0
    for i in range(end, -1, -1):
        c = s[i]
        if c == ")":
            depth += 1
        elif c == "(":
            depth -= 1
            if depth == 0:
                return s[i:end + 1].replace(" ", "")
    return None


TRANSPARENT = ("ParenExpr", "ExprWithCleanups", "ConstantExpr", "CXXBindTemporaryExpr",
               "SubstNonTypeTemplateParmExpr")
CASTS = ("ImplicitCastExpr", "CXXStaticCastExpr", "CStyleCastExpr", "CXXFunctionalCastExpr")

CMP = {"<": operator.lt, "<=": operator.le, ">": operator.gt, ">=": operator.ge,
       "==": operator.eq, "!=": operator.ne}


def _cdiv(a, b):
    q = abs(a) // abs(b)
    return q if (a >= 0) == (b >= 0) else -q


def _loc(n):
    return (n or {}).get("loc", "")


class Compiled(object):
    __slots__ = ("rec", "name", "inst", "params", "ret_ref", "body", "refs", "loc")


class Machine(object):
    """One per fact base.  `ext` maps the qualified name of an external functor call operator
    (not interpreted: declared only in the witness unit) to a Python function of the element
    arguments; `key` gives the value compared by the built-in relational operators on elements;
    `is_functor_type` recognises the class types that may be created / copied as functors."""

    def __init__(self, db, is_functor_type):
        self.is_functor_type = is_functor_type
        self.ext = {}
        self.key = None
        self.steps = 0
        self.budget = 1000
        self.used = set()
        self.depth = 0
        self.table = {}
        for recs in db.funcs.values():
            for r in recs:
                if "ast" in r:
                    self.table.setdefault((r["name"], param_sig(r.get("sig", ""))), []).append(r)
        self.compiled = {}

    # ------------------------------------------------------------------ running
    def reset(self, budget):
        self.steps = 0
        self.budget = budget
        self.depth = 0

    def tick(self):
        self.steps += 1
        if self.steps > self.budget:
            raise Violation("nontermination",
                            "does not terminate within the step budget (%d loop iterations / "
                            "calls)" % self.budget)

    def entry(self, name, sig_like):
        """Compiled function for (pattern name, parameter list)."""
        return self.function(name, param_sig(sig_like), None)

    def call(self, fn, args):
        """Call a compiled function with ready-made argument values (reference parameters get an
        lvalue object: Box / Cell)."""
        if len(args) != len(fn.params):
            raise OutOfVocabulary("%s called with %d arguments" % (fn.inst, len(args)))
        fr = {}
        for (name, _ref), a in zip(fn.params, args):
            fr[name] = a
        self.used.add(fn.inst)
        self.tick()
        fn.body(fr)
        return fr.get("$ret")

    def ptr(self, arr, i, n=None):
        if i < 0 or i > arr.n:
            raise Violation("iterator-range", "an iterator is moved to position %d, outside "
                            "[first, last] = [0, %d]" % (i, arr.n), _loc(n))
        return Ptr(arr, i)

    def cell(self, p, n=None):
        if type(p) is not Ptr:
            raise OutOfVocabulary("dereference of %r at %s" % (p, _loc(n)))
        if p.i < 0 or p.i >= p.arr.n:
            raise Violation("dereference", "position %d is dereferenced, outside [first, last) = "
                            "[0, %d)" % (p.i, p.arr.n), _loc(n))
        return Cell(p.arr, p.i)

    # ---------------------------------------------------------------- functions
    def function(self, name, psig, at, objty=None):
        """Compiled body of the instantiation (pattern name, parameter list[, class of the object
        for a member call]).  Several instantiations with the same key are accepted only if
        their bodies are identical."""
        k = (name, psig, objty)
        c = self.compiled.get(k)
        if c is not None:
            return c
        recs = self.table.get((name, psig))
        if recs and objty and len(recs) > 1:
            recs = [r for r in recs if r.get("inst", "").startswith(objty + "::")]
        if not recs:
            raise OutOfVocabulary("call of %s%s at %s: no interpreted body (outside the vocabulary)"
                                  % (name, psig, _loc(at)))
        rec = recs[0]
        for r in recs[1:]:
            if r["ast"] != rec["ast"] or r.get("ret") != rec.get("ret") \
                    or [p.get("cty") for p in r["params"]] != [p.get("cty") for p in rec["params"]]:
                raise OutOfVocabulary("call of %s%s at %s is ambiguous between %s"
                                      % (name, psig, _loc(at), [x.get("inst") for x in recs]))
        c = Compiled()
        c.rec = rec
        c.name = rec["name"]
        c.inst = rec.get("inst", rec["name"])
        c.loc = rec.get("loc", "")
        c.params = [(p.get("n", ""), is_ref_type(p.get("cty", p.get("ty", ""))))
                    for p in rec.get("params", [])]
        c.ret_ref = is_ref_type(rec.get("ret", ""))
        c.body = None
        self.compiled[k] = c           # registered first: recursion
        FuncCompiler(self, c).compile()
        return c


class FuncCompiler(object):
    def __init__(self, m, c):
        self.m = m
        self.c = c
        self.refs = set(n for (n, r) in c.params if r)
        self.decl_ref = dict((n, r) for (n, r) in c.params if n)
        self.scopes = [set(n for (n, _r) in c.params if n)]

    def compile(self):
        ast = self.c.rec["ast"]
        self.prescan(ast)
        self.c.refs = self.refs
        self.c.body = self.stmt(ast)

    def oov(self, what, n):
        return OutOfVocabulary("%s: %s at %s (outside the interpreter's vocabulary)"
                               % (self.c.inst, what, _loc(n)))

    def prescan(self, n):
        if n is None:
            return
        if n["k"] == "VarDecl":
            r = is_ref_type(n.get("ty", ""))
            if n["name"] in self.decl_ref and self.decl_ref[n["name"]] != r:
                raise self.oov("`%s` is declared both as a reference and as a value" % n["name"], n)
            self.decl_ref[n["name"]] = r
            if r:
                self.refs.add(n["name"])
            if n.get("static"):
                raise self.oov("static local `%s`" % n["name"], n)
        if n["k"] == "LambdaExpr":
            raise self.oov("lambda expression", n)
        for c in n["c"]:
            self.prescan(c)

    # ------------------------------------------------------------- value category
    def is_glvalue(self, n):
        k = n["k"]
        if k in TRANSPARENT:
            return self.is_glvalue(n["c"][-1])
        if k in CASTS:
            if n.get("cast") == "NoOp":
                ch = n["c"][0] if k == "CXXFunctionalCastExpr" else n["c"][-1]
                return self.is_glvalue(ch)
            return False
        if k == "DeclRefExpr":
            return n.get("dk") in ("Var", "ParmVar")
        if k == "UnaryOperator":
            return n["op"] == "*" or (n["op"] in ("++", "--") and not n.get("postfix"))
        if k == "BinaryOperator":
            if n["op"] == "=":
                return True
            if n["op"] == ",":
                return self.is_glvalue(n["c"][1])
            return False
        if k == "CompoundAssignOperator":
            return True
        if k == "ArraySubscriptExpr":
            return True
        if k == "MaterializeTemporaryExpr":
            return True
        if k == "CallExpr":
            fn = self.resolve_call(n)
            return fn is not None and fn.ret_ref
        if k == "ConditionalOperator":
            return self.is_glvalue(n["c"][1]) and self.is_glvalue(n["c"][2])
        return False

    def any(self, n):
        """Evaluate for side effects / as an expression statement."""
        return self.lv(n) if self.is_glvalue(n) else self.rv(n)

    # ------------------------------------------------------------------- calls
    def callee_ref(self, n):
        c0 = n["c"][0] if n["c"] else None
        while c0 is not None and c0["k"] in CASTS + TRANSPARENT and c0["c"]:
            c0 = c0["c"][-1]
        if c0 is None or c0["k"] != "DeclRefExpr":
            return None
        return c0

    def resolve_call(self, n):
        ref = self.callee_ref(n)
        if ref is None:
            raise self.oov("indirect call `%s`" % show(n), n)
        q = ref.get("q") or n.get("callee")
        if q in self.m.ext:
            return None
        return self.m.function(q, param_sig(ref.get("ty", "")), n, self.obj_type(n))

    @staticmethod
    def obj_type(n):
        if n["k"] == "CXXOperatorCallExpr" and len(n["c"]) > 1 and n["c"][1] is not None:
            return _base_type(n["c"][1].get("ty", ""))
        return None

    def compile_call(self, n, want_lv):
        m = self.m
        k = n["k"]
        ref = self.callee_ref(n)
        if ref is None:
            raise self.oov("indirect call `%s`" % show(n), n)
        q = ref.get("q") or n.get("callee")
        if k == "CXXOperatorCallExpr":
            if n.get("oop") != "()":
                raise self.oov("overloaded operator %s" % n.get("oop"), n)
            obj = self.any(n["c"][1])
            argn = n["c"][2:]
        elif k == "CallExpr":
            obj = None
            argn = n["c"][1:]
        else:
            raise self.oov("call expression %s" % k, n)
        if q in m.ext:
            # external functor: every argument must be an element value
            evs = [self.rv(a) for a in argn]
            name = q

            def ext_call(fr):
                if obj is not None:
                    o = obj(fr)
                    if hasattr(o, "load"):
                        o = o.load()
                    if type(o) is not Functor:
                        raise OutOfVocabulary("%s applied to %r" % (name, o))
                args = [e(fr) for e in evs]
                for a in args:
                    if type(a) is not Elem:
                        raise OutOfVocabulary("%s applied to the non-element value %r" % (name, a))
                m.tick()
                return m.ext[name](*args)
            if want_lv:
                return lambda fr: Box(ext_call(fr))
            return ext_call
        fn = m.function(q, param_sig(ref.get("ty", "")), n, self.obj_type(n))
        if len(fn.params) != len(argn):
            raise self.oov("call of %s with %d arguments for %d parameters"
                           % (q, len(argn), len(fn.params)), n)
        evs = []
        for (pname, pref), a in zip(fn.params, argn):
            if a is None or a["k"] == "CXXDefaultArgExpr":
                raise self.oov("default argument", n)
            evs.append((pname, self.lv(a) if pref else self.rv(a)))
        evs = tuple(evs)
        ret_ref = fn.ret_ref
        inst = fn.inst

        def call(fr):
            nf = {}
            for pname, e in evs:
                nf[pname] = e(fr)
            if obj is not None:
                obj(fr)
            m.steps += 1
            if m.steps > m.budget:
                m.tick()
            m.depth += 1
            if m.depth > 200:
                raise Violation("nontermination", "unbounded recursion through %s" % inst)
            m.used.add(inst)
            fn.body(nf)
            m.depth -= 1
            return nf.get("$ret")
        if ret_ref and not want_lv:
            return lambda fr: call(fr).load()
        if want_lv and not ret_ref:
            return lambda fr: Box(call(fr))
        return call

    # -------------------------------------------------------------- expressions
    def truth_of(self, ev, n):
        def t(fr):
            v = ev(fr)
            tv = type(v)
            if tv is bool:
                return v
            if tv is int:
                return v != 0
            if tv is Ptr:
                return True
            raise OutOfVocabulary("truth value of %r at %s" % (v, _loc(n)))
        return t

    def cond(self, n):
        return self.truth_of(self.rv(n), n)

    def const(self, n):
        v = int(n["cval"])
        if _base_type(n.get("ty", "")) == "bool":
            v = bool(v)
        return lambda fr: v

    def rv(self, n):
        m = self.m
        if n is None:
            raise self.oov("missing expression", n)
        k = n["k"]
        if "cval" in n and k != "VarDecl":
            return self.const(n)
        if k in TRANSPARENT or k == "MaterializeTemporaryExpr":
            return self.rv(n["c"][-1])
        if k in CASTS:
            ch = n["c"][0] if k == "CXXFunctionalCastExpr" else n["c"][-1]
            ck = n.get("cast")
            if ck == "LValueToRValue":
                return self.load(ch)
            if ck == "NoOp":
                if self.is_glvalue(ch):
                    return self.load(ch)
                return self.rv(ch)
            if ck == "IntegralCast":
                rng = int_range(n.get("ty"))
                if rng is None:
                    raise self.oov("integral cast to %s" % n.get("ty"), n)
                lo, hi, bits = rng
                e = self.rv(ch)
                mask = (1 << bits) - 1

                def icast(fr):
                    v = e(fr)
                    tv = type(v)
                    if tv is bool:
                        v = int(v)
                    elif tv is not int:
                        raise OutOfVocabulary("integral cast of %r at %s" % (v, _loc(n)))
                    if lo <= v <= hi:
                        return v
                    v &= mask
                    return v - (mask + 1) if (lo < 0 and v > hi) else v
                return icast
            if ck == "IntegralToBoolean":
                return self.truth_of(self.rv(ch), n)
            if ck == "ToVoid":
                e = self.any(ch)

                def tovoid(fr):
                    e(fr)
                    return None
                return tovoid
            raise self.oov("cast %s to %s" % (ck, n.get("ty")), n)
        if k == "IntegerLiteral":
            v = int(n["val"])
            return lambda fr: v
        if k == "CXXBoolLiteralExpr":
            v = n["val"] == "true"
            return lambda fr: v
        if k in ("DeclRefExpr", "ArraySubscriptExpr"):
            return self.load(n)
        if k == "UnaryOperator":
            return self.unary_rv(n)
        if k == "BinaryOperator":
            return self.binary_rv(n)
        if k == "CompoundAssignOperator":
            return self.load(n)
        if k == "ConditionalOperator":
            c = self.cond(n["c"][0])
            a, b = self.rv(n["c"][1]), self.rv(n["c"][2])
            return lambda fr: a(fr) if c(fr) else b(fr)
        if k in ("CallExpr", "CXXOperatorCallExpr"):
            return self.compile_call(n, False)
        if k in ("CXXConstructExpr", "CXXTemporaryObjectExpr", "InitListExpr"):
            ty = _base_type(n.get("ty", ""))
            args = [a for a in n["c"] if a is not None]
            if m.is_functor_type(ty):
                if not args:
                    f = Functor(ty)
                    return lambda fr: f
                if len(args) == 1:
                    e = self.load(args[0]) if self.is_glvalue(args[0]) else self.rv(args[0])

                    def copy_functor(fr):
                        v = e(fr)
                        if type(v) is not Functor:
                            raise OutOfVocabulary("functor constructed from %r at %s" % (v, _loc(n)))
                        return v
                    return copy_functor
            elif k == "InitListExpr" and len(args) == 1:
                return self.rv(args[0])          # scalar list initialisation  T x{v}
            raise self.oov("construction of %s" % ty, n)
        raise self.oov("expression %s `%s`" % (k, show(n)), n)

    def load(self, n):
        """rvalue of a glvalue expression, with the fast paths."""
        s = n
        while s["k"] in TRANSPARENT:
            s = s["c"][-1]
        if s["k"] == "DeclRefExpr" and s.get("dk") in ("Var", "ParmVar"):
            name = s["name"]
            if name in self.refs:
                return lambda fr: fr[name].load()
            return lambda fr: fr[name]
        if s["k"] == "UnaryOperator" and s["op"] == "*":
            p = self.rv(s["c"][0])
            m = self.m

            def deref(fr):
                q = p(fr)
                if type(q) is Ptr and 0 <= q.i < q.arr.n:
                    return q.arr.cells[q.i]
                return m.cell(q, s).load()
            return deref
        lv = self.lv(n)
        return lambda fr: lv(fr).load()

    def lv(self, n):
        m = self.m
        k = n["k"]
        if k in TRANSPARENT:
            return self.lv(n["c"][-1])
        if k in CASTS:
            if n.get("cast") == "NoOp":
                return self.lv(n["c"][0] if k == "CXXFunctionalCastExpr" else n["c"][-1])
            e = self.rv(n)
            return lambda fr: Box(e(fr))
        if k == "MaterializeTemporaryExpr":
            ch = n["c"][-1]
            if self.is_glvalue(ch):
                return self.lv(ch)
            e = self.rv(ch)
            return lambda fr: Box(e(fr))
        if k == "DeclRefExpr":
            if n.get("dk") not in ("Var", "ParmVar"):
                raise self.oov("reference to %s `%s`" % (n.get("dk"), n.get("name")), n)
            name = n["name"]
            if name not in self.decl_ref:
                raise self.oov("variable `%s` is not a local of this function" % name, n)
            if name in self.refs:
                return lambda fr: fr[name]
            return lambda fr: VarRef(fr, name)
        if k == "UnaryOperator":
            op = n["op"]
            if op == "*":
                p = self.rv(n["c"][0])
                return lambda fr: m.cell(p(fr), n)
            if op in ("++", "--") and not n.get("postfix"):
                tgt = self.lv(n["c"][0])
                d = 1 if op == "++" else -1

                def preinc(fr):
                    l = tgt(fr)
                    l.store(self.step(l.load(), d, n))
                    return l
                return preinc
        if k == "BinaryOperator":
            op = n["op"]
            if op == "=":
                tgt = self.lv(n["c"][0])
                src = self.rv(n["c"][1])

                def assign(fr):
                    v = src(fr)          # C++17: the right operand is sequenced first
                    l = tgt(fr)
                    l.store(v)
                    return l
                return assign
            if op == ",":
                a = self.any(n["c"][0])
                b = self.lv(n["c"][1])

                def comma(fr):
                    a(fr)
                    return b(fr)
                return comma
        if k == "CompoundAssignOperator":
            op = n["op"][:-1]
            tgt = self.lv(n["c"][0])
            src = self.rv(n["c"][1])
            f = self.arith(op, n)

            def cassign(fr):
                v = src(fr)
                l = tgt(fr)
                l.store(f(l.load(), v))
                return l
            return cassign
        if k == "ArraySubscriptExpr":
            a, b = self.rv(n["c"][0]), self.rv(n["c"][1])
            add = self.arith("+", n)
            return lambda fr: m.cell(add(a(fr), b(fr)), n)
        if k == "ConditionalOperator" and self.is_glvalue(n):
            c = self.cond(n["c"][0])
            a, b = self.lv(n["c"][1]), self.lv(n["c"][2])
            return lambda fr: a(fr) if c(fr) else b(fr)
        if k == "CallExpr":
            return self.compile_call(n, True)
        # a prvalue bound to a reference
        e = self.rv(n)
        return lambda fr: Box(e(fr))

    def step(self, v, d, n):
        tv = type(v)
        if tv is int:
            return v + d
        if tv is Ptr:
            return self.m.ptr(v.arr, v.i + d, n)
        raise OutOfVocabulary("%s: ++/-- applied to %r at %s" % (self.c.inst, v, _loc(n)))

    def unary_rv(self, n):
        op = n["op"]
        ch = n["c"][0]
        m = self.m
        if op == "!":
            c = self.cond(ch)
            return lambda fr: not c(fr)
        if op in ("-", "+"):
            e = self.rv(ch)
            rng = int_range(n.get("ty"))

            def neg(fr):
                v = e(fr)
                if type(v) is bool:
                    v = int(v)
                if type(v) is not int:
                    raise OutOfVocabulary("unary %s on %r at %s" % (op, v, _loc(n)))
                return self.wrap(-v if op == "-" else v, rng)
            return neg
        if op == "*":
            return self.load(n)
        if op == "&":
            l = self.lv(ch)

            def addr(fr):
                x = l(fr)
                if type(x) is not Cell:
                    raise OutOfVocabulary("address of a non-element at %s" % _loc(n))
                return Ptr(x.arr, x.i)
            return addr
        if op in ("++", "--"):
            d = 1 if op == "++" else -1
            s = ch
            while s["k"] in TRANSPARENT:
                s = s["c"][-1]
            if s["k"] == "DeclRefExpr" and s.get("dk") in ("Var", "ParmVar") \
                    and s["name"] not in self.refs and s["name"] in self.decl_ref:
                name = s["name"]
                post = bool(n.get("postfix"))

                def inc_local(fr):
                    v = fr[name]
                    tv = type(v)
                    if tv is Ptr:
                        i = v.i + d
                        if i < 0 or i > v.arr.n:
                            m.ptr(v.arr, i, n)
                        w = Ptr(v.arr, i)
                    elif tv is int:
                        w = v + d
                    else:
                        raise OutOfVocabulary("++/-- applied to %r at %s" % (v, _loc(n)))
                    fr[name] = w
                    return v if post else w
                return inc_local
            tgt = self.lv(ch)
            if n.get("postfix"):
                def postinc(fr):
                    l = tgt(fr)
                    v = l.load()
                    l.store(self.step(v, d, n))
                    return v
                return postinc
            return self.load(n)
        raise self.oov("unary operator %s" % op, n)

    @staticmethod
    def wrap(v, rng):
        if rng is None:
            return v
        lo, hi, bits = rng
        if lo <= v <= hi:
            return v
        if lo < 0:
            raise Violation("overflow", "signed integer overflow (%d)" % v)
        return v & ((1 << bits) - 1)

    def arith(self, op, n):
        """Binary arithmetic on ready values: integers (wrapped to the result type) and
        iterator +/- integer, iterator - iterator."""
        m = self.m
        rng = int_range(n.get("ty"))
        wrap = self.wrap
        loc = _loc(n)

        def ints(a, b):
            if op == "+":
                return a + b
            if op == "-":
                return a - b
            if op == "*":
                return a * b
            if op in ("/", "%"):
                if b == 0:
                    raise Violation("division", "integer division by zero", loc)
                q = _cdiv(a, b)
                return q if op == "/" else a - q * b
            if a < 0 or b < 0:
                raise OutOfVocabulary("bit operation %s on a negative value at %s" % (op, loc))
            if op == "<<":
                return a << b
            if op == ">>":
                return a >> b
            if op == "&":
                return a & b
            if op == "|":
                return a | b
            if op == "^":
                return a ^ b
            raise OutOfVocabulary("binary operator %s at %s" % (op, loc))
        if op not in ("+", "-", "*", "/", "%", "<<", ">>", "&", "|", "^"):
            raise self.oov("binary operator %s" % op, n)

        def f(a, b):
            ta, tb = type(a), type(b)
            if ta is bool:
                a, ta = int(a), int
            if tb is bool:
                b, tb = int(b), int
            if ta is int and tb is int:
                return wrap(ints(a, b), rng)
            if ta is Ptr and tb is int:
                if op == "+":
                    return m.ptr(a.arr, a.i + b, n)
                if op == "-":
                    return m.ptr(a.arr, a.i - b, n)
            if ta is int and tb is Ptr and op == "+":
                return m.ptr(b.arr, b.i + a, n)
            if ta is Ptr and tb is Ptr and op == "-" and a.arr is b.arr:
                return a.i - b.i
            raise OutOfVocabulary("%s applied to %r and %r at %s" % (op, a, b, loc))
        return f

    def binary_rv(self, n):
        op = n["op"]
        m = self.m
        a_n, b_n = n["c"][0], n["c"][1]
        if op == "&&":
            a, b = self.cond(a_n), self.cond(b_n)
            return lambda fr: a(fr) and b(fr)
        if op == "||":
            a, b = self.cond(a_n), self.cond(b_n)
            return lambda fr: a(fr) or b(fr)
        if op == ",":
            a, b = self.any(a_n), self.rv(b_n)

            def comma(fr):
                a(fr)
                return b(fr)
            return comma
        if op == "=":
            return self.load(n)
        if op in CMP:
            a, b = self.rv(a_n), self.rv(b_n)
            cmpf = CMP[op]
            loc = _loc(n)

            def compare(fr):
                x = a(fr)
                y = b(fr)
                tx, ty = type(x), type(y)
                if tx is Ptr:
                    if ty is Ptr and x.arr is y.arr:
                        return cmpf(x.i, y.i)
                elif tx is int or tx is bool:
                    if ty is int or ty is bool:
                        return cmpf(x, y)
                elif tx is Elem and ty is Elem:
                    # built-in relational operator on element values (Less<>): natural order
                    if m.key is None:
                        raise OutOfVocabulary("built-in %s on element values at %s" % (op, loc))
                    m.tick()
                    return cmpf(m.key(x), m.key(y))
                raise OutOfVocabulary("%s applied to %r and %r at %s" % (op, x, y, loc))
            return compare
        a, b = self.rv(a_n), self.rv(b_n)
        f = self.arith(op, n)
        return lambda fr: f(a(fr), b(fr))

    # --------------------------------------------------------------- statements
    def block(self, stmts):
        stmts = tuple(stmts)
        if len(stmts) == 1:
            return stmts[0]

        def run(fr):
            for s in stmts:
                st = s(fr)
                if st:
                    return st
            return 0
        return run

    def scoped(self, n):
        self.scopes.append(set())
        try:
            return self.stmt(n)
        finally:
            self.scopes.pop()

    def declare(self, vd):
        name = vd["name"]
        for sc in self.scopes:
            if name in sc:
                raise self.oov("`%s` shadows / redeclares a name of an enclosing scope" % name, vd)
        self.scopes[-1].add(name)

    def stmt(self, n):
        m = self.m
        if n is None:
            return lambda fr: 0
        k = n["k"]
        if k == "NullStmt":
            return lambda fr: 0
        if k == "CompoundStmt":
            self.scopes.append(set())
            try:
                return self.block([self.stmt(c) for c in n["c"]] or [lambda fr: 0])
            finally:
                self.scopes.pop()
        if k == "DeclStmt":
            acts = []
            for vd in n["c"]:
                if vd["k"] != "VarDecl":
                    raise self.oov("declaration %s" % vd["k"], vd)
                self.declare(vd)
                acts.append(self.vardecl(vd))
            if not acts:            # typedef / using / static_assert
                return lambda fr: 0

            def decls(fr):
                for a in acts:
                    a(fr)
                return 0
            return decls
        if k == "IfStmt":
            kids = [c for c in n["c"] if c is not None]
            if len(kids) < 2 or kids[0]["k"] == "DeclStmt" or len(kids) > 3:
                raise self.oov("if statement with an init-statement / condition variable", n)
            c = self.cond(kids[0])
            then = self.scoped(kids[1])
            els = self.scoped(kids[2]) if len(kids) == 3 else None
            if els is None:
                return lambda fr: then(fr) if c(fr) else 0
            return lambda fr: then(fr) if c(fr) else els(fr)
        if k == "WhileStmt":
            kids = [c for c in n["c"] if c is not None]
            if len(kids) != 2:
                raise self.oov("while statement with a condition variable", n)
            c = self.cond(kids[0])
            body = self.scoped(kids[1])

            def wloop(fr):
                while True:
                    m.steps += 1
                    if m.steps > m.budget:
                        m.tick()
                    if not c(fr):
                        return 0
                    st = body(fr)
                    if st == 1:
                        return 0
                    if st == 3:
                        return 3
            return wloop
        if k == "DoStmt":
            kids = n["c"]
            if len(kids) != 2:
                raise self.oov("do statement", n)
            body = self.scoped(kids[0])
            c = self.cond(kids[1])

            def dloop(fr):
                while True:
                    m.steps += 1
                    if m.steps > m.budget:
                        m.tick()
                    st = body(fr)
                    if st == 1:
                        return 0
                    if st == 3:
                        return 3
                    if not c(fr):
                        return 0
            return dloop
        if k == "ForStmt":
            kids = n["c"]
            if len(kids) != 5 or kids[1] is not None:
                raise self.oov("for statement with a condition variable", n)
            self.scopes.append(set())
            try:
                init = self.stmt(kids[0]) if kids[0] is not None else None
                c = self.cond(kids[2]) if kids[2] is not None else None
                inc = self.any(kids[3]) if kids[3] is not None else None
                body = self.scoped(kids[4])
            finally:
                self.scopes.pop()

            def floop(fr):
                if init is not None:
                    init(fr)
                while True:
                    m.steps += 1
                    if m.steps > m.budget:
                        m.tick()
                    if c is not None and not c(fr):
                        return 0
                    st = body(fr)
                    if st == 1:
                        return 0
                    if st == 3:
                        return 3
                    if inc is not None:
                        inc(fr)
            return floop
        if k == "BreakStmt":
            return lambda fr: 1
        if k == "ContinueStmt":
            return lambda fr: 2
        if k == "ReturnStmt":
            kids = [c for c in n["c"] if c is not None]
            if not kids:
                return lambda fr: 3
            if _base_type(kids[0].get("ty", "")) == "void":
                e = self.any(kids[0])       # `return f(...);` in a void function
            elif self.c.ret_ref:
                e = self.lv(kids[0])
            else:
                e = self.rv(kids[0])

            def ret(fr):
                fr["$ret"] = e(fr)
                return 3
            return ret
        if k.endswith("Stmt") or k.endswith("Decl"):
            raise self.oov("statement %s" % k, n)
        e = self.any(n)

        def expr_stmt(fr):
            e(fr)
            return 0
        return expr_stmt

    def vardecl(self, vd):
        name = vd["name"]
        init = vd["c"][0] if vd["c"] else None
        if init is None:
            if is_ref_type(vd.get("ty", "")):
                raise self.oov("reference `%s` without initialiser" % name, vd)
            ty = _base_type(vd.get("ty", ""))
            if self.m.is_functor_type(ty):
                f = Functor(ty)

                def d0(fr):
                    fr[name] = f
                return d0

            def d1(fr):
                fr[name] = UNINIT
            return d1
        e = self.lv(init) if is_ref_type(vd.get("ty", "")) else self.rv(init)

        def d(fr):
            fr[name] = e(fr)
        return d
