"""A7: boolean-domain interpretation of an executor body (AST from celerfacts --ast).

The body is walked statement by statement.  Conditions are evaluated over boolean locals and
caller-supplied *atoms* (a hook that maps an expression node to True/False/None); an undecided
condition forks the walk (both outcomes are explored).  A range-`for` iterates over an abstract
sequence supplied by a hook.  Expression statements are offered to an `effect` hook that
records what the caller is interested in.  The result is the list of final states of all
paths.  Statements that cannot influence boolean locals or effects are skipped; a loop that is
not a range-for over a hooked sequence is out of vocabulary."""
import copy
from astutil import strip, OutOfVocabulary, show, walk


class Fork(Exception):
    def __init__(self, key):
        Exception.__init__(self, "fork")
        self.key = key


class Return(Exception):
    pass


class Continue(Exception):
    pass


class Break(Exception):
    pass


class State(object):
    def __init__(self):
        self.flags = {}        # boolean locals
        self.data = {}         # caller's abstract state
        self.effects = []


class Interp(object):
    def __init__(self, ast, atom, effect, sequence, choices):
        self.ast = ast
        self.atom = atom
        self.effect = effect
        self.sequence = sequence
        self.choices = list(choices)     # pre-decided outcomes of undecided conditions
        self.nchoice = 0
        self.st = State()
        self.steps = 0

    # ------------------------------------------------------------- conditions
    def truth(self, n):
        self.steps += 1
        if self.steps > 50000:
            raise OutOfVocabulary("boolean interpretation does not terminate")
        n0 = n
        n = strip(n, also=("CXXStaticCastExpr",))
        if n is None:
            raise OutOfVocabulary("empty condition")
        k = n["k"]
        if "cval" in n0 or "cval" in n:
            return bool(int(n0.get("cval", n.get("cval"))))
        if k == "CXXBoolLiteralExpr":
            return n["val"] == "true"
        if k == "UnaryOperator" and n["op"] == "!":
            return not self.truth(n["c"][0])
        if k == "BinaryOperator" and n["op"] == "&&":
            return self.truth(n["c"][0]) and self.truth(n["c"][1])
        if k == "BinaryOperator" and n["op"] == "||":
            return self.truth(n["c"][0]) or self.truth(n["c"][1])
        if k == "DeclRefExpr" and n["name"] in self.st.flags:
            v = self.st.flags[n["name"]]
            if v is None:
                return self.decide(("flag", n["name"]))
            return v
        if k == "CXXOperatorCallExpr" and n.get("oop") in ("==", "!=") and len(n["c"]) == 3:
            pass
        v = self.atom(n, self.st)
        if v is None:
            return self.decide(("cond", show(n)))
        return v

    def decide(self, key):
        if self.nchoice < len(self.choices):
            v = self.choices[self.nchoice]
            self.nchoice += 1
            return v
        raise Fork(key)

    # ------------------------------------------------------------- statements
    def run(self, st):
        if st is None:
            return
        k = st["k"]
        if k == "CompoundStmt":
            for c in st["c"]:
                self.run(c)
        elif k == "DeclStmt":
            for vd in st["c"]:
                init = vd["c"][0] if vd["c"] else None
                if vd.get("ty", "").replace("const ", "") == "bool":
                    self.st.flags[vd["name"]] = self.truth(init) if init is not None else None
                elif init is not None:
                    self.effect(init, self.st, decl=vd)
        elif k == "IfStmt":
            kids = [c for c in st["c"] if c is not None]
            # an init-statement / condition variable would come first: not used here
            cond, then = kids[0], kids[1]
            els = kids[2] if len(kids) > 2 else None
            if cond["k"] == "DeclStmt":
                raise OutOfVocabulary("if with a declaration")
            if self.truth(cond):
                self.run(then)
            elif els is not None:
                self.run(els)
        elif k == "CXXForRangeStmt":
            kids = st["c"]
            rng = kids[1]["c"][0]["c"][0]
            seq = self.sequence(rng, self.st)
            if seq is None:
                raise OutOfVocabulary("range-for over " + show(rng))
            name = kids[6]["c"][0]["name"]
            for item in seq:
                self.st.data["loopvar"] = (name, item)
                try:
                    self.run(kids[7])
                except Continue:
                    continue
                except Break:
                    break
            self.st.data.pop("loopvar", None)
        elif k in ("ForStmt", "WhileStmt"):
            raise OutOfVocabulary("loop statement " + k)
        elif k == "DoStmt":
            # CELER_* assertion macros: do { if (false && ...) {} } while (0)
            body = st["c"][0]
            if any(x["k"] in ("CXXOperatorCallExpr", "CXXMemberCallExpr", "BinaryOperator")
                   and x.get("op") in ("=",) for x in walk(body)):
                raise OutOfVocabulary("do statement with assignments")
        elif k == "ReturnStmt":
            raise Return()
        elif k == "NullStmt":
            pass
        elif k == "ContinueStmt":
            if "loopvar" not in self.st.data:
                raise OutOfVocabulary("continue outside an interpreted loop")
            raise Continue()
        elif k == "BreakStmt":
            if "loopvar" not in self.st.data:
                raise OutOfVocabulary("break outside an interpreted loop")
            raise Break()
        else:
            self.expr_stmt(st)

    def expr_stmt(self, n):
        s = strip(n, also=("CXXStaticCastExpr",))
        # assignment to a boolean local
        if s["k"] == "BinaryOperator" and s["op"] == "=":
            lhs = strip(s["c"][0])
            if lhs["k"] == "DeclRefExpr" and lhs["name"] in self.st.flags:
                self.st.flags[lhs["name"]] = self.truth(s["c"][1])
                return
        if s["k"] == "CompoundAssignOperator":
            lhs = strip(s["c"][0])
            if lhs["k"] == "DeclRefExpr" and lhs["name"] in self.st.flags:
                raise OutOfVocabulary("compound assignment to a boolean local")
        self.effect(s, self.st, decl=None)


def explore(ast, atom, effect, sequence, init=None, max_paths=4096):
    """Final states of all paths (undecided conditions fork)."""
    out = []
    stack = [[]]
    while stack:
        choices = stack.pop()
        it = Interp(ast, atom, effect, sequence, choices)
        if init:
            init(it.st)
        try:
            try:
                it.run(ast)
            except Return:
                pass
            out.append(it.st)
        except Fork:
            stack.append(choices + [False])
            stack.append(choices + [True])
        if len(out) + len(stack) > max_paths:
            raise OutOfVocabulary("more than %d paths" % max_paths)
    return out
