"""Helpers for the JSON expression trees emitted by celerfacts --ast."""
from facts import AnalysisBroken

TRANSPARENT = {"ImplicitCastExpr", "ParenExpr", "ExprWithCleanups", "MaterializeTemporaryExpr",
               "CXXBindTemporaryExpr", "ConstantExpr", "CXXFunctionalCastExpr",
               "SubstNonTypeTemplateParmExpr"}


class OutOfVocabulary(AnalysisBroken):
    pass


def strip(n, also=()):
    while n is not None and (n["k"] in TRANSPARENT or n["k"] in also) and len(n["c"]) >= 1:
        n = n["c"][-1] if n["k"] != "CXXFunctionalCastExpr" else n["c"][0]
    return n


def kids(n):
    return [c for c in n["c"]]


def walk(n):
    if n is None:
        return
    yield n
    for c in n["c"]:
        yield from walk(c)


def const_int(n):
    """Integer value of a constant expression node (via literal or folded cval)."""
    if n is None:
        return None
    if "cval" in n:
        return int(n["cval"])
    s = strip(n, also=("CXXStaticCastExpr",))
    if s is None:
        return None
    if "cval" in s:
        return int(s["cval"])
    if s["k"] == "IntegerLiteral":
        return int(s["val"])
    return None


def find_all(n, kind):
    return [x for x in walk(n) if x["k"] == kind]


def show(n, maxlen=200):
    """Compact one-line rendering for diagnostics."""
    if n is None:
        return "null"
    k = n["k"]
    if k in TRANSPARENT or k == "CXXStaticCastExpr":
        return show(n["c"][-1], maxlen) if n["c"] else k
    if k == "IntegerLiteral":
        return n["val"]
    if k == "FloatingLiteral":
        return n["val"]
    if k == "DeclRefExpr":
        return n["name"]
    if k == "MemberExpr":
        return (show(n["c"][0]) + ("->" if n.get("arrow") else ".") if n["c"] else "") + n["name"]
    if k == "CXXThisExpr":
        return "this"
    if k in ("BinaryOperator", "CompoundAssignOperator"):
        return "(%s %s %s)" % (show(n["c"][0]), n["op"], show(n["c"][1]))
    if k == "UnaryOperator":
        return "%s%s" % (n["op"], show(n["c"][0]))
    if k == "CXXOperatorCallExpr":
        args = n["c"][1:]
        if n.get("oop") == "[]":
            return "%s[%s]" % (show(args[0]), show(args[1]))
        return "%s(%s)" % (n.get("oop"), ", ".join(show(a) for a in args))
    if k in ("CallExpr", "CXXMemberCallExpr"):
        return "%s(%s)" % (n.get("callee", "?").split("::")[-1],
                           ", ".join(show(a) for a in n["c"][1:]))
    return k
