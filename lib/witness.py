"""T1: compile-time witnesses. A generated translation unit of static_asserts
over the repository's own constexpr traits is compiled with clang++
-fsyntax-only using the flags of a sibling unit; each failing assertion is one
named violation."""
import os
import re
import shlex
import subprocess
import tempfile

import facts
from facts import AnalysisBroken


def compile_witness(source, like_unit):
    """Returns (failed_tags:set, other_errors:list[str])"""
    db, _ = facts.compile_db()
    like = os.path.join(facts.REPO, like_unit)
    if like not in db:
        raise AnalysisBroken("witness: sibling unit %s not in the compile database" % like_unit)
    cmd = shlex.split(db[like]["command"])
    out = []
    skip = False
    for a in cmd[1:]:
        if skip:
            skip = False
            continue
        if a in ("-o", "-MF", "-MT", "-c"):
            skip = True
            continue
        if a in ("-MD", "-MMD") or a == like:
            continue
        out.append(a)
    d = os.path.join(facts.CACHE, "witness")
    os.makedirs(d, exist_ok=True)
    fd, path = tempfile.mkstemp(suffix=".cc", dir=d)
    with os.fdopen(fd, "w") as f:
        f.write(source)
    try:
        r = subprocess.run(["clang++", "-fsyntax-only", "-ferror-limit=0", "-Wno-everything"]
                           + out + [path], capture_output=True, text=True,
                           cwd=db[like]["directory"])
    finally:
        os.unlink(path)
    failed = set()
    other = []
    for line in r.stderr.splitlines():
        if "error:" not in line:
            continue
        m = re.search(r'static_assert failed.*?"W:([^"]+)"', line) or \
            re.search(r"static assertion failed.*?W:([^\"']+)", line)
        if m:
            failed.add(m.group(1).strip())
        else:
            other.append(line.strip()[:300])
    return failed, other
