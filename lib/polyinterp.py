"""A6: polynomial-domain interpretation of straight-line coefficient code.

Scalars are multivariate polynomials with rational coefficients over named symbols (exact:
the code only adds, subtracts, multiplies and divides by constants); vectors are lists of
polynomials, matrices lists of vectors.  Counted `for` loops with constant bounds are unrolled.
Used by C12 to compare the coefficients computed by SurfaceTranslator for quadrics with the
expansion of f(x - t).  Anything outside the vocabulary raises OutOfVocabulary."""
from fractions import Fraction
from astutil import strip, OutOfVocabulary, show

TRANSPARENT_EXTRA = ("CXXFunctionalCastExpr", "CXXStaticCastExpr", "CXXConstructExpr",
                     "CXXBindTemporaryExpr")


class Poly(object):
    """dict: monomial (sorted tuple of (symbol, power)) -> Fraction"""

    def __init__(self, terms=None):
        self.t = {k: v for k, v in (terms or {}).items() if v != 0}

    @staticmethod
    def const(c):
        return Poly({(): Fraction(c)})

    @staticmethod
    def sym(name):
        return Poly({((name, 1),): Fraction(1)})

    def __add__(self, o):
        o = as_poly(o)
        r = dict(self.t)
        for k, v in o.t.items():
            r[k] = r.get(k, 0) + v
        return Poly(r)

    def __neg__(self):
        return Poly({k: -v for k, v in self.t.items()})

    def __sub__(self, o):
        return self + (-as_poly(o))

    def __mul__(self, o):
        o = as_poly(o)
        r = {}
        for k1, v1 in self.t.items():
            for k2, v2 in o.t.items():
                m = {}
                for s, p in k1 + k2:
                    m[s] = m.get(s, 0) + p
                k = tuple(sorted((s_, p_) for s_, p_ in m.items() if p_ != 0))
                r[k] = r.get(k, 0) + v1 * v2
        return Poly(r)

    def is_const(self):
        return all(k == () for k in self.t)

    def cval(self):
        return self.t.get((), Fraction(0))

    def div(self, o):
        o = as_poly(o)
        if len(o.t) == 1:
            (k, v), = o.t.items()
            inv = Poly({tuple((s_, -p_) for s_, p_ in k): Fraction(1) / v})
            return self * inv
        if not o.is_const() or o.cval() == 0:
            raise OutOfVocabulary("division by a sum")
        return Poly({k: v / o.cval() for k, v in self.t.items()})

    def __eq__(self, o):
        return self.t == as_poly(o).t

    def __ne__(self, o):
        return not self == o

    def __repr__(self):
        if not self.t:
            return "0"
        out = []
        for k, v in sorted(self.t.items()):
            mon = "*".join(s if p == 1 else "%s^%d" % (s, p) for s, p in k)
            out.append(("%s*%s" % (v, mon)) if mon and v != 1 else (mon or str(v)))
        return " + ".join(out)


def as_poly(x):
    if isinstance(x, Poly):
        return x
    if isinstance(x, (int, Fraction)):
        return Poly.const(x)
    raise OutOfVocabulary("not a scalar: %r" % (x,))


class Return(Exception):
    def __init__(self, v):
        self.v = v


class Interp(object):
    """symbols: callee name of an accessor -> value (Poly, vector or matrix)."""

    def __init__(self, func, accessors):
        self.f = func
        self.acc = accessors
        self.env = {}
        self.steps = 0

    def tick(self):
        self.steps += 1
        if self.steps > 200000:
            raise OutOfVocabulary("polynomial interpretation does not terminate")

    # ------------------------------------------------------------------ lvalues
    def lval(self, n):
        n = strip(n, also=TRANSPARENT_EXTRA)
        if n["k"] == "DeclRefExpr":
            return ("var", n["name"])
        if n["k"] == "CXXOperatorCallExpr" and n.get("oop") == "[]":
            base = self.lval(n["c"][1])
            i = self.ev(n["c"][2])
            if not isinstance(i, int):
                raise OutOfVocabulary("symbolic subscript")
            return ("elem", base, i)
        if n["k"] == "ArraySubscriptExpr":
            base = self.lval(n["c"][0])
            i = self.ev(n["c"][1])
            return ("elem", base, i)
        raise OutOfVocabulary("assignment target " + show(n))

    def load(self, lv):
        if lv[0] == "var":
            if lv[1] not in self.env:
                raise OutOfVocabulary("unknown variable " + lv[1])
            return self.env[lv[1]]
        return self.load(lv[1])[lv[2]]

    def store(self, lv, v):
        if lv[0] == "var":
            self.env[lv[1]] = v
        else:
            self.load(lv[1])[lv[2]] = v

    # -------------------------------------------------------------- expressions
    def ev(self, n):
        self.tick()
        if n is None:
            return None
        k = n["k"]
        if "cval" in n and k not in ("VarDecl",):
            return int(n["cval"])
        if k in ("ImplicitCastExpr", "ParenExpr", "ExprWithCleanups", "MaterializeTemporaryExpr",
                 "ConstantExpr", "CXXBindTemporaryExpr", "CXXStaticCastExpr"):
            return self.ev(n["c"][-1])
        if k == "CXXFunctionalCastExpr":
            return self.ev(n["c"][0])
        if k == "IntegerLiteral":
            return int(n["val"])
        if k == "FloatingLiteral":
            return Poly.const(Fraction(n["val"]))
        if k == "DeclRefExpr":
            if n["name"] in self.env:
                return self.env[n["name"]]
            if n.get("dk") == "ParmVar":
                return ("param", n["name"])
            if n["name"] == "transpose":
                return ("transpose",)
            raise OutOfVocabulary("unknown variable " + n["name"])
        if k == "CXXThisExpr":
            return ("this",)
        if k == "LambdaExpr":
            return ("lambda", n["c"][0])
        if k == "MemberExpr":
            base = self.ev(n["c"][0]) if n["c"] else None
            return ("member", n["name"], base)
        if k in ("InitListExpr", "CXXTemporaryObjectExpr", "CXXConstructExpr") and "callee" not in n:
            v = [self.ev(c) for c in n["c"]]
            if len(v) == 1 and not isinstance(v[0], list) and \
                    n.get("ty", "").replace("const ", "").split("::")[-1] in ("double", "float", "real_type", "int",
                                                                               "unsigned int", "unsigned long"):
                return v[0]      # T{x} for a scalar T
            # aggregate initialisation of Array<T, N> nests one list for the C array member
            while len(v) == 1 and isinstance(v[0], list):
                v = v[0]
            return v
        if k in ("CXXTemporaryObjectExpr", "CXXConstructExpr"):
            cal = n.get("callee", "")
            args = [self.ev(c) for c in n["c"]]
            if cal.endswith("Array::Array") or cal.endswith("SquareMatrix::SquareMatrix"):
                if len(args) == 1 and isinstance(args[0], list):
                    return list(args[0])
                return args
            return ("construct", cal, args)
        if k == "UnaryOperator":
            if n["op"] == "!":
                v = self.ev(n["c"][0])
                if isinstance(v, (bool, int)):
                    return not v
                raise OutOfVocabulary("negation of a symbolic value")
            if n["op"] == "-":
                v = self.ev(n["c"][0])
                return [-as_poly(x) for x in v] if isinstance(v, list) else -as_poly(v)
            if n["op"] in ("++", "--"):
                lv = self.lval(n["c"][0])
                v = self.load(lv)
                if not isinstance(v, int):
                    raise OutOfVocabulary("++ on a non-index")
                self.store(lv, v + (1 if n["op"] == "++" else -1))
                return self.load(lv)
            raise OutOfVocabulary("unary " + n["op"])
        if k == "BinaryOperator":
            op = n["op"]
            if op == "=":
                v = self.ev(n["c"][1])
                self.store(self.lval(n["c"][0]), v)
                return v
            if op in ("||", "&&"):
                a = self.ev(n["c"][0])
                if not isinstance(a, (bool, int)):
                    raise OutOfVocabulary("symbolic operand of " + op)
                if (op == "||" and a) or (op == "&&" and not a):
                    return bool(a)
                b = self.ev(n["c"][1])
                if not isinstance(b, (bool, int)):
                    raise OutOfVocabulary("symbolic operand of " + op)
                return bool(b)
            a, b = self.ev(n["c"][0]), self.ev(n["c"][1])
            return self.arith(op, a, b, n)
        if k == "CompoundAssignOperator":
            lv = self.lval(n["c"][0])
            v = self.arith(n["op"][:-1], self.load(lv), self.ev(n["c"][1]), n)
            self.store(lv, v)
            return v
        if k == "CXXOperatorCallExpr":
            oop = n.get("oop")
            if oop == "[]":
                base = self.ev(n["c"][1])
                i = self.ev(n["c"][2])
                if isinstance(base, list) and isinstance(i, int) and 0 <= i < len(base):
                    return base[i]
                raise OutOfVocabulary("subscript " + show(n))
            if oop in ("+", "-", "*", "/") and len(n["c"]) == 3:
                return self.arith(oop, self.ev(n["c"][1]), self.ev(n["c"][2]), n)
            if oop == "-" and len(n["c"]) == 2:
                v = self.ev(n["c"][1])
                return [-as_poly(x) for x in v]
            if oop == "=":
                v = self.ev(n["c"][2])
                self.store(self.lval(n["c"][1]), v)
                return v
            if oop in ("*=", "/=", "+=", "-=") and len(n["c"]) == 3:
                lv = self.lval(n["c"][1])
                v = self.arith(oop[0], self.load(lv), self.ev(n["c"][2]), n)
                self.store(lv, v)
                return v
            if oop == "()":
                fn = self.ev(n["c"][1])
                if isinstance(fn, tuple) and fn[0] == "lambda" and len(n["c"]) == 2:
                    return self.call_lambda(fn[1])
                if isinstance(fn, tuple) and fn[0] == "member" and ("member:" + fn[1]) in self.acc:
                    return self.acc["member:" + fn[1]]([self.ev(c) for c in n["c"][2:]])
                raise OutOfVocabulary("call of " + show(n["c"][1]))
            raise OutOfVocabulary("operator" + str(oop))
        if k in ("CallExpr", "CXXMemberCallExpr"):
            cal = n.get("callee", "")
            if cal in self.acc:
                v = self.acc[cal]
                if callable(v):
                    return v([self.ev(c) for c in n["c"][1:]])
                return [list(r) if isinstance(r, list) else r for r in v] if isinstance(v, list) else v
            args = [self.ev(c) for c in n["c"][1:]]
            short = cal.split("::")[-1]
            if short == "make_array" and len(args) == 1:
                return list(args[0])
            if short == "ipow" and len(args) == 1 and n.get("targs"):
                r = Poly.const(1)
                for _ in range(int(n["targs"][0])):
                    r = r * as_poly(args[0])
                return r
            if short == "dot_product" and len(args) == 2:
                r = Poly()
                for x, y in zip(args[0], args[1]):
                    r = r + as_poly(x) * as_poly(y)
                return r
            if short == "gemv":
                return self.gemv(args, n)
            if short == "gemm":
                return self.gemm(args)
            if short == "range" and all(isinstance(a_, int) for a_ in args):
                return list(range(*args))
            if short == "to_int" and len(args) == 1 and isinstance(args[0], int):
                return args[0]
            raise OutOfVocabulary("call of " + cal)
        raise OutOfVocabulary("expression %s (%s)" % (show(n), k))

    def call_lambda(self, body):
        sub = Interp(self.f, self.acc)
        sub.env = dict(self.env)          # captures (by value is enough: no write-back is used)
        sub.steps = self.steps
        try:
            sub.run(body)
        except Return as r:
            self.steps = sub.steps
            return r.v
        self.steps = sub.steps
        return None

    def gemm(self, args):
        tr = False
        if len(args) == 3 and not isinstance(args[0], list) and "transpose" in repr(args[0]):
            tr, args = True, args[1:]
        if len(args) != 2:
            raise OutOfVocabulary("gemm with %d arguments" % len(args))
        a, b = args
        if tr:
            a = [[a[j][i] for j in range(len(a))] for i in range(len(a[0]))]
        out = []
        for i in range(len(a)):
            row = []
            for j in range(len(b[0])):
                s_ = Poly()
                for k_ in range(len(b)):
                    s_ = s_ + as_poly(a[i][k_]) * as_poly(b[k_][j])
                row.append(s_)
            out.append(row)
        return out

    def gemv(self, args, n):
        # gemv(a, x) | gemv(alpha, a, x, beta, y); the transposed forms are not needed here
        if len(args) == 2:
            alpha, a, x, beta, y = 1, args[0], args[1], 0, None
        elif len(args) == 5:
            alpha, a, x, beta, y = args
        else:
            raise OutOfVocabulary("gemv with %d arguments" % len(args))
        out = []
        for i, row in enumerate(a):
            s = Poly()
            for j, m in enumerate(row):
                s = s + as_poly(m) * as_poly(x[j])
            s = s * as_poly(alpha)
            if y is not None:
                s = s + as_poly(beta) * as_poly(y[i])
            out.append(s)
        return out

    def arith(self, op, a, b, n):
        if isinstance(a, int) and isinstance(b, int):
            return {"+": a + b, "-": a - b, "*": a * b, "<": a < b, ">": a > b, "<=": a <= b,
                    ">=": a >= b, "==": a == b, "!=": a != b}.get(op) if op != "/" else Fraction(a, b)
        if op in ("<", ">", "<=", ">=", "==", "!="):
            hook = self.acc.get("assume")
            if hook is not None:
                r = hook(op, a, b, n)
                if r is not None:
                    return r
            raise OutOfVocabulary("comparison of symbolic values " + show(n))
        va, vb = isinstance(a, list), isinstance(b, list)
        if va and vb and op in ("+", "-"):
            return [as_poly(x) + as_poly(y) if op == "+" else as_poly(x) - as_poly(y) for x, y in zip(a, b)]
        if va and not vb and op in ("+", "-"):
            return [as_poly(x) + as_poly(b) if op == "+" else as_poly(x) - as_poly(b) for x in a]
        if va and not vb and op in ("*", "/"):
            return [as_poly(x) * as_poly(b) if op == "*" else as_poly(x).div(b) for x in a]
        if vb and not va and op == "*":
            return [as_poly(a) * as_poly(y) for y in b]
        if not va and not vb:
            a, b = as_poly(a), as_poly(b)
            if op == "+":
                return a + b
            if op == "-":
                return a - b
            if op == "*":
                return a * b
            if op == "/":
                return a.div(b)
        raise OutOfVocabulary("operator %s in %s" % (op, show(n)))

    # --------------------------------------------------------------- statements
    def run(self, st):
        self.tick()
        if st is None:
            return
        k = st["k"]
        if k == "CompoundStmt":
            for c in st["c"]:
                self.run(c)
        elif k == "DeclStmt":
            for vd in st["c"]:
                init = vd["c"][0] if vd["c"] else None
                v = self.ev(init) if init is not None else None
                if isinstance(v, list):
                    v = [list(r) if isinstance(r, list) else r for r in v]
                if v is None or (isinstance(v, list) and not v) or \
                        (isinstance(v, tuple) and v and v[0] == "construct" and not v[2]):
                    z = zeros_of(vd.get("ty", ""))
                    if z is not None:
                        v = z
                self.env[vd["name"]] = v
        elif k == "ReturnStmt":
            raise Return(self.ev(st["c"][0]) if st["c"] else None)
        elif k == "ForStmt":
            init, _cv, cond, inc, body = st["c"]
            if init is not None:
                self.run(init) if init["k"] == "DeclStmt" else self.ev(init)
            n = 0
            while cond is None or self.ev(cond):
                self.run(body)
                if inc is not None:
                    self.ev(inc)
                n += 1
                if n > 64:
                    raise OutOfVocabulary("loop with more than 64 iterations")
        elif k == "CXXForRangeStmt":
            kids = st["c"]
            seq = self.ev(kids[1]["c"][0]["c"][0])
            if not isinstance(seq, list):
                raise OutOfVocabulary("range-for over " + show(kids[1]["c"][0]["c"][0]))
            name = kids[6]["c"][0]["name"]
            for item in seq:
                self.env[name] = item
                self.run(kids[7])
        elif k in ("NullStmt",):
            pass
        elif k == "DoStmt":
            # CELER_* macros: do { if (false && ...) {} } while (0)
            pass
        elif k == "IfStmt":
            kids = [c for c in st["c"] if c is not None]
            c = self.ev(kids[0])
            if not isinstance(c, (int, bool)):
                raise OutOfVocabulary("symbolic branch " + show(kids[0]))
            if c:
                self.run(kids[1])
            elif len(kids) > 2:
                self.run(kids[2])
        else:
            self.ev(st)


def zeros_of(ty):
    import re
    t = ty.replace("const ", "").replace("celeritas::", "")
    t = {"SquareMatrixReal3": "Array<Array<double, 3>, 3>", "Real3": "Array<double, 3>",
         "SquareMatrix<double, 3>": "Array<Array<double, 3>, 3>",
         "Transformation::Mat3": "Array<Array<double, 3>, 3>", "Mat3": "Array<Array<double, 3>, 3>"}.get(t, t)
    m = re.match(r"^Array<Array<double, (\d+)>, (\d+)>$", t)
    if m:
        return [[Poly() for _ in range(int(m.group(1)))] for _ in range(int(m.group(2)))]
    m = re.match(r"^Array<double, (\d+)>$", t)
    if m:
        return [Poly() for _ in range(int(m.group(1)))]
    return None


def interpret(func, accessors):
    it = Interp(func, accessors)
    try:
        it.run(func.r["ast"])
    except Return as r:
        return r.v
    return None


# ---------------------------------------------------------------------------------------------
# Additions for C12.7-ray-consistency (additive: nothing above changes behaviour).
#   * polynomial calculus helpers: substitution, derivative, coefficients in one symbol, degree,
#     reduction modulo a relation  lead^2 -> rhs  (normal form for one relation such as |d|^2 = 1);
#   * Quot: the value of a division by a non-monomial (planes: distance = num / den);
#   * FieldInterp: members of `this` are opaque symbols (scalars) or vectors of symbols
#     (Array<double, N>), objects built by a constructor can be "called" through a
#     "call:<ctor>" hook, division by a sum yields a Quot instead of leaving the vocabulary;
#   * fork_paths: run a body once per truth assignment of its symbolic comparisons.
# ---------------------------------------------------------------------------------------------
def poly_subs(p, mapping):
    """p with every symbol s in `mapping` replaced by the polynomial mapping[s]."""
    p = as_poly(p)
    out = Poly()
    for mono, c in p.t.items():
        term = Poly.const(c)
        for s, pw in mono:
            if s in mapping:
                if pw < 0:
                    raise OutOfVocabulary("substitution into a negative power of " + s)
                base = as_poly(mapping[s])
                for _ in range(pw):
                    term = term * base
            else:
                term = term * Poly({((s, pw),): Fraction(1)})
        out = out + term
    return out


def poly_diff(p, sym):
    p = as_poly(p)
    out = {}
    for mono, c in p.t.items():
        d = dict(mono)
        pw = d.get(sym, 0)
        if pw == 0:
            continue
        d[sym] = pw - 1
        k = tuple(sorted((s_, p_) for s_, p_ in d.items() if p_ != 0))
        out[k] = out.get(k, 0) + c * pw
    return Poly(out)


def poly_coeffs(p, sym):
    """{power: coefficient polynomial} of p seen as a polynomial in `sym`."""
    p = as_poly(p)
    out = {}
    for mono, c in p.t.items():
        d = dict(mono)
        pw = d.pop(sym, 0)
        k = tuple(sorted(d.items()))
        out.setdefault(pw, {})
        out[pw][k] = out[pw].get(k, 0) + c
    return {pw: Poly(t) for pw, t in out.items()}


def poly_degree(p, syms):
    """Total degree of p in the given symbols (0 for the zero polynomial)."""
    p = as_poly(p)
    deg = 0
    for mono in p.t:
        deg = max(deg, sum(pw for s, pw in mono if s in syms))
    return deg


def poly_symbols(p):
    return set(s for mono in as_poly(p).t for s, _pw in mono)


def poly_reduce(p, lead, rhs):
    """Normal form of p modulo the single relation lead^2 = rhs (rhs free of `lead`): every
    power lead^(2k+r) becomes rhs^k * lead^r.  Two polynomials are congruent modulo the relation
    iff their normal forms are equal (the relation is monic in lead^2)."""
    p = as_poly(p)
    rhs = as_poly(rhs)
    if lead in poly_symbols(rhs):
        raise OutOfVocabulary("relation is not a rewrite rule for " + lead)
    out = Poly()
    for mono, c in p.t.items():
        d = dict(mono)
        pw = d.pop(lead, 0)
        if pw < 0:
            raise OutOfVocabulary("negative power of " + lead)
        term = Poly({tuple(sorted(d.items())): c})
        if pw % 2:
            term = term * Poly.sym(lead)
        for _ in range(pw // 2):
            term = term * rhs
        out = out + term
    return out


class Quot(object):
    """num / den for a denominator that is not a single monomial."""

    def __init__(self, num, den):
        self.num, self.den = as_poly(num), as_poly(den)

    def __repr__(self):
        return "(%r) / (%r)" % (self.num, self.den)


class FieldInterp(Interp):
    """Interp + data members of `this` as symbols.  `fields` collects the symbols created:
    field name -> Poly (scalar member) or list of Poly (Array<double, N> member)."""

    SCALARS = ("double", "float", "real_type", "celeritas::real_type")

    BUILTIN = ("make_array", "ipow", "dot_product", "gemv", "gemm", "range", "to_int")
    MAX_DEPTH = 4

    def __init__(self, func, accessors, fields=None, lookup=None, depth=0):
        """lookup(qualified callee name, number of arguments, is_method) -> function record with an
        expression tree (or None): lets a body call other const methods of the same object
        (`this->f(args)` / `f(args)`) and free helper functions; the callee's body is interpreted
        with the same member symbols.  Recursion depth is bounded."""
        Interp.__init__(self, func, accessors)
        self.fields = fields if fields is not None else {}
        self.lookup = lookup
        self.depth = depth

    def call_function(self, n):
        """Value of a call whose callee is neither an accessor hook nor a builtin, obtained by
        interpreting the callee's body; None if this route does not apply."""
        if self.lookup is None:
            return None
        cal = n.get("callee", "")
        if not cal or cal in self.acc or cal.split("::")[-1] in self.BUILTIN:
            return None
        is_method = n["k"] == "CXXMemberCallExpr"
        if is_method:
            callee = strip(n["c"][0], also=TRANSPARENT_EXTRA)
            recv = strip(callee["c"][0], also=TRANSPARENT_EXTRA) if callee is not None and callee["k"] == "MemberExpr" \
                and callee["c"] else None
            if recv is None or recv["k"] != "CXXThisExpr":
                return None                  # a method of another object
        g = self.lookup(cal, len(n["c"]) - 1, is_method)
        if g is None:
            return None
        if self.depth >= self.MAX_DEPTH:
            raise OutOfVocabulary("calls nested deeper than %d at %s" % (self.MAX_DEPTH, cal))
        ret = g.r.get("ret", "").replace("const ", "").replace("celeritas::", "").replace("&", "").strip()
        if ret not in ("double", "float", "real_type", "Real3", "Array<double, 3>", "int", "bool"):
            raise OutOfVocabulary("call of %s returning %s" % (cal, g.r.get("ret")))
        if is_method and not g.r.get("const") and not g.r.get("static"):
            raise OutOfVocabulary("call of the non-const method " + cal)
        args = [self.ev(c) for c in n["c"][1:]]
        params = g.r.get("params", [])
        if len(params) != len(args):
            raise OutOfVocabulary("call of %s with %d arguments" % (cal, len(args)))
        sub = FieldInterp(g, self.acc, self.fields, self.lookup, self.depth + 1)
        for prm, v in zip(params, args):
            if isinstance(v, tuple):
                raise OutOfVocabulary("argument of %s outside the vocabulary: %r" % (cal, v))
            if prm["n"]:
                sub.env[prm["n"]] = list(v) if isinstance(v, list) else v
        sub.steps = self.steps
        try:
            sub.run(g.r["ast"])
            val = None
        except Return as r:
            val = r.v
        self.steps = sub.steps
        if val is None:
            raise OutOfVocabulary("call of %s returns nothing" % cal)
        return list(val) if isinstance(val, list) else val

    def field(self, n):
        import re
        name = n["name"]
        if name in self.fields:
            v = self.fields[name]
            return list(v) if isinstance(v, list) else v
        ty = n.get("ty", "").replace("const ", "").replace("celeritas::", "").strip()
        if ty in ("double", "float", "real_type"):
            v = Poly.sym(name)
        else:
            ty = {"Real3": "Array<double, 3>"}.get(ty, ty)
            m = re.match(r"^Array<(double|float), (\d+)>$", ty)
            if not m:
                raise OutOfVocabulary("data member %s of type %s" % (name, n.get("ty")))
            v = [Poly.sym("%s[%d]" % (name, i)) for i in range(int(m.group(2)))]
        self.fields[name] = v
        return list(v) if isinstance(v, list) else v

    def ev(self, n):
        if n is not None:
            k = n["k"]
            if k == "MemberExpr" and "cval" not in n and n["c"]:
                base = strip(n["c"][0], also=TRANSPARENT_EXTRA)
                if base is not None and base["k"] == "CXXThisExpr":
                    self.tick()
                    return self.field(n)
            if k == "CXXOperatorCallExpr" and n.get("oop") == "()":
                fn = self.ev(n["c"][1])
                if isinstance(fn, tuple) and fn and fn[0] == "construct" and ("call:" + fn[1]) in self.acc:
                    return self.acc["call:" + fn[1]](fn[2], [self.ev(c) for c in n["c"][2:]], n)
            if k in ("CallExpr", "CXXMemberCallExpr") and "cval" not in n:
                v = self.call_function(n)
                if v is not None:
                    self.tick()
                    return v
        return Interp.ev(self, n)

    def lval(self, n):
        s = strip(n, also=TRANSPARENT_EXTRA)
        if s is not None and s["k"] == "MemberExpr":
            raise OutOfVocabulary("write to a data member: " + show(s))
        return Interp.lval(self, n)

    def arith(self, op, a, b, n):
        if op == "/" and not isinstance(a, list) and not isinstance(b, list) \
                and not (isinstance(a, int) and isinstance(b, int)) \
                and isinstance(b, Poly) and len(b.t) > 1:
            if isinstance(a, Quot):
                raise OutOfVocabulary("nested quotient " + show(n))
            return Quot(as_poly(a), b)
        if isinstance(a, Quot) or isinstance(b, Quot):
            if op in ("<", ">", "<=", ">=", "==", "!="):
                hook = self.acc.get("assume")
                if hook is not None:
                    r = hook(op, a, b, n)
                    if r is not None:
                        return r
            raise OutOfVocabulary("arithmetic on a quotient: " + show(n))
        return Interp.arith(self, op, a, b, n)


def fork_paths(make_interp, body, max_paths=64):
    """Run `body` once per truth assignment of the comparisons between symbolic values that the
    run meets.  make_interp(hook) -> interpreter whose accessor table routes "assume" to `hook`.
    Yields (decisions, value): decisions = [(taken, op, lhs, rhs, loc)], value = returned value."""
    out = []
    stack = [[]]
    while stack:
        prefix = stack.pop()
        taken = []

        def hook(op, a, b, n, prefix=prefix, taken=taken):
            i = len(taken)
            if i < len(prefix):
                d = prefix[i]
            else:
                d = False
                stack.append([t[0] for t in taken] + [True])
            taken.append((d, op, a, b, n.get("loc", "")))
            return d
        it = make_interp(hook)
        try:
            it.run(body)
            val = None
        except Return as r:
            val = r.v
        out.append((taken, val))
        if len(out) > max_paths:
            raise OutOfVocabulary("more than %d paths" % max_paths)
    return out
