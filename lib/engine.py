"""Check driver: runs a property's rule module, applies the verdict protocol,
writes evidence and replay files."""
import importlib
import json
import os
import re
import sys
import time
import traceback

HERE = os.path.dirname(os.path.abspath(__file__))
VERIF = os.path.dirname(HERE)
sys.path.insert(0, HERE)
sys.path.insert(0, os.path.join(VERIF, "rules"))

import facts  # noqa: E402
from facts import AnalysisBroken  # noqa: E402


class Ctx:
    def __init__(self, pid, tier):
        self.pid = pid
        self.tier = tier
        self.obs = []          # obligations
        self.notes = []
        self.assumptions = []
        self.analysed = {}     # free-form counters
        self.samples = []

    # an obligation = one rule instance evaluated on the current tree
    def ob(self, rule, instance, ok, detail="", where="", path=None, why=""):
        self.obs.append({"rule": rule, "instance": instance, "ok": bool(ok),
                         "detail": detail, "where": where,
                         "path": path or [], "why": why})
        return bool(ok)

    def require(self, cond, msg):
        """Anchor check: failure means the analysis is broken, not a verdict."""
        if not cond:
            raise AnalysisBroken(msg)

    def floor(self, what, count, minimum):
        self.analysed[what] = count
        if count < minimum:
            # deferred: a definite violation found elsewhere takes precedence over "fewer
            # instances than confirmed by hand"; with no violation the run is analysis-broken
            if not hasattr(self, "floor_failures"):
                self.floor_failures = []
            self.floor_failures.append("instance floor: %s = %d < %d (confirmed by hand)"
                                       % (what, count, minimum))

    def count(self, what, n):
        self.analysed[what] = n

    def assume(self, text):
        if text not in self.assumptions:
            self.assumptions.append(text)

    def sample(self, s):
        if len(self.samples) < 40:
            self.samples.append(s)


def load_known():
    p = os.path.join(VERIF, "known_findings.json")
    if not os.path.exists(p):
        return []
    with open(p) as f:
        d = json.load(f)
    return d.get("findings", [])


def is_known(pid, ob, known):
    for k in known:
        if k.get("property") != pid:
            continue
        if k.get("rule") and k["rule"] != ob["rule"]:
            continue
        if re.search(k["instance"], ob["instance"]):
            return k
    return None


def write_evidence(pid, tier, level, cx, wall, violations, db_info, mod, extra=None):
    evdir = os.environ.get("VERIF_EVIDENCE_DIR", os.path.join(VERIF, "evidence"))
    os.makedirs(evdir, exist_ok=True)
    nob = len(cx.obs)
    nok = sum(1 for o in cx.obs if o["ok"])
    rules = sorted(set(o["rule"] for o in cx.obs))
    samples = list(cx.samples)
    for o in cx.obs[:12]:
        samples.append({"rule": o["rule"], "instance": o["instance"],
                        "verdict": "holds" if o["ok"] else "FAILS",
                        "where": o["where"], "detail": o["detail"][:300]})
    cov = {
        "explanation": getattr(mod, "EXPLANATION", "") or
        "static rule instances evaluated on the current /repo tree",
        "obligations": nob,
        "discharged": nok,
        "rules": rules,
        "rule_instances": {r: sum(1 for o in cx.obs if o["rule"] == r) for r in rules},
        "analysed": dict(cx.analysed, **db_info),
        "samples": samples,
        "checker_cmd": "bin/check %s --tier %s" % (pid, tier),
        "trusted_base": ["clang 14 parser/Sema/CFG", "tool/celerfacts.cc",
                         "lib/*.py, rules/%s.py" % pid, "python3 integers"],
        "not_decided": getattr(mod, "NOT_DECIDED", ""),
        "obligation_list": [{"rule": o["rule"], "instance": o["instance"][:160],
                             "where": o["where"], "holds": o["ok"]} for o in cx.obs[:600]],
        "units": sorted(getattr(cx, "units", []))[:60],
    }
    if extra:
        cov.update(extra)
    ev = {
        "property_id": pid,
        "tier": tier,
        "seed": int(os.environ.get("VERIF_SEED", "0") or 0),
        "level": level,
        "coverage": cov,
        "assumptions": cx.assumptions + [
            "analysed configuration = built configuration (CPU, ORANGE, XORWOW, double, "
            "CELERITAS_DEBUG=0, OpenMP event-level); code under other #if branches, "
            "src/accel and ext/ units are not seen",
            "only the named structural clauses are decided, not the numerical behaviour",
        ],
        "wall_s": round(wall, 3),
        "violations": violations,
    }
    p = os.path.join(evdir, pid + ".json")
    with open(p + ".tmp", "w") as f:
        json.dump(ev, f, indent=1)
    os.replace(p + ".tmp", p)


def main(argv):
    import argparse
    ap = argparse.ArgumentParser()
    ap.add_argument("pid")
    ap.add_argument("--tier", default=os.environ.get("VERIF_TIER", "quick"))
    ap.add_argument("--replay", default=None)
    ap.add_argument("-v", action="store_true")
    a = ap.parse_args(argv)
    pid, tier = a.pid, a.tier
    if tier not in ("quick", "thorough"):
        tier = "quick"
    t0 = time.time()
    mod = importlib.import_module(pid)
    level = getattr(mod, "LEVEL", "other")
    cx = Ctx(pid, tier)
    db_info = {}
    try:
        units = None
        if hasattr(mod, "UNITS"):
            if tier == "thorough" and getattr(mod, "WHOLE_PROGRAM_THOROUGH", True):
                units = facts.all_units()
            else:
                units = [os.path.join(facts.REPO, u) for u in mod.UNITS]
        db = None
        if units is not None:
            import astfuncs
            wit = {os.path.join(VERIF, w): os.path.join(facts.REPO, like)
                   for w, like in getattr(mod, "WITNESS", {}).items()}
            db = facts.extract(units, astfuncs.regex(), wit)
            cx.units = [u.replace(facts.REPO + "/", "") for u in db.units] if len(db.units) <= 60 \
                else ["(all %d units of the compile database)" % len(db.units)]
            db_info = {"units_parsed": len(db.units), "functions": db.nfuncs,
                       "records": len(db.records), "compile_db": db.route,
                       "tree_hash": facts.tree_hash(),
                       "fact_cache_hit": db.cached}
            if db.unit_errors:
                raise AnalysisBroken("units failed to parse: %s" % db.unit_errors)
        mod.run(db, cx)
        if not cx.obs:
            raise AnalysisBroken("no rule instance was evaluated")
    except AnalysisBroken as e:
        print("ANALYSIS-BROKEN property=%s: %s" % (pid, e))
        return 2
    except Exception:
        traceback.print_exc()
        print("ANALYSIS-BROKEN property=%s: internal error in the checker" % pid)
        return 2

    known = load_known()
    failed = [o for o in cx.obs if not o["ok"]]
    if a.replay:
        with open(a.replay) as f:
            want = json.load(f)
        failed = [o for o in failed if o["rule"] == want["rule"]
                  and o["instance"] == want["instance"]]
    new = []
    known_hits = []
    for o in failed:
        k = is_known(pid, o, known)
        if k:
            known_hits.append({"rule": o["rule"], "instance": o["instance"], "where": o["where"],
                               "finding": k["what"][:400]})
            print("KNOWN-FINDING: property=%s %s [%s %s]" % (pid, k["what"], o["rule"],
                                                             o["instance"]))
        else:
            new.append(o)
    floors = getattr(cx, "floor_failures", [])
    if floors and not new:
        print("ANALYSIS-BROKEN property=%s: %s" % (pid, "; ".join(floors)))
        return 2
    for fl in floors:
        print("note: %s (reported together with the violation(s) below)" % fl)
    outdir = os.path.join(os.environ.get("VERIF_OUT_DIR", os.path.join(VERIF, "out")), pid)
    os.makedirs(outdir, exist_ok=True)
    rc = 0
    for n, o in enumerate(new):
        rp = os.path.join(outdir, "%s-%d.json" % (re.sub(r"[^A-Za-z0-9_.]", "_", o["rule"]), n))
        with open(rp, "w") as f:
            json.dump(dict(o, property=pid, tier=tier), f, indent=1)
        print("%s: rule %s instance %s FAILS at %s: %s" % (pid, o["rule"], o["instance"],
                                                           o["where"], o["detail"]))
        if o["path"]:
            print("   path: " + " -> ".join(o["path"]))
        if o["why"]:
            print("   why: " + o["why"])
        print("VIOLATION property=%s replay=%s" % (pid, rp))
        rc = 1
    wall = time.time() - t0
    extra = getattr(mod, "evidence_extra", lambda cx: None)(cx) or {}
    if known_hits:
        extra = dict(extra, known_findings=known_hits)
    if not a.replay:       # a replay re-evaluates one instance; the evidence of the full run stays
        write_evidence(pid, tier, level, cx, wall, len(new), db_info, mod, extra)
    nob = len(cx.obs)
    print("%s [%s] %d obligations, %d hold, %d known findings, %d violations; "
          "%s; %.1fs" % (pid, tier, nob, nob - len(failed), len(failed) - len(new), len(new),
                         ", ".join("%s=%s" % kv for kv in sorted(db_info.items())
                                   if kv[0] in ("units_parsed", "functions")),
                         wall))
    if a.v:
        for o in cx.obs:
            print("  [%s] %s %s %s" % ("ok" if o["ok"] else "FAIL", o["rule"], o["instance"],
                                       o["where"]))
    return rc


if __name__ == "__main__":
    sys.exit(main(sys.argv[1:]))
