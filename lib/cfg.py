"""CFG queries over the per-function block/event records written by celerfacts.

A *position* is (block_id, event_index).  All analyses are path-insensitive
except that edges clang proved constant-false are already absent (successor
is None) and that a query may name one branch edge explicitly.
"""


class Func:
    def __init__(self, rec):
        self.r = rec
        self.name = rec["name"]
        self.inst = rec.get("inst", rec["name"])
        self.sig = rec.get("sig", "")
        self.node = self.inst + self.sig
        self.loc = rec["loc"]
        self.blocks = {b["id"]: b for b in rec["blocks"]}
        for b in rec["blocks"]:
            c = b.get("cond")
            if c is not None and "erefs" in c and "allrefs" not in c:
                # short-circuit condition: this block is decided by its right-most operand
                c["allrefs"], c["allcalls"] = c["refs"], c["calls"]
                c["refs"], c["calls"] = c["erefs"], c["ecalls"]
        self.entry = rec.get("entry")
        self.exit = rec.get("exit")
        self._preds = None
        self._dom = None
        self._live = None

    def __repr__(self):
        return "<Func %s @%s>" % (self.inst, self.loc)

    # ---------------------------------------------------------------- basics
    def succ(self, b):
        return [s for s in self.blocks[b]["succ"] if s is not None]

    def preds(self, b):
        if self._preds is None:
            p = {k: [] for k in self.blocks}
            for k in self.blocks:
                for s in self.succ(k):
                    p[s].append(k)
            self._preds = p
        return self._preds[b]

    def live_blocks(self):
        if self._live is None:
            self._live = self.reach([self.entry]) if self.entry in self.blocks else set(self.blocks)
        return self._live

    def events(self, kind=None, pred=None, dead=False):
        """Yield (block_id, index, event) of blocks reachable from the entry
        (blocks behind constant-false edges are dead code of this
        instantiation and are skipped unless dead=True)."""
        live = self.live_blocks()
        for bid, b in self.blocks.items():
            if not dead and bid not in live:
                continue
            for i, ev in enumerate(b["ev"]):
                if kind is not None and ev["e"] != kind:
                    continue
                if pred is not None and not pred(ev):
                    continue
                yield bid, i, ev

    def calls(self, callee=None):
        for bid, i, ev in self.events("call"):
            if callee is None or ev["callee"] == callee or (
                    not isinstance(callee, str) and ev["callee"] in callee):
                yield bid, i, ev

    def has_call(self, callee):
        return any(True for _ in self.calls(callee))

    def is_exceptional(self, b):
        """Block that ends by throwing / calling a noreturn function."""
        blk = self.blocks[b]
        if blk.get("noreturn"):
            return True
        return any(ev["e"] == "throw" for ev in blk["ev"])

    # ---------------------------------------------------------- reachability
    def reach(self, start_blocks, blocked_edges=(), blocked_blocks=()):
        """Blocks reachable from start_blocks (inclusive)."""
        seen = set()
        work = [b for b in start_blocks if b not in blocked_blocks]
        be = set(blocked_edges)
        while work:
            b = work.pop()
            if b in seen:
                continue
            seen.add(b)
            for s in self.succ(b):
                if (b, s) in be or s in blocked_blocks:
                    continue
                if s not in seen:
                    work.append(s)
        return seen

    def edge_reach(self, b, succ_index, **kw):
        s = self.blocks[b]["succ"]
        if succ_index >= len(s) or s[succ_index] is None:
            return set()
        return self.reach([s[succ_index]], **kw)

    # ------------------------------------------------------------ dominators
    def dominators(self):
        if self._dom is not None:
            return self._dom
        nodes = self.reach([self.entry])
        dom = {n: set(nodes) for n in nodes}
        dom[self.entry] = {self.entry}
        changed = True
        while changed:
            changed = False
            for n in nodes:
                if n == self.entry:
                    continue
                ps = [p for p in self.preds(n) if p in nodes]
                if not ps:
                    continue
                new = set.intersection(*[dom[p] for p in ps]) | {n}
                if new != dom[n]:
                    dom[n] = new
                    changed = True
        self._dom = dom
        return dom

    def dominates(self, a, b):
        """position a dominates position b"""
        (ba, ia), (bb, ib) = a, b
        if ba == bb:
            return ia <= ib
        d = self.dominators()
        return bb in d and ba in d[bb]

    # -------------------------------------------------------------- must-pass
    def must_pass(self, pred, start=None, unless=None, exits="normal"):
        """Every path from `start` (position; default function entry) to a
        normal exit contains an event satisfying pred, except paths that pass
        an event satisfying `unless` or end exceptionally.

        Returns (True, None) or (False, path) where path is a list of block
        ids of an offending path."""
        def blk_has(b, p, frm=0):
            for i, ev in enumerate(self.blocks[b]["ev"]):
                if i >= frm and p(ev):
                    return True
            return False

        if start is None:
            sb, si = self.entry, 0
        else:
            sb, si = start[0], start[1] + 1
        # DFS avoiding blocks that satisfy pred / unless
        def stops(b, frm=0):
            if blk_has(b, pred, frm):
                return True
            if unless is not None and blk_has(b, unless, frm):
                return True
            if self.is_exceptional(b):
                return True
            return False

        if stops(sb, si):
            return True, None
        parent = {sb: None}
        work = [sb]
        while work:
            b = work.pop()
            if b == self.exit:
                path = []
                cur = b
                while cur is not None:
                    path.append(cur)
                    cur = parent[cur]
                return False, list(reversed(path))
            for s in self.succ(b):
                if s in parent:
                    continue
                if s != self.exit and stops(s):
                    continue
                parent[s] = b
                work.append(s)
        return True, None

    def normal_paths_pass_block(self, block):
        """Every path entry -> normal exit goes through `block` (paths ending
        in a throw / noreturn call are ignored)."""
        exc = [b for b in self.blocks if self.is_exceptional(b)]
        r = self.reach([self.entry], blocked_blocks=[block] + exc)
        return self.exit not in r

    def path_locs(self, path):
        out = []
        for b in path or []:
            blk = self.blocks[b]
            if blk["ev"]:
                out.append(blk["ev"][0].get("loc", "?"))
            elif "tloc" in blk:
                out.append(blk["tloc"])
        return out

    # --------------------------------------------------- branch-edge guarding
    def branch_blocks(self, cond_pred):
        """Blocks with a two-way terminator whose condition satisfies pred."""
        out = []
        for bid, b in self.blocks.items():
            c = b.get("cond")
            if c is None or len(b["succ"]) != 2:
                continue
            if cond_pred(c, b):
                out.append(bid)
        return out

    def guarded_by_edge(self, pos, branch, succ_index):
        """True if every entry->pos path uses edge (branch -> succ[succ_index])."""
        s = self.blocks[branch]["succ"]
        if succ_index >= len(s) or s[succ_index] is None:
            return False
        tgt = s[succ_index]
        other = [x for i, x in enumerate(s) if i != succ_index and x is not None]
        if tgt in other:
            return False
        r = self.reach([self.entry], blocked_edges=[(branch, tgt)])
        return pos[0] not in r or (pos[0] == branch and False)

    def cond_polarity_edge(self, branch, want_true):
        """Successor index taken when the *core* condition (after stripping
        negations) has truth value want_true."""
        c = self.blocks[branch]["cond"]
        neg = c.get("neg", 0)
        # clang: succ[0] = condition true, succ[1] = condition false
        truth = want_true if not neg else (not want_true)
        return 0 if truth else 1

    # ---------------------------------------------------- reaching definitions
    def reaching_defs(self, var, pos):
        """Definitions (events with e=='def' and var==var, or writes whose
        path root is l:var/p:var) that may reach position pos."""
        def is_def(ev):
            if ev["e"] == "def" and ev.get("var") == var:
                return True
            if ev["e"] == "write":
                r = ev.get("path", {}).get("root", "")
                if r in ("l:" + var, "p:" + var):
                    return True
            return False

        out = []
        seen = set()
        # walk backwards
        def scan_block(b, upto):
            evs = self.blocks[b]["ev"]
            for i in range(min(upto, len(evs)) - 1, -1, -1):
                if is_def(evs[i]):
                    return (b, i, evs[i])
            return None

        work = [(pos[0], pos[1])]
        first = True
        while work:
            b, upto = work.pop()
            if not first and b in seen:
                continue
            if not first:
                seen.add(b)
            first = False
            d = scan_block(b, upto)
            if d is not None and d[2].get("kind") not in ("compound", "incdec"):
                out.append(d)
                continue
            if d is not None:
                out.append(d)
                # compound: keep looking further back too
                work.append((b, d[1]))
                continue
            for p in self.preds(b):
                if p not in seen:
                    work.append((p, 10 ** 9))
        # unique
        uniq = {}
        for d in out:
            uniq[(d[0], d[1])] = d
        return list(uniq.values())

    def writes(self, leaf=None):
        """Yield (bid, i, ev) for write events; leaf = last f:/m: element."""
        for bid, i, ev in self.events("write"):
            if leaf is None or path_leaf(ev.get("path")) == leaf:
                yield bid, i, ev


def path_leaf(p):
    if not p:
        return None
    for x in reversed(p["chain"]):
        if x.startswith("f:") or x.startswith("m:"):
            return x[2:]
    return None


def path_fields(p):
    if not p:
        return []
    return [x[2:] for x in p["chain"] if x.startswith("f:") or x.startswith("m:")]


class UnknownAtom(Exception):
    pass


def follow(f, start_block, truth, targets, limit=200):
    """Deterministically walk the CFG from start_block, deciding every two-way
    branch with truth(cond) -> True/False for the *core* condition (after
    stripping negations); returns the first block of `targets` reached, or
    None when the exit is reached.  Raises UnknownAtom when a branch cannot be
    decided."""
    b = start_block
    for _ in range(limit):
        if b in targets:
            return b
        if b == f.exit:
            return None
        blk = f.blocks[b]
        succ = blk["succ"]
        live = [s for s in succ if s is not None]
        if len(live) == 0:
            return None
        if len(live) == 1:
            b = live[0]       # unconditional, or the other edge is constant-false
            continue
        c = blk.get("cond")
        if c is None or len(succ) != 2:
            raise UnknownAtom("multi-way branch without condition at %s" % blk.get("tloc"))
        t = truth(c)
        if t is None:
            raise UnknownAtom("condition `%s` at %s" % (c.get("t"), blk.get("tloc")))
        if c.get("neg"):
            t = not t
        nxt = succ[0] if t else succ[1]
        if nxt is None:
            raise UnknownAtom("branch into a pruned edge at %s" % blk.get("tloc"))
        b = nxt
    raise UnknownAtom("walk did not terminate")


def loops_of(f):
    """Natural loops: [(header block, set of blocks)] from back edges u -> h with h dominating u."""
    dom = f.dominators()
    out = {}
    for u in dom:
        for h in f.succ(u):
            if h in dom.get(u, ()):
                body = {h, u}
                work = [u]
                while work:
                    x = work.pop()
                    if x == h:
                        continue
                    for p in f.preds(x):
                        if p not in body and p in dom:
                            body.add(p)
                            work.append(p)
                out.setdefault(h, set()).update(body)
    return sorted(out.items())


def stale_across_iterations(f):
    """[(var, use event, def event)]: a local declared outside a loop is re-assigned inside it,
    and some use inside the loop can be reached from the loop header in one iteration without
    passing any definition of the variable - the value of a previous iteration leaks in.
    Variables whose in-loop definitions read the variable itself (accumulators, flags) are
    intended to be loop-carried and are skipped."""
    out = []
    for h, body in loops_of(f):
        defs = {}
        for b in body:
            for i, ev in enumerate(f.blocks[b]["ev"]):
                if ev["e"] == "def" and ev.get("var") and ev.get("kind") != "decl":
                    defs.setdefault(ev["var"], []).append((b, i, ev))
        for v, ds in defs.items():
            if v.startswith("__"):
                continue
            decl_out = [(b, i) for (b, i, e) in f.events("def")
                        if e.get("var") == v and e.get("kind") == "decl" and b not in body]
            if not decl_out:
                continue
            if any(v in d.get("refs", []) or d.get("kind") in ("compound", "incdec") or
                   d.get("rhs") in ("true", "false") for (_b, _i, d) in ds):
                continue
            # walk from the header within the body; stop at definitions of v
            seen = set()
            work = [(h, 0)]
            while work:
                b, i0 = work.pop()
                evs = f.blocks[b]["ev"]
                killed = False
                for k in range(i0, len(evs)):
                    e = evs[k]
                    if e["e"] == "def" and e.get("var") == v:
                        killed = True
                        break
                    uses = []
                    if e["e"] == "call":
                        for a in e.get("args", []):
                            if v in a.get("refs", []):
                                uses.append(a)
                        rp = e.get("recv", {}).get("path") or {}
                        if rp.get("root") == "l:" + v and e.get("constm", True):
                            uses.append(e)
                    elif e["e"] in ("write", "return") and v in e.get("refs", []):
                        uses.append(e)
                    if uses:
                        out.append((v, e, ds[0][2]))
                        killed = True
                        break
                if killed:
                    continue
                for sx in f.succ(b):
                    if sx in body and sx != h and sx not in seen:
                        seen.add(sx)
                        work.append((sx, 0))
    return out
