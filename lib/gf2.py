"""Exact arithmetic over GF(2): polynomials as Python ints (bit i = coeff of z^i),
linear maps on n-bit vectors as lists of row masks."""


def deg(p):
    return p.bit_length() - 1


def pmod(a, m):
    dm = deg(m)
    while a.bit_length() - 1 >= dm and a:
        a ^= m << (a.bit_length() - 1 - dm)
    return a


def pmul(a, b):
    r = 0
    while b:
        if b & 1:
            r ^= a
        a <<= 1
        b >>= 1
    return r


def pmulmod(a, b, m):
    return pmod(pmul(a, b), m)


def ppowmod(a, e, m):
    r = 1
    a = pmod(a, m)
    while e:
        if e & 1:
            r = pmulmod(r, a, m)
        a = pmulmod(a, a, m)
        e >>= 1
    return r


def parity(x):
    return bin(x).count("1") & 1


def apply(rows, x):
    """rows[i] = mask of input bits XORed into output bit i."""
    y = 0
    for i, r in enumerate(rows):
        if parity(r & x):
            y |= 1 << i
    return y


def compose(a, b):
    """(a o b): apply b then a.  rows as masks over the *input* of b."""
    out = []
    for r in a:
        acc = 0
        i = 0
        rr = r
        while rr:
            if rr & 1:
                acc ^= b[i]
            rr >>= 1
            i += 1
        out.append(acc)
    return out


def identity(n):
    return [1 << i for i in range(n)]


def rank(rows, n):
    rows = list(rows)
    rk = 0
    for bit in range(n):
        piv = None
        for i in range(rk, len(rows)):
            if (rows[i] >> bit) & 1:
                piv = i
                break
        if piv is None:
            continue
        rows[rk], rows[piv] = rows[piv], rows[rk]
        for i in range(len(rows)):
            if i != rk and (rows[i] >> bit) & 1:
                rows[i] ^= rows[rk]
        rk += 1
    return rk


def berlekamp_massey(seq):
    """Minimal LFSR of a bit sequence; returns connection polynomial C
    (int, bit i = c_i, c_0 = 1) and length L."""
    n = len(seq)
    c, b = 1, 1
    L, m = 0, -1
    for i in range(n):
        d = seq[i]
        for j in range(1, L + 1):
            if (c >> j) & 1:
                d ^= seq[i - j]
        if d:
            t = c
            c ^= b << (i - m)
            if 2 * L <= i:
                L = i + 1 - L
                m = i
                b = t
    return c, L


def min_poly(rows, n, tries=8):
    """Minimal polynomial of the linear map (monic, bit i = coeff of z^i) via
    Krylov sequences; the lcm over several projections."""
    best = 1
    import itertools
    for t in range(tries):
        v = (0x9E3779B97F4A7C15F39CC0605CEDC834 * (2 * t + 1)) & ((1 << n) - 1) | 1
        u = (0xD1B54A32D192ED03A0761D6478BD642F * (2 * t + 3)) & ((1 << n) - 1) | 1
        seq = []
        x = v
        for _ in range(2 * n + 2):
            seq.append(parity(u & x))
            x = apply(rows, x)
        c, L = berlekamp_massey(seq)
        # connection poly c(z) = 1 + c1 z + ... + cL z^L ; min poly = z^L c(1/z)
        p = 0
        for j in range(L + 1):
            if (c >> j) & 1:
                p |= 1 << (L - j)
        if deg(p) > deg(best):
            best = p
        if deg(best) == n:
            break
    return best


def poly_of_map_annihilates(rows, p, n, probes=4):
    """check p(T) v = 0 for a few probe vectors (sanity)"""
    for t in range(probes):
        v = (0xA0761D6478BD642F * (t + 1) * 0x100000001B3) & ((1 << n) - 1) | 1
        acc = 0
        x = v
        for i in range(deg(p) + 1):
            if (p >> i) & 1:
                acc ^= x
            x = apply(rows, x)
        if acc:
            return False
    return True


def is_probable_prime(n):
    if n < 2:
        return False
    small = [2, 3, 5, 7, 11, 13, 17, 19, 23, 29, 31, 37]
    for p in small:
        if n % p == 0:
            return n == p
    d, s = n - 1, 0
    while d % 2 == 0:
        d //= 2
        s += 1
    for a in small:
        x = pow(a, d, n)
        if x in (1, n - 1):
            continue
        for _ in range(s - 1):
            x = x * x % n
            if x == n - 1:
                break
        else:
            return False
    return True
