"""Fact base: compile database, extraction (cached by tree hash), merged view.

The deciding step of every check re-reads /repo's current sources: the cache
key is a hash over the *contents* of every file under /repo/src, /repo/app and
the generated headers, so any edit invalidates it and forces re-extraction.
"""
import hashlib
import json
import os
import re
import subprocess
import sys
import time
from concurrent.futures import ThreadPoolExecutor

VERIF = os.path.dirname(os.path.dirname(os.path.abspath(__file__)))
REPO = os.environ.get("VERIF_REPO", "/repo")
CACHE = os.path.join(VERIF, ".cache")
TOOL = os.path.join(CACHE, "bin", "celerfacts")
TOOL_SRC = os.path.join(VERIF, "tool", "celerfacts.cc")
NPROC = int(os.environ.get("VERIF_JOBS", str(os.cpu_count() or 4)))


class AnalysisBroken(Exception):
    """Raised when the analysis itself cannot run (exit code 2)."""


def _sha(b):
    return hashlib.sha256(b).hexdigest()


def source_files():
    out = []
    for top in ("src", "app"):
        for d, _, fs in os.walk(os.path.join(REPO, top)):
            for f in fs:
                if f.endswith((".cc", ".hh", ".h", ".hpp", ".cpp", ".cu", ".in")):
                    out.append(os.path.join(d, f))
    inc = os.path.join(build_dir(), "include")
    for d, _, fs in os.walk(inc):
        for f in fs:
            out.append(os.path.join(d, f))
    out.sort()
    return out


_tree_hash = None


def tree_hash():
    global _tree_hash
    if _tree_hash is None:
        h = hashlib.sha256()
        for p in source_files():
            h.update(p.encode())
            try:
                with open(p, "rb") as f:
                    h.update(_sha(f.read()).encode())
            except OSError:
                h.update(b"?")
        with open(TOOL_SRC, "rb") as f:
            h.update(f.read())
        _tree_hash = h.hexdigest()[:24]
    return _tree_hash


BUILD_REPO = "/repo"   # where the configured build tree lives


def build_dir():
    b = os.path.join(REPO, "_build")
    if os.path.exists(os.path.join(b, "build.ninja")):
        return b
    # scratch copies of the repository (self-test / seeded mutants) borrow the
    # configured build tree of /repo for flags and generated headers
    b = os.path.join(BUILD_REPO, "_build")
    if os.path.exists(os.path.join(b, "build.ninja")):
        return b
    return os.path.join(CACHE, "cfg")      # created by bin/setup (offline cmake configure)


def ensure_tool():
    if os.path.exists(TOOL) and os.path.getmtime(TOOL) >= os.path.getmtime(TOOL_SRC):
        return
    os.makedirs(os.path.dirname(TOOL), exist_ok=True)
    flags = subprocess.check_output(["llvm-config-14", "--cxxflags"], text=True).split()
    tmp = TOOL + ".tmp%d" % os.getpid()
    cmd = (["clang++"] + flags + ["-fno-rtti", "-O1", TOOL_SRC, "-o", tmp,
                                  "/usr/lib/llvm-14/lib/libclang-cpp.so.14",
                                  "/usr/lib/llvm-14/lib/libLLVM-14.so"])
    r = subprocess.run(cmd, capture_output=True, text=True)
    if r.returncode != 0:
        raise AnalysisBroken("cannot build celerfacts: " + r.stderr[-2000:])
    os.replace(tmp, TOOL)


_cdb = None


def compile_db():
    """Return {file: command} for every src/app unit of the configured build."""
    global _cdb
    if _cdb is not None:
        return _cdb
    b = build_dir()
    entries = None
    route = None
    if os.path.exists(os.path.join(b, "build.ninja")):
        try:
            out = subprocess.check_output(["ninja", "-C", b, "-t", "compdb"],
                                          text=True, stderr=subprocess.DEVNULL)
            entries = json.loads(out)
            route = "ninja -t compdb (" + b + ")"
        except Exception:
            entries = None
    if entries is None:
        raise AnalysisBroken("no build tree with build.ninja at %s" % b)
    db = {}
    broot = os.path.dirname(b) if b.endswith("/_build") else BUILD_REPO
    for e in entries:
        f = os.path.normpath(e["file"])
        if broot != REPO:
            # rewrite source paths into the scratch copy, keep the build tree
            def rw(x):
                for top in ("src", "app", "test"):
                    x = x.replace(broot + "/" + top + "/", REPO + "/" + top + "/")
                    x = x.replace("-I" + broot + "/" + top + " ", "-I" + REPO + "/" + top + " ")
                return x
            f = rw(f)
            e = dict(e, file=f, command=rw(e["command"] + " ").rstrip())
        if not (f.startswith(REPO + "/src/") or f.startswith(REPO + "/app/")):
            continue
        if not f.endswith(".cc") or f in db:
            continue
        if not os.path.exists(f):
            continue
        c = e["command"]
        c = re.sub(r"-std=\S+", "-std=gnu++17", c)
        if "-std=" not in c:
            c += " -std=gnu++17"
        db[f] = {"directory": e["directory"], "command": c, "file": f}
    _cdb = (db, route)
    return _cdb


def all_units():
    return sorted(compile_db()[0].keys())


def _entry_for(u, witness):
    db, _ = compile_db()
    if u in db:
        return db[u]
    like = witness[u]
    e = dict(db[like])
    e["file"] = u
    e["command"] = e["command"].replace(like, u)
    return e


def _write_cdb(units, d, witness):
    os.makedirs(d, exist_ok=True)
    with open(os.path.join(d, "compile_commands.json"), "w") as f:
        json.dump([_entry_for(u, witness) for u in units], f)


def _run_batch(args):
    idx, units, cdbdir, outfile, astre = args
    cmd = [TOOL, "-p", cdbdir, "--out", outfile, "--root", REPO + "/"]
    if astre:
        cmd += ["--ast", astre]
    cmd += units
    r = subprocess.run(cmd, capture_output=True, text=True)
    return idx, r.returncode, r.stderr[-3000:]


def extract(units, astre="", witness=None):
    """Extract facts for the given units (absolute paths); cached.
    witness: {path of a unit under /verif/witness: repo unit whose flags it borrows}."""
    ensure_tool()
    db, route = compile_db()
    witness = dict(witness or {})
    units = sorted(set(units) | set(witness))
    missing = [u for u in units if u not in db and u not in witness]
    missing += [w for w, like in witness.items() if like not in db]
    if missing:
        raise AnalysisBroken("units not in the compile database: %s" % missing)
    wh = ""
    for w in sorted(witness):
        with open(w, "rb") as f:
            wh += _sha(f.read())
    key = _sha((tree_hash() + "|" + "\n".join(units) + "|" + astre + wh).encode())[:20]
    d = os.path.join(CACHE, "facts", key)
    done = os.path.join(d, "DONE")
    t0 = time.time()
    if not os.path.exists(done):
        os.makedirs(d, exist_ok=True)
        nb = max(1, min(NPROC, len(units)))
        # balance by file size (bigger first)
        order = sorted(units, key=lambda u: -os.path.getsize(u))
        batches = [[] for _ in range(nb)]
        for i, u in enumerate(order):
            batches[i % nb].append(u)
        # private to this process: concurrent checks may extract the same key at once
        cdbdir = os.path.join(d, "cdb-%d" % os.getpid())
        _write_cdb(units, cdbdir, witness)
        jobs = [(i, b, cdbdir, os.path.join(d, "b%d.json" % i), astre)
                for i, b in enumerate(batches)]
        with ThreadPoolExecutor(max_workers=nb) as ex:
            res = list(ex.map(_run_batch, jobs))
        for idx, rc, err in res:
            if not os.path.exists(os.path.join(d, "b%d.json" % idx)):
                raise AnalysisBroken("extractor produced no output for batch %d: %s"
                                     % (idx, err))
        import shutil
        shutil.rmtree(cdbdir, ignore_errors=True)
        with open(done + ".%d" % os.getpid(), "w") as f:
            f.write(str(len(batches)))
        os.replace(done + ".%d" % os.getpid(), done)
    try:
        os.utime(d, None)      # LRU stamp
        if time.time() - t0 > 0.5:
            prune_cache()
    except OSError:
        pass
    files = sorted(f for f in os.listdir(d) if re.match(r"b\d+\.json$", f))
    return FactBase([os.path.join(d, f) for f in files], units, route,
                    cached=(time.time() - t0 < 0.5), astre=astre)


def prune_cache(keep=24):
    base = os.path.join(CACHE, "facts")
    if not os.path.isdir(base):
        return
    ds = [os.path.join(base, x) for x in os.listdir(base)]
    ds = [x for x in ds if os.path.isdir(x)]
    ds.sort(key=os.path.getmtime, reverse=True)
    import shutil
    for x in ds[keep:]:
        shutil.rmtree(x, ignore_errors=True)


def _load(p):
    with open(p) as f:
        return json.load(f)


class FactBase:
    def __init__(self, files, units, route, cached, astre):
        self.units = units
        self.route = route
        self.cached = cached
        self.astre = astre
        self.funcs = {}      # name -> [records]
        self.records = {}    # name -> record
        self.enums = {}
        self.globals = {}
        self.unit_errors = []
        self.deps = set()
        seen = set()
        with ThreadPoolExecutor(max_workers=4) as ex:
            parts = list(ex.map(_load, files))
        for p in parts:
            for u in p["units"]:
                if u["errors"]:
                    self.unit_errors.append(u["file"])
            self.deps.update(p["deps"])
            for r in p["records"]:
                cur = self.records.get(r["name"])
                if cur is None or len(r["fields"]) > len(cur["fields"]):
                    self.records[r["name"]] = r
            for e in p["enums"]:
                self.enums.setdefault(e["name"], e)
            for g in p["globals"]:
                k = g["name"] + "|" + g["loc"]
                cur = self.globals.get(k)
                if cur is None or (g.get("def") and not cur.get("def")):
                    self.globals[k] = g
            for f in p["funcs"]:
                k = (f["name"], f.get("inst", ""), f["loc"])
                if k in seen:
                    continue
                seen.add(k)
                self.funcs.setdefault(f["name"], []).append(f)
        self.nfuncs = len(seen)
        self._cg = None
        self._rcg = None
        self._wrapped = {}

    # -- lookup helpers ------------------------------------------------------
    def get(self, name):
        """All analysed bodies (one per instantiation) of a function name."""
        from cfg import Func
        out = []
        for r in self.funcs.get(name, []):
            k = id(r)
            w = self._wrapped.get(k)
            if w is None:
                w = Func(r)
                self._wrapped[k] = w
            out.append(w)
        return out

    def find(self, regex):
        rx = re.compile(regex)
        return sorted(n for n in self.funcs if rx.search(n))

    def all_funcs(self):
        for n in self.funcs:
            for f in self.get(n):
                yield f

    # -- call graph -----------------------------------------------------------
    # Nodes are *instantiation* names (pattern name when not a template), so
    # that e.g. launch_action<A> only reaches A's executor.  Virtual calls are
    # expanded to every override (by class), lambdas are linked from the
    # function that creates them.
    def node_of(self, rec):
        return rec.get("inst", rec["name"]) + rec.get("sig", "")

    @staticmethod
    def callee_node(ev):
        return ev.get("inst", ev["callee"]) + ev.get("sig", "")

    def callgraph(self):
        if self._cg is not None:
            return self._cg
        cg = {}
        overriders = {}
        self.by_inst = {}
        for n, recs in self.funcs.items():
            for r in recs:
                self.by_inst.setdefault(self.node_of(r), []).append(r)
                for o in r.get("overrides", []):
                    overriders.setdefault(o, set()).add(self.node_of(r))
        changed = True
        while changed:
            changed = False
            for base, subs in list(overriders.items()):
                for s in list(subs):
                    for s2 in overriders.get(s, ()):
                        if s2 not in subs:
                            subs.add(s2)
                            changed = True
        self.overriders = overriders
        for n, recs in self.funcs.items():
            for r in recs:
                out = cg.setdefault(self.node_of(r), set())
                for b in r["blocks"]:
                    for ev in b["ev"]:
                        if ev["e"] in ("call", "lambda"):
                            c = self.callee_node(ev)
                            out.add(c)
                            if ev.get("virt"):
                                out.update(overriders.get(c, ()))
        self._cg = cg
        return cg

    def pattern_of(self, node):
        rs = self.by_inst.get(node)
        if rs:
            return rs[0]["name"]
        return None

    def reverse_callgraph(self):
        if self._rcg is None:
            r = {}
            for a, bs in self.callgraph().items():
                for b in bs:
                    r.setdefault(b, set()).add(a)
            self._rcg = r
        return self._rcg

    def reachable_from(self, roots, stop=()):
        """roots: instantiation names. Returns set of instantiation names."""
        cg = self.callgraph()
        seen = set()
        parent = {}
        work = list(roots)
        for r in roots:
            parent.setdefault(r, None)
        while work:
            n = work.pop()
            if n in seen or n in stop:
                continue
            seen.add(n)
            for m in cg.get(n, ()):
                if m not in seen and m not in stop:
                    parent.setdefault(m, n)
                    work.append(m)
        self._last_parent = parent
        return seen

    def chain_to(self, target):
        """Call chain root..target from the last reachable_from() run."""
        p = self._last_parent
        out = []
        cur = target
        guard = 0
        while cur is not None and guard < 200:
            out.append(cur)
            cur = p.get(cur)
            guard += 1
        return list(reversed(out))

    def funcs_of_nodes(self, nodes):
        from cfg import Func
        self.callgraph()
        for n in nodes:
            for r in self.by_inst.get(n, ()):
                k = id(r)
                w = self._wrapped.get(k)
                if w is None:
                    w = Func(r)
                    self._wrapped[k] = w
                yield w

    def callers_of(self, name):
        """[(caller Func, event)] of every resolved call to pattern `name`."""
        out = []
        for f in self.all_funcs():
            for (_b, _i, ev) in f.events("call"):
                if ev["callee"] == name:
                    out.append((f, ev))
        return out
