// Witness unit (never linked, never executed): forces the instantiation of the
// device-portable algorithms of corecel/math/Algorithms.hh with `Item*` iterators
// and opaque comparator / predicate functors so that the extractor sees their
// bodies with resolved types.  The functors are declared only: the interpreter
// (lib/ordinterp.py) evaluates them on abstract ranks, nothing here is run.
//
// `Item` is a scoped enumeration: a trivially copyable scalar (moves are plain
// copies, built-in `<` exists for the default `Less<>` comparator) whose type
// name is distinct from every index / length type, so that rule C18.1 can tell
// element values from integers by their static type.
#include "corecel/math/Algorithms.hh"

namespace c18w
{
enum class Item : int
{
};
struct Comp
{
    bool operator()(Item const& a, Item const& b) const;
};
struct Pred
{
    bool operator()(Item const& a) const;
};
struct Pred2
{
    bool operator()(Item const& a, Item const& b) const;
};
}  // namespace c18w

namespace celeritas
{
using c18w::Comp;
using c18w::Item;
using c18w::Pred;
using c18w::Pred2;
// sort -> heapsort_impl -> partial_sort -> make_heap / sift_down / sort_heap / pop_heap
template void sort<Item*, Comp>(Item*, Item*, Comp);
template void sort<Item*>(Item*, Item*);
// partition -> partition_impl
template Item* partition<Item*, Pred>(Item*, Item*, Pred);
// searches
template Item* lower_bound<Item*, Item, Comp>(Item*, Item*, Item const&, Comp);
template Item* lower_bound<Item*, Item>(Item*, Item*, Item const&);
template Item* lower_bound_linear<Item*, Item, Comp>(Item*, Item*, Item const&, Comp);
template Item* lower_bound_linear<Item*, Item>(Item*, Item*, Item const&);
template Item* upper_bound<Item*, Item, Comp>(Item*, Item*, Item const&, Comp);
template Item* upper_bound<Item*, Item>(Item*, Item*, Item const&);
template Item* find_sorted<Item*, Item, Comp>(Item*, Item*, Item const&, Comp);
template Item* find_sorted<Item*, Item>(Item*, Item*, Item const&);
// min_element
template Item* min_element<Item*, Comp>(Item*, Item*, Comp);
template Item* min_element<Item*>(Item*, Item*);
// quantifiers
template bool all_of<Item*, Pred>(Item*, Item*, Pred);
template bool any_of<Item*, Pred>(Item*, Item*, Pred);
template bool all_adjacent<Item*, Pred2>(Item*, Item*, Pred2);
}  // namespace celeritas
