// Witness unit (never linked): one use of every sampler in the anchor list of
// property C15 with the XORWOW engine, so that the extractor sees each
// `operator()` (and the private sampling helpers they call) as an
// instantiation with resolved callees.  Nothing here is judged: only bodies
// located under the repository are emitted by the extractor.
#include "corecel/Types.hh"
#include "corecel/cont/Array.hh"
#include "corecel/math/ArrayUtils.hh"
#include "celeritas/Quantities.hh"
#include "celeritas/em/distribution/EnergyLossGammaDistribution.hh"
#include "celeritas/em/distribution/EnergyLossGaussianDistribution.hh"
#include "celeritas/em/distribution/EnergyLossHelper.hh"
#include "celeritas/em/distribution/EnergyLossUrbanDistribution.hh"
#include "celeritas/em/distribution/TsaiUrbanDistribution.hh"
#include "celeritas/random/Selector.hh"
#include "celeritas/random/XorwowRngEngine.hh"
#include "celeritas/random/distribution/BernoulliDistribution.hh"
#include "celeritas/random/distribution/ExponentialDistribution.hh"
#include "celeritas/random/distribution/GammaDistribution.hh"
#include "celeritas/random/distribution/GenerateCanonical.hh"
#include "celeritas/random/distribution/InverseSquareDistribution.hh"
#include "celeritas/random/distribution/IsotropicDistribution.hh"
#include "celeritas/random/distribution/NormalDistribution.hh"
#include "celeritas/random/distribution/PoissonDistribution.hh"
#include "celeritas/random/distribution/RadialDistribution.hh"
#include "celeritas/random/distribution/ReciprocalDistribution.hh"
#include "celeritas/random/distribution/RejectionSampler.hh"
#include "celeritas/random/distribution/UniformBoxDistribution.hh"
#include "celeritas/random/distribution/UniformRealDistribution.hh"

namespace celeritas
{
double c15_witness_samplers(XorwowRngEngine& rng,
                            EnergyLossHelper const& helper,
                            Array<double, 3> const& lo,
                            Array<double, 3> const& hi,
                            double const* weights)
{
    using real = double;
    real acc = 0;
    acc += generate_canonical(rng);
    acc += generate_canonical<real>(rng);
    {
        UniformRealDistribution<real> sample(0, 2);
        acc += sample(rng);
    }
    {
        ExponentialDistribution<real> sample(2);
        acc += sample(rng);
    }
    {
        NormalDistribution<real> sample(0, 1);
        acc += sample(rng);
    }
    {
        GammaDistribution<real> sample(2, 3);
        acc += sample(rng);
    }
    {
        PoissonDistribution<real> sample(4);
        acc += sample(rng);
    }
    {
        ReciprocalDistribution<real> sample(1, 2);
        acc += sample(rng);
    }
    {
        InverseSquareDistribution<real> sample(1, 2);
        acc += sample(rng);
    }
    {
        RadialDistribution<real> sample(2);
        acc += sample(rng);
    }
    {
        IsotropicDistribution<real> sample;
        acc += sample(rng)[0];
    }
    {
        UniformBoxDistribution<real> sample(lo, hi);
        acc += sample(rng)[1];
    }
    {
        BernoulliDistribution sample(0.5);
        acc += sample(rng) ? 1 : 0;
    }
    {
        RejectionSampler<real> reject(1, 2);
        acc += reject(rng) ? 1 : 0;
    }
    {
        auto select = make_selector(
            [weights](size_type i) { return weights[i]; }, size_type(3));
        acc += select(rng);
    }
    {
        TsaiUrbanDistribution sample(units::MevEnergy{1}, units::MevMass{0.5});
        acc += sample(rng);
    }
    {
        EnergyLossGammaDistribution sample(helper);
        acc += sample(rng).value();
    }
    {
        EnergyLossGaussianDistribution sample(helper);
        acc += sample(rng).value();
    }
    {
        EnergyLossUrbanDistribution sample(helper);
        acc += sample(rng).value();
    }
    acc += make_unit_vector(lo)[0] + from_spherical(real(0.5), real(1))[2];
    return acc;
}
}  // namespace celeritas
