// Witness unit (never linked): forces the instantiation of both
// GenerateCanonical32 specialisations with the XORWOW engine so that the
// extractor sees their bodies with resolved types.
#include "celeritas/random/XorwowRngEngine.hh"
#include "celeritas/random/detail/GenerateCanonical32.hh"

template float celeritas::detail::GenerateCanonical32<float>::operator()(
    celeritas::XorwowRngEngine&);
template double celeritas::detail::GenerateCanonical32<double>::operator()(
    celeritas::XorwowRngEngine&);
