// celerfacts: libTooling fact extractor for the Celeritas static checks.
//
// For every translation unit given on the command line it writes one JSON
// file with: records/fields, enums, globals, and for every function body that
// lives under the repository root a CFG (blocks, reachable successors,
// terminator condition) whose elements are reduced to "events": resolved
// calls, writes to access paths, local definitions, returns, throws, lambda
// creations. Optionally (--ast REGEX) a full expression tree of matching
// functions is emitted for the abstract interpreters.
//
// Nothing here decides a property; the rules live in /verif/rules.

#include "clang/AST/ASTConsumer.h"
#include "clang/AST/ASTContext.h"
#include "clang/AST/DeclCXX.h"
#include "clang/AST/DeclTemplate.h"
#include "clang/AST/ExprCXX.h"
#include "clang/AST/ParentMapContext.h"
#include "clang/AST/RecursiveASTVisitor.h"
#include "clang/Analysis/CFG.h"
#include "clang/Frontend/CompilerInstance.h"
#include "clang/Frontend/FrontendAction.h"
#include "clang/Lex/Lexer.h"
#include "clang/Tooling/CommonOptionsParser.h"
#include "clang/Tooling/Tooling.h"
#include "llvm/ADT/SmallString.h"
#include "llvm/Support/CommandLine.h"
#include "llvm/Support/FileSystem.h"
#include "llvm/Support/Regex.h"
#include "llvm/Support/raw_ostream.h"

#include <unistd.h>

#include <map>
#include <set>
#include <string>
#include <vector>

using namespace clang;
using namespace clang::tooling;

static llvm::cl::OptionCategory Cat("celerfacts options");
static llvm::cl::opt<std::string>
    OutFile("out", llvm::cl::desc("output file (absolute path)"),
            llvm::cl::Required, llvm::cl::cat(Cat));
static llvm::cl::opt<std::string>
    Root("root", llvm::cl::desc("repository root prefix"),
         llvm::cl::init("/repo/"), llvm::cl::cat(Cat));
static llvm::cl::opt<std::string>
    AstFilter("ast", llvm::cl::desc("regex: functions to dump full AST for"),
              llvm::cl::init(""), llvm::cl::cat(Cat));

//---------------------------------------------------------------------------//
// Minimal JSON writer
//---------------------------------------------------------------------------//
static std::string jstr(llvm::StringRef s)
{
    std::string o;
    o.reserve(s.size() + 2);
    o.push_back('"');
    for (unsigned char c : s)
    {
        switch (c)
        {
            case '"': o += "\\\""; break;
            case '\\': o += "\\\\"; break;
            case '\n': o += "\\n"; break;
            case '\r': o += "\\r"; break;
            case '\t': o += "\\t"; break;
            default:
                if (c < 0x20)
                {
                    char buf[8];
                    snprintf(buf, sizeof buf, "\\u%04x", c);
                    o += buf;
                }
                else
                    o.push_back(c);
        }
    }
    o.push_back('"');
    return o;
}

struct JObj
{
    std::string s = "{";
    bool first = true;
    void key(llvm::StringRef k)
    {
        if (!first)
            s += ",";
        first = false;
        s += jstr(k);
        s += ":";
    }
    void str(llvm::StringRef k, llvm::StringRef v)
    {
        key(k);
        s += jstr(v);
    }
    void raw(llvm::StringRef k, llvm::StringRef v)
    {
        key(k);
        s += v.str();
    }
    void num(llvm::StringRef k, long long v)
    {
        key(k);
        s += std::to_string(v);
    }
    void boolean(llvm::StringRef k, bool v)
    {
        key(k);
        s += v ? "true" : "false";
    }
    std::string done()
    {
        return s + "}";
    }
};

static std::string jlist(std::vector<std::string> const& v)
{
    std::string s = "[";
    for (size_t i = 0; i < v.size(); ++i)
    {
        if (i)
            s += ",";
        s += v[i];
    }
    return s + "]";
}
static std::string jstrlist(std::vector<std::string> const& v)
{
    std::vector<std::string> q;
    for (auto& x : v)
        q.push_back(jstr(x));
    return jlist(q);
}

//---------------------------------------------------------------------------//
// Naming helpers
//---------------------------------------------------------------------------//
// Qualified name WITHOUT template arguments ("pattern" name)
static std::string patName(Decl const* d);

static std::string ctxName(DeclContext const* dc)
{
    if (!dc)
        return "";
    if (auto* ns = dyn_cast<NamespaceDecl>(dc))
    {
        std::string p = ctxName(ns->getParent());
        if (ns->isInline())
            return p;
        std::string n = ns->isAnonymousNamespace() ? "(anon)"
                                                   : ns->getNameAsString();
        return p.empty() ? n : p + "::" + n;
    }
    if (auto* rd = dyn_cast<RecordDecl>(dc))
        return patName(rd);
    if (auto* fd = dyn_cast<FunctionDecl>(dc))
        return patName(fd);
    if (auto* ed = dyn_cast<EnumDecl>(dc))
        return patName(ed);
    if (isa<TranslationUnitDecl>(dc))
        return "";
    return ctxName(dc->getParent());
}

static std::string patName(Decl const* d)
{
    auto* nd = dyn_cast<NamedDecl>(d);
    if (!nd)
        return "?";
    std::string p = ctxName(nd->getDeclContext());
    std::string n;
    if (auto* rd = dyn_cast<CXXRecordDecl>(nd))
    {
        if (rd->isLambda())
        {
            n = "(lambda)";
        }
        else
            n = rd->getNameAsString();
        if (n.empty())
            n = "(unnamed)";
    }
    else
    {
        n = nd->getDeclName().getAsString();
        if (n.empty())
            n = "(unnamed)";
        if (auto* cd = dyn_cast<CXXConstructorDecl>(nd))
            n = cd->getParent()->getNameAsString();  // no template args
        else if (auto* dd = dyn_cast<CXXDestructorDecl>(nd))
            n = "~" + dd->getParent()->getNameAsString();
        else if (auto* cv = dyn_cast<CXXConversionDecl>(nd))
            n = "operator " + cv->getConversionType().getAsString();
    }
    return p.empty() ? n : p + "::" + n;
}

static std::string typeStr(QualType t, ASTContext& ctx)
{
    PrintingPolicy pp(ctx.getLangOpts());
    pp.SuppressTagKeyword = true;
    pp.FullyQualifiedName = true;
    return t.getAsString(pp);
}

//---------------------------------------------------------------------------//
struct Extractor
{
    ASTContext& ctx;
    SourceManager& sm;
    std::string root;
    std::unique_ptr<llvm::Regex> astre;

    // shared across all translation units handled by this process
    static std::vector<std::string> funcs, records, enums, globals, units;
    static std::set<std::string> seenFuncs, seenRecords, seenEnums, seenGlobals;
    static std::set<std::string> deps;

    Extractor(ASTContext& c) : ctx(c), sm(c.getSourceManager()), root(Root)
    {
        if (!AstFilter.empty())
            astre = std::make_unique<llvm::Regex>(AstFilter);
    }

    std::string fileOf(SourceLocation l)
    {
        if (l.isInvalid())
            return "";
        SourceLocation f = sm.getFileLoc(l);
        PresumedLoc p = sm.getPresumedLoc(f);
        if (p.isInvalid())
            return "";
        return p.getFilename();
    }
    std::string normFile(std::string f)
    {
        llvm::SmallString<256> s(f);
        llvm::sys::path::remove_dots(s, true);
        return std::string(s.str());
    }
    bool inRepo(SourceLocation l)
    {
        std::string f = normFile(fileOf(l));
        if (f.compare(0, root.size(), root) != 0)
            return false;
        // exclude the build tree (generated headers are config only)
        return true;
    }
    std::string locStr(SourceLocation l)
    {
        if (l.isInvalid())
            return "?";
        SourceLocation f = sm.getFileLoc(l);
        PresumedLoc p = sm.getPresumedLoc(f);
        if (p.isInvalid())
            return "?";
        std::string fn = normFile(p.getFilename());
        if (fn.compare(0, root.size(), root) == 0)
            fn = fn.substr(root.size());
        return fn + ":" + std::to_string(p.getLine()) + ":"
               + std::to_string(p.getColumn());
    }
    std::string macroOf(SourceLocation l)
    {
        if (!l.isMacroID())
            return "";
        // outermost macro
        SourceLocation cur = l;
        std::string name;
        while (cur.isMacroID())
        {
            name = Lexer::getImmediateMacroName(cur, sm, ctx.getLangOpts())
                       .str();
            cur = sm.getImmediateMacroCallerLoc(cur);
        }
        return name;
    }

    std::string text(Stmt const* s, unsigned maxlen = 240)
    {
        if (!s)
            return "";
        std::string out;
        llvm::raw_string_ostream os(out);
        PrintingPolicy pp(ctx.getLangOpts());
        pp.SuppressTagKeyword = true;
        pp.TerseOutput = true;
        s->printPretty(os, nullptr, pp);
        os.flush();
        // collapse whitespace
        std::string o;
        bool sp = false;
        for (char c : out)
        {
            if (c == '\n' || c == '\t' || c == ' ')
            {
                sp = true;
                continue;
            }
            if (sp && !o.empty())
                o.push_back(' ');
            sp = false;
            o.push_back(c);
        }
        if (o.size() > maxlen)
            o = o.substr(0, maxlen) + "...";
        return o;
    }

    //-----------------------------------------------------------------------//
    // Expression helpers
    //-----------------------------------------------------------------------//
    static Expr const* strip(Expr const* e)
    {
        while (e)
        {
            Expr const* n = e->IgnoreParenImpCasts();
            if (auto* m = dyn_cast<MaterializeTemporaryExpr>(n))
                n = m->getSubExpr();
            else if (auto* b = dyn_cast<CXXBindTemporaryExpr>(n))
                n = b->getSubExpr();
            else if (auto* c = dyn_cast<ExprWithCleanups>(n))
                n = c->getSubExpr();
            else if (auto* f = dyn_cast<CXXFunctionalCastExpr>(n))
            {
                if (f->getCastKind() == CK_NoOp
                    || f->getCastKind() == CK_ConstructorConversion)
                    n = f->getSubExpr();
            }
            else if (auto* ce = dyn_cast<CXXConstructExpr>(n))
            {
                // copy/move construction wrapper
                if (ce->getNumArgs() == 1
                    && ce->getConstructor()->isCopyOrMoveConstructor())
                    n = ce->getArg(0);
            }
            if (n == e)
                break;
            e = n;
        }
        return e;
    }

    FunctionDecl const* calleeOf(Expr const* e)
    {
        if (auto* ce = dyn_cast<CallExpr>(e))
            return ce->getDirectCallee();
        if (auto* cc = dyn_cast<CXXConstructExpr>(e))
            return cc->getConstructor();
        return nullptr;
    }

    // Collect referenced variable names (locals/params/fields) in an expr
    void collectRefs(Stmt const* s, std::set<std::string>& refs,
                     std::set<std::string>& calls, int depth = 0)
    {
        if (!s || depth > 40)
            return;
        if (auto* dr = dyn_cast<DeclRefExpr>(s))
        {
            if (isa<VarDecl>(dr->getDecl()))
                refs.insert(dr->getDecl()->getNameAsString());
            else if (isa<EnumConstantDecl>(dr->getDecl()))
                refs.insert("E:" + patName(dr->getDecl()));
        }
        else if (auto* me = dyn_cast<MemberExpr>(s))
        {
            if (isa<FieldDecl>(me->getMemberDecl()))
                refs.insert("F:" + patName(me->getMemberDecl()));
        }
        else if (isa<CXXThisExpr>(s))
        {
            refs.insert("this");
        }
        if (auto* e = dyn_cast<Expr>(s))
        {
            if (auto* fd = calleeOf(e))
            {
                // copies/moves are not semantic calls
                auto* cd = dyn_cast<CXXConstructorDecl>(fd);
                if (!(cd && cd->isCopyOrMoveConstructor()))
                    calls.insert(patName(fd));
            }
        }
        if (isa<LambdaExpr>(s))
            return;
        for (Stmt const* c : s->children())
            collectRefs(c, refs, calls, depth + 1);
    }

    // Access path of an lvalue-ish expression: root + chain
    struct Path
    {
        std::string root;
        std::vector<std::string> chain;
        bool ok = false;
    };

    void pathRec(Expr const* e, Path& p, int depth)
    {
        if (!e || depth > 12)
        {
            p.root = "?";
            return;
        }
        e = strip(e);
        if (auto* me = dyn_cast<MemberExpr>(e))
        {
            pathRec(me->getBase(), p, depth + 1);
            if (me->isArrow() && !isa<CXXThisExpr>(strip(me->getBase())))
                p.chain.push_back("*");
            if (isa<FieldDecl>(me->getMemberDecl()))
                p.chain.push_back("f:" + patName(me->getMemberDecl()));
            else if (isa<VarDecl>(me->getMemberDecl()))
            {
                p.root = "g:" + patName(me->getMemberDecl());
                p.chain.clear();
            }
            else
                p.chain.push_back("m:" + patName(me->getMemberDecl()));
            return;
        }
        if (auto* as = dyn_cast<ArraySubscriptExpr>(e))
        {
            pathRec(as->getBase(), p, depth + 1);
            p.chain.push_back("[]");
            return;
        }
        if (auto* uo = dyn_cast<UnaryOperator>(e))
        {
            if (uo->getOpcode() == UO_Deref)
            {
                pathRec(uo->getSubExpr(), p, depth + 1);
                p.chain.push_back("*");
                return;
            }
            if (uo->getOpcode() == UO_AddrOf)
            {
                pathRec(uo->getSubExpr(), p, depth + 1);
                p.chain.push_back("&");
                return;
            }
        }
        if (auto* oc = dyn_cast<CXXOperatorCallExpr>(e))
        {
            auto op = oc->getOperator();
            if ((op == OO_Subscript || op == OO_Star || op == OO_Arrow)
                && oc->getNumArgs() >= 1)
            {
                pathRec(oc->getArg(0), p, depth + 1);
                p.chain.push_back(op == OO_Subscript ? "[]" : "*");
                return;
            }
        }
        if (auto* mc = dyn_cast<CXXMemberCallExpr>(e))
        {
            // accessor-style call: obj.method(...) used as lvalue path element
            if (auto* md = mc->getMethodDecl())
            {
                Expr const* obj = mc->getImplicitObjectArgument();
                if (obj)
                    pathRec(obj, p, depth + 1);
                else
                    p.root = "?";
                p.chain.push_back("m:" + patName(md));
                return;
            }
        }
        if (auto* ce = dyn_cast<CallExpr>(e))
        {
            if (auto* fd = ce->getDirectCallee())
            {
                p.root = "call:" + patName(fd);
                return;
            }
        }
        if (isa<CXXThisExpr>(e))
        {
            p.root = "this";
            return;
        }
        if (auto* dr = dyn_cast<DeclRefExpr>(e))
        {
            if (auto* vd = dyn_cast<VarDecl>(dr->getDecl()))
            {
                if (vd->hasGlobalStorage() && !vd->isStaticLocal())
                {
                    p.root = "g:" + patName(vd);
                    return;
                }
                if (vd->isStaticLocal())
                {
                    p.root = "g:" + patName(vd);
                    return;
                }
                // local reference/pointer alias: follow initializer
                QualType t = vd->getType();
                if ((t->isReferenceType() || t->isPointerType())
                    && vd->hasInit() && !isa<ParmVarDecl>(vd) && depth < 8)
                {
                    Path q;
                    pathRec(vd->getInit(), q, depth + 1);
                    if (!q.root.empty() && q.root != "?" && q.root != "tmp")
                    {
                        p.root = q.root;
                        p.chain = q.chain;
                        p.chain.push_back("~" + vd->getNameAsString());
                        return;
                    }
                }
                p.root = (isa<ParmVarDecl>(vd) ? "p:" : "l:")
                         + vd->getNameAsString();
                return;
            }
            p.root = "d:" + patName(dr->getDecl());
            return;
        }
        p.root = "tmp";
    }

    Path pathOf(Expr const* e)
    {
        Path p;
        pathRec(e, p, 0);
        p.ok = !p.root.empty() && p.root != "?" && p.root != "tmp";
        return p;
    }
    std::string pathJson(Path const& p)
    {
        JObj o;
        o.str("root", p.root);
        o.raw("chain", jstrlist(p.chain));
        return o.done();
    }

    std::string argJson(Expr const* a, ParmVarDecl const* parm)
    {
        JObj o;
        o.str("t", text(a, 160));
        Expr const* s = strip(a);
        if (auto* dr = dyn_cast_or_null<DeclRefExpr>(s))
        {
            if (auto* ec = dyn_cast<EnumConstantDecl>(dr->getDecl()))
                o.str("enum", patName(ec));
        }
        if (auto* il = dyn_cast_or_null<IntegerLiteral>(s))
            o.str("lit", llvm::toString(il->getValue(), 10, false));
        if (auto* fl = dyn_cast_or_null<FloatingLiteral>(s))
        {
            llvm::SmallString<32> b;
            fl->getValue().toString(b);
            o.str("lit", b.str());
        }
        if (isa_and_nonnull<CXXNullPtrLiteralExpr>(s))
            o.str("lit", "nullptr");
        if (auto* bl = dyn_cast_or_null<CXXBoolLiteralExpr>(s))
            o.str("lit", bl->getValue() ? "true" : "false");
        // passing mode
        std::string mode = "val";
        if (parm)
        {
            QualType pt = parm->getType();
            if (pt->isReferenceType())
            {
                QualType pointee = pt->getPointeeType();
                mode = pointee.isConstQualified() ? "cref" : "ref";
                if (pt->isRValueReferenceType())
                    mode = "rref";
            }
            else if (pt->isPointerType())
            {
                mode = pt->getPointeeType().isConstQualified() ? "cptr"
                                                               : "ptr";
            }
        }
        o.str("mode", mode);
        if (s && (s->isLValue() || mode == "ptr" || mode == "ref"))
        {
            Path p = pathOf(s);
            if (p.ok)
                o.raw("path", pathJson(p));
        }
        std::set<std::string> refs, calls;
        collectRefs(a, refs, calls);
        if (!refs.empty())
            o.raw("refs",
                  jstrlist(std::vector<std::string>(refs.begin(), refs.end())));
        if (!calls.empty())
            o.raw("calls",
                  jstrlist(
                      std::vector<std::string>(calls.begin(), calls.end())));
        return o.done();
    }

    //-----------------------------------------------------------------------//
    // Full AST dump (for interpreters)
    //-----------------------------------------------------------------------//
    std::string astJson(Stmt const* s, int depth = 0)
    {
        if (!s)
            return "null";
        if (depth > 200)
            return "null";
        JObj o;
        o.str("k", s->getStmtClassName());
        if (auto* e = dyn_cast<Expr>(s))
            o.str("ty", typeStr(e->getType().getCanonicalType(), ctx));
        if (auto* bo = dyn_cast<BinaryOperator>(s))
            o.str("op", bo->getOpcodeStr());
        else if (auto* uo = dyn_cast<UnaryOperator>(s))
        {
            o.str("op", UnaryOperator::getOpcodeStr(uo->getOpcode()));
            o.boolean("postfix", uo->isPostfix());
        }
        else if (auto* dr = dyn_cast<DeclRefExpr>(s))
        {
            o.str("name", dr->getDecl()->getNameAsString());
            o.str("q", patName(dr->getDecl()));
            o.str("dk", dr->getDecl()->getDeclKindName());
            if (auto* vd = dyn_cast<VarDecl>(dr->getDecl()))
            {
                // constant value if known
                if (vd->getType().isConstQualified() && vd->hasInit())
                {
                    Expr::EvalResult r;
                    if (!vd->getInit()->isValueDependent()
                        && vd->getInit()->EvaluateAsRValue(r, ctx))
                    {
                        if (r.Val.isInt())
                            o.str("cval",
                                  llvm::toString(r.Val.getInt(), 10));
                        else if (r.Val.isFloat())
                        {
                            llvm::SmallString<40> b;
                            r.Val.getFloat().toString(b, 0, 0);
                            o.str("cval", b.str());
                        }
                    }
                }
            }
        }
        else if (auto* me = dyn_cast<MemberExpr>(s))
        {
            o.str("name", me->getMemberDecl()->getNameAsString());
            o.str("q", patName(me->getMemberDecl()));
            o.boolean("arrow", me->isArrow());
        }
        else if (auto* il = dyn_cast<IntegerLiteral>(s))
            o.str("val", llvm::toString(il->getValue(), 10, false));
        else if (auto* fl = dyn_cast<FloatingLiteral>(s))
        {
            llvm::SmallString<40> b;
            fl->getValue().toString(b, 0, 0);
            o.str("val", b.str());
            // exact hex bits
            o.str("bits",
                  llvm::toString(fl->getValue().bitcastToAPInt(), 16, false));
        }
        else if (auto* bl = dyn_cast<CXXBoolLiteralExpr>(s))
            o.str("val", bl->getValue() ? "true" : "false");
        else if (auto* sl = dyn_cast<StringLiteral>(s))
        {
            if (sl->isAscii() || sl->isUTF8())
                o.str("val", sl->getString());
        }
        else if (auto* cl = dyn_cast<CharacterLiteral>(s))
            o.num("val", cl->getValue());
        else if (auto* ce = dyn_cast<CastExpr>(s))
            o.str("cast", ce->getCastKindName());
        if (auto* e = dyn_cast<Expr>(s))
        {
            if (auto* fd = calleeOf(e))
            {
                o.str("callee", patName(fd));
                // integral template arguments of the callee (e.g. ipow<2>)
                if (auto* ta = fd->getTemplateSpecializationArgs())
                {
                    std::vector<std::string> tv;
                    for (auto const& a : ta->asArray())
                    {
                        if (a.getKind() == TemplateArgument::Integral)
                            tv.push_back(llvm::toString(a.getAsIntegral(), 10));
                    }
                    if (!tv.empty())
                        o.raw("targs", jstrlist(tv));
                }
            }
            if (auto* oc = dyn_cast<CXXOperatorCallExpr>(e))
                o.str("oop", getOperatorSpelling(oc->getOperator()));
            // integral constant folding for arbitrary expressions
            if (!e->isValueDependent() && e->getType()->isIntegralOrEnumerationType()
                && !isa<IntegerLiteral>(e))
            {
                Expr::EvalResult r;
                if (e->EvaluateAsInt(r, ctx, Expr::SE_NoSideEffects))
                    o.str("cval", llvm::toString(r.Val.getInt(), 10));
            }
        }
        o.str("loc", locStr(s->getBeginLoc()));
        std::vector<std::string> kids;
        if (auto* ds = dyn_cast<DeclStmt>(s))
        {
            for (Decl const* d : ds->decls())
            {
                if (auto* vd = dyn_cast<VarDecl>(d))
                {
                    JObj v;
                    v.str("k", "VarDecl");
                    v.str("name", vd->getNameAsString());
                    v.str("ty", typeStr(vd->getType().getCanonicalType(), ctx));
                    v.boolean("static", vd->isStaticLocal());
                    v.raw("c",
                          "[" + (vd->hasInit() ? astJson(vd->getInit(), depth + 1)
                                               : std::string("null"))
                              + "]");
                    kids.push_back(v.done());
                }
            }
        }
        else if (auto* le = dyn_cast<LambdaExpr>(s))
        {
            kids.push_back(astJson(le->getBody(), depth + 1));
        }
        else
        {
            for (Stmt const* c : s->children())
                kids.push_back(astJson(c, depth + 1));
        }
        o.raw("c", jlist(kids));
        return o.done();
    }

    //-----------------------------------------------------------------------//
    // Event extraction for one CFG element statement (non-recursive)
    //-----------------------------------------------------------------------//
    std::map<Stmt const*, int> stmtIds;
    int idOf(Stmt const* s)
    {
        auto it = stmtIds.find(s);
        if (it != stmtIds.end())
            return it->second;
        int n = (int)stmtIds.size();
        stmtIds[s] = n;
        return n;
    }

    void writeEvent(std::vector<std::string>& ev, Expr const* lhs,
                    Expr const* rhs, llvm::StringRef kind, Stmt const* at,
                    llvm::StringRef op = "")
    {
        Path p = pathOf(lhs);
        JObj o;
        bool localScalar = false;
        if (p.ok && p.chain.empty()
            && (p.root.compare(0, 2, "l:") == 0
                || p.root.compare(0, 2, "p:") == 0))
            localScalar = true;
        o.str("e", localScalar ? "def" : "write");
        o.str("kind", kind);
        if (!op.empty())
            o.str("op", op);
        o.str("loc", locStr(at->getBeginLoc()));
        o.str("lhs", text(lhs, 160));
        if (localScalar)
            o.str("var", p.root.substr(2));
        o.raw("path", pathJson(p));
        if (rhs)
        {
            o.str("rhs", text(rhs, 200));
            std::set<std::string> refs, calls;
            collectRefs(rhs, refs, calls);
            o.raw("refs",
                  jstrlist(std::vector<std::string>(refs.begin(), refs.end())));
            o.raw("calls",
                  jstrlist(
                      std::vector<std::string>(calls.begin(), calls.end())));
            Expr const* s = strip(rhs);
            if (auto* dr = dyn_cast_or_null<DeclRefExpr>(s))
                if (auto* ec = dyn_cast<EnumConstantDecl>(dr->getDecl()))
                    o.str("enum", patName(ec));
            if (auto* il = dyn_cast_or_null<IntegerLiteral>(s))
                o.str("lit", llvm::toString(il->getValue(), 10, false));
            if (auto* ile = dyn_cast_or_null<InitListExpr>(s))
                if (ile->getNumInits() == 0)
                    o.str("lit", "{}");
            if (auto* ce = dyn_cast_or_null<CXXConstructExpr>(s))
                if (ce->getNumArgs() == 0)
                    o.str("lit", "{}");
        }
        o.num("id", idOf(at));
        ev.push_back(o.done());
    }

    void stmtEvents(Stmt const* s, std::vector<std::string>& ev)
    {
        if (!s)
            return;
        if (auto* ds = dyn_cast<DeclStmt>(s))
        {
            for (Decl const* d : ds->decls())
            {
                auto* vd = dyn_cast<VarDecl>(d);
                if (!vd)
                    continue;
                JObj o;
                o.str("e", "def");
                o.str("kind", "decl");
                o.str("var", vd->getNameAsString());
                o.str("ty", typeStr(vd->getType(), ctx));
                o.str("loc", locStr(vd->getLocation()));
                if (vd->hasInit())
                {
                    o.str("rhs", text(vd->getInit(), 200));
                    std::set<std::string> refs, calls;
                    collectRefs(vd->getInit(), refs, calls);
                    o.raw("refs",
                          jstrlist(std::vector<std::string>(refs.begin(),
                                                            refs.end())));
                    o.raw("calls",
                          jstrlist(std::vector<std::string>(calls.begin(),
                                                            calls.end())));
                    Expr const* si = strip(vd->getInit());
                    if (auto* il = dyn_cast_or_null<IntegerLiteral>(si))
                        o.str("lit", llvm::toString(il->getValue(), 10, false));
                    if (vd->getType()->isReferenceType()
                        || vd->getType()->isPointerType())
                    {
                        Path p = pathOf(vd->getInit());
                        if (p.ok)
                            o.raw("alias", pathJson(p));
                    }
                }
                o.num("id", idOf(s));
                ev.push_back(o.done());
            }
            return;
        }
        if (auto* bo = dyn_cast<BinaryOperator>(s))
        {
            if (bo->isAssignmentOp())
            {
                writeEvent(ev, bo->getLHS(), bo->getRHS(),
                           bo->isCompoundAssignmentOp() ? "compound" : "assign",
                           s, bo->getOpcodeStr());
            }
            return;
        }
        if (auto* uo = dyn_cast<UnaryOperator>(s))
        {
            if (uo->isIncrementDecrementOp())
                writeEvent(ev, uo->getSubExpr(), nullptr, "incdec", s,
                           UnaryOperator::getOpcodeStr(uo->getOpcode()));
            return;
        }
        if (auto* rs = dyn_cast<ReturnStmt>(s))
        {
            JObj o;
            o.str("e", "return");
            o.str("loc", locStr(rs->getBeginLoc()));
            if (Expr const* rv = rs->getRetValue())
            {
                o.str("t", text(rv, 200));
                std::set<std::string> refs, calls;
                collectRefs(rv, refs, calls);
                o.raw("refs",
                      jstrlist(
                          std::vector<std::string>(refs.begin(), refs.end())));
                o.raw("calls",
                      jstrlist(std::vector<std::string>(calls.begin(),
                                                        calls.end())));
                Expr const* sv = strip(rv);
                if (auto* dr = dyn_cast_or_null<DeclRefExpr>(sv))
                    if (auto* ec = dyn_cast<EnumConstantDecl>(dr->getDecl()))
                        o.str("enum", patName(ec));
                if (auto* il = dyn_cast_or_null<IntegerLiteral>(sv))
                    o.str("lit", llvm::toString(il->getValue(), 10, false));
                if (auto* fl = dyn_cast_or_null<FloatingLiteral>(sv))
                {
                    llvm::SmallString<32> b;
                    fl->getValue().toString(b);
                    o.str("lit", b.str());
                }
                if (isa_and_nonnull<CXXNullPtrLiteralExpr>(sv))
                    o.str("lit", "nullptr");
                if (auto* bl = dyn_cast_or_null<CXXBoolLiteralExpr>(sv))
                    o.str("lit", bl->getValue() ? "true" : "false");
                if (sv && sv->isLValue())
                {
                    Path p = pathOf(sv);
                    if (p.ok)
                        o.raw("path", pathJson(p));
                }
                // constant-folded enumerator (e.g. `P == pre ? a : b` in an
                // instantiation)
                if (!rv->isValueDependent()
                    && rv->getType()->isEnumeralType()
                    && !isa_and_nonnull<DeclRefExpr>(sv))
                {
                    Expr::EvalResult r;
                    if (rv->EvaluateAsInt(r, ctx, Expr::SE_NoSideEffects))
                    {
                        if (auto* et = rv->getType()->getAs<EnumType>())
                        {
                            for (auto* ec : et->getDecl()->enumerators())
                            {
                                if (llvm::APSInt::isSameValue(ec->getInitVal(),
                                                              r.Val.getInt()))
                                {
                                    o.str("enum", patName(ec));
                                    break;
                                }
                            }
                        }
                    }
                }
            }
            o.num("id", idOf(s));
            ev.push_back(o.done());
            return;
        }
        if (auto* te = dyn_cast<CXXThrowExpr>(s))
        {
            JObj o;
            o.str("e", "throw");
            o.str("loc", locStr(te->getBeginLoc()));
            if (te->getSubExpr())
                o.str("ty",
                      typeStr(te->getSubExpr()->getType().getCanonicalType(),
                              ctx));
            ev.push_back(o.done());
            return;
        }
        if (auto* sl = dyn_cast<StringLiteral>(s))
        {
            if ((sl->isAscii() || sl->isUTF8()) && sl->getLength() < 48
                && !s->getBeginLoc().isMacroID())
            {
                JObj o;
                o.str("e", "str");
                o.str("s", sl->getString());
                o.str("loc", locStr(sl->getBeginLoc()));
                Stmt const* cur = s;
                for (int i = 0; i < 6 && cur; ++i)
                {
                    auto ps = ctx.getParents(*cur);
                    if (ps.empty())
                        break;
                    Stmt const* p = ps[0].get<Stmt>();
                    if (!p)
                        break;
                    if (auto* pe = dyn_cast<Expr>(p))
                    {
                        if (auto* fd = calleeOf(pe))
                        {
                            o.str("ctx", patName(fd));
                            if (auto* md = dyn_cast<CXXMethodDecl>(fd))
                                o.boolean("constm", md->isConst());
                            break;
                        }
                    }
                    if (isa<InitListExpr>(p) || isa<CXXStdInitializerListExpr>(p))
                        o.boolean("inlist", true);
                    cur = p;
                }
                ev.push_back(o.done());
            }
            return;
        }
        if (auto* ne = dyn_cast<CXXNewExpr>(s))
        {
            if (ne->getNumPlacementArgs() >= 1)
            {
                Path p = pathOf(ne->getPlacementArg(0));
                JObj o;
                o.str("e", "write");
                o.str("kind", "placement-new");
                o.str("loc", locStr(ne->getBeginLoc()));
                o.str("lhs", text(ne->getPlacementArg(0), 160));
                o.raw("path", pathJson(p));
                o.str("rhs", typeStr(ne->getAllocatedType(), ctx));
                o.num("id", idOf(s));
                ev.push_back(o.done());
            }
            return;
        }
        if (auto* le = dyn_cast<LambdaExpr>(s))
        {
            JObj o;
            o.str("e", "lambda");
            o.str("loc", locStr(le->getBeginLoc()));
            if (auto* cm = le->getCallOperator())
            {
                o.str("callee", lambdaName(cm));
                o.str("sig", sigOf(cm));
                std::string li = lambdaInst(cm);
                if (li != lambdaName(cm))
                    o.str("inst", li);
            }
            // captures: name, by-reference?, and for init-captures the text /
            // variables / callees / access path of the initialiser
            {
                std::vector<std::string> caps;
                for (auto const& c : le->captures())
                {
                    JObj co;
                    if (c.capturesThis())
                    {
                        co.str("n", "this");
                    }
                    else if (c.capturesVariable())
                    {
                        auto* vd = c.getCapturedVar();
                        co.str("n", vd->getNameAsString());
                        co.boolean("byref",
                                   c.getCaptureKind() == LCK_ByRef);
                        if (le->isInitCapture(&c) && vd->getInit())
                        {
                            Expr const* in = vd->getInit();
                            co.str("init", text(in, 160));
                            std::set<std::string> refs, calls;
                            collectRefs(in, refs, calls);
                            if (!refs.empty())
                                co.raw("refs",
                                       jstrlist(std::vector<std::string>(
                                           refs.begin(), refs.end())));
                            if (!calls.empty())
                                co.raw("calls",
                                       jstrlist(std::vector<std::string>(
                                           calls.begin(), calls.end())));
                            Path pp = pathOf(strip(in));
                            if (pp.ok)
                                co.raw("path", pathJson(pp));
                        }
                        else
                        {
                            co.str("ty", typeStr(vd->getType(), ctx));
                        }
                    }
                    else
                    {
                        continue;
                    }
                    caps.push_back(co.done());
                }
                if (!caps.empty())
                    o.raw("captures", jlist(caps));
            }
            ev.push_back(o.done());
            return;
        }
        if (auto* e = dyn_cast<Expr>(s))
        {
            FunctionDecl const* fd = calleeOf(e);
            if (!fd)
            {
                // unresolved / indirect calls
                if (auto* ce = dyn_cast<CallExpr>(e))
                {
                    JObj o;
                    o.str("e", "call");
                    o.str("callee", "?indirect");
                    o.str("t", text(ce->getCallee(), 120));
                    o.str("loc", locStr(ce->getBeginLoc()));
                    o.num("id", idOf(s));
                    ev.push_back(o.done());
                }
                return;
            }
            JObj o;
            o.str("e", "call");
            std::string cname = patName(fd);
            if (auto* md = dyn_cast<CXXMethodDecl>(fd))
                if (md->getParent()->isLambda())
                    cname = lambdaName(md);
            o.str("callee", cname);
            o.str("sig", sigOf(fd));
            o.str("loc", locStr(e->getBeginLoc()));
            std::string mac = macroOf(e->getBeginLoc());
            if (!mac.empty())
                o.str("macro", mac);
            o.num("id", idOf(s));
            // template args of callee (function or class)
            bool calleeIsLambda = false;
            if (auto* md = dyn_cast<CXXMethodDecl>(fd))
                calleeIsLambda = md->getParent()->isLambda();
            if (calleeIsLambda)
            {
                std::string li = lambdaInst(cast<CXXMethodDecl>(fd));
                if (li != cname)
                    o.str("inst", li);
            }
            else
            {
                std::string full = fd->getQualifiedNameAsString();
                if (auto* ta = fd->getTemplateSpecializationArgs())
                {
                    full += "<";
                    PrintingPolicy pp(ctx.getLangOpts());
                    for (unsigned i = 0; i < ta->size(); ++i)
                    {
                        if (i)
                            full += ",";
                        std::string a;
                        llvm::raw_string_ostream os(a);
                        ta->get(i).print(pp, os, true);
                        full += os.str();
                    }
                    full += ">";
                }
                if (full != cname && full.size() < 400)
                    o.str("inst", full);
            }
            std::vector<std::string> args;
            unsigned firstParm = 0;
            std::vector<Expr const*> argv;
            Expr const* recv = nullptr;
            if (auto* mc = dyn_cast<CXXMemberCallExpr>(e))
            {
                recv = mc->getImplicitObjectArgument();
                for (auto* a : mc->arguments())
                    argv.push_back(a);
            }
            else if (auto* oc = dyn_cast<CXXOperatorCallExpr>(e))
            {
                bool isMember = isa<CXXMethodDecl>(fd)
                                && !cast<CXXMethodDecl>(fd)->isStatic();
                unsigned i = 0;
                for (auto* a : oc->arguments())
                {
                    if (isMember && i == 0)
                        recv = a;
                    else
                        argv.push_back(a);
                    ++i;
                }
            }
            else if (auto* ce = dyn_cast<CallExpr>(e))
            {
                for (auto* a : ce->arguments())
                    argv.push_back(a);
            }
            else if (auto* cc = dyn_cast<CXXConstructExpr>(e))
            {
                for (auto* a : cc->arguments())
                    argv.push_back(a);
                o.boolean("ctor", true);
            }
            (void)firstParm;
            for (unsigned i = 0; i < argv.size(); ++i)
            {
                ParmVarDecl const* pv = i < fd->getNumParams()
                                            ? fd->getParamDecl(i)
                                            : nullptr;
                if (isa<CXXDefaultArgExpr>(argv[i]))
                    continue;
                args.push_back(argJson(argv[i], pv));
            }
            o.raw("args", jlist(args));
            if (recv)
            {
                JObj r;
                r.str("t", text(recv, 120));
                Path p = pathOf(recv);
                if (p.ok)
                    r.raw("path", pathJson(p));
                o.raw("recv", r.done());
            }
            if (auto* md = dyn_cast<CXXMethodDecl>(fd))
            {
                if (!md->isStatic() && !isa<CXXConstructorDecl>(md))
                    o.boolean("constm", md->isConst());
                if (md->isVirtual())
                    o.boolean("virt", true);
            }
            // operator= on class types and similar: also a write to receiver
            if (auto* oc = dyn_cast<CXXOperatorCallExpr>(e))
            {
                auto op = oc->getOperator();
                bool asg = op == OO_Equal || op == OO_PlusEqual
                           || op == OO_MinusEqual || op == OO_StarEqual
                           || op == OO_SlashEqual || op == OO_PipeEqual
                           || op == OO_AmpEqual || op == OO_CaretEqual
                           || op == OO_LessLessEqual
                           || op == OO_GreaterGreaterEqual
                           || op == OO_PlusPlus || op == OO_MinusMinus;
                if (asg && oc->getNumArgs() >= 1)
                {
                    ev.push_back(o.done());
                    writeEvent(ev, oc->getArg(0),
                               oc->getNumArgs() > 1 ? oc->getArg(1) : nullptr,
                               "opassign", s,
                               getOperatorSpelling(op));
                    return;
                }
            }
            ev.push_back(o.done());
            return;
        }
    }

    // Compact description of a branch condition: negation parity and, for a
    // comparison, the operator and both operand texts/refs.
    void condShape(Stmt const* cond, JObj& c)
    {
        Expr const* e = dyn_cast<Expr>(cond);
        int neg = 0;
        bool descended = false;
        while (e)
        {
            Expr const* n = strip(e);
            if (auto* uo = dyn_cast<UnaryOperator>(n))
            {
                if (uo->getOpcode() == UO_LNot)
                {
                    ++neg;
                    e = uo->getSubExpr();
                    continue;
                }
            }
            if (auto* ce = dyn_cast<CallExpr>(n))
            {
                if (auto* fd = ce->getDirectCallee())
                {
                    if (fd->getBuiltinID() != 0 && ce->getNumArgs() >= 1
                        && fd->getNameAsString() == "__builtin_expect")
                    {
                        e = ce->getArg(0);
                        continue;
                    }
                }
            }
            // short-circuit operators: the branch in this block is decided
            // by the right-most operand (the others have their own blocks)
            if (auto* lb = dyn_cast<BinaryOperator>(n))
            {
                if (lb->getOpcode() == BO_LAnd || lb->getOpcode() == BO_LOr)
                {
                    descended = true;
                    e = lb->getRHS();
                    continue;
                }
            }
            // implicit bool conversion through operator bool
            if (auto* mc = dyn_cast<CXXMemberCallExpr>(n))
            {
                if (auto* cv = dyn_cast_or_null<CXXConversionDecl>(
                        mc->getMethodDecl()))
                {
                    (void)cv;
                    c.str("conv", patName(mc->getMethodDecl()));
                    e = mc->getImplicitObjectArgument();
                    continue;
                }
            }
            if (n == e)
                break;
            e = n;
        }
        c.num("neg", neg % 2);
        if (!e)
            return;
        c.str("core", text(e, 200));
        if (descended)
        {
            // refs/calls of the deciding operand only
            std::set<std::string> er, ec;
            collectRefs(e, er, ec);
            c.raw("erefs", jstrlist(std::vector<std::string>(er.begin(), er.end())));
            c.raw("ecalls", jstrlist(std::vector<std::string>(ec.begin(), ec.end())));
        }
        if (auto* bo = dyn_cast<BinaryOperator>(e))
        {
            c.str("op", bo->getOpcodeStr());
            c.str("l", text(bo->getLHS(), 160));
            c.str("r", text(bo->getRHS(), 160));
            Expr const* rs = strip(bo->getRHS());
            Expr const* ls = strip(bo->getLHS());
            if (isa_and_nonnull<CXXNullPtrLiteralExpr>(rs)
                || isa_and_nonnull<GNUNullExpr>(rs))
                c.str("rlit", "nullptr");
            if (isa_and_nonnull<CXXNullPtrLiteralExpr>(ls))
                c.str("llit", "nullptr");
            if (auto* dr = dyn_cast_or_null<DeclRefExpr>(rs))
                if (auto* ec = dyn_cast<EnumConstantDecl>(dr->getDecl()))
                    c.str("renum", patName(ec));
            if (auto* dr = dyn_cast_or_null<DeclRefExpr>(ls))
                if (auto* ec = dyn_cast<EnumConstantDecl>(dr->getDecl()))
                    c.str("lenum", patName(ec));
            if (auto* il = dyn_cast_or_null<IntegerLiteral>(rs))
                c.str("rlit", llvm::toString(il->getValue(), 10, false));
            if (auto* fl = dyn_cast_or_null<FloatingLiteral>(rs))
            {
                llvm::SmallString<32> b;
                fl->getValue().toString(b);
                c.str("rlit", b.str());
            }
            std::set<std::string> lr, lc, rr, rc;
            collectRefs(bo->getLHS(), lr, lc);
            collectRefs(bo->getRHS(), rr, rc);
            c.raw("lrefs", jstrlist(std::vector<std::string>(lr.begin(), lr.end())));
            c.raw("rrefs", jstrlist(std::vector<std::string>(rr.begin(), rr.end())));
            c.raw("lcalls", jstrlist(std::vector<std::string>(lc.begin(), lc.end())));
            c.raw("rcalls", jstrlist(std::vector<std::string>(rc.begin(), rc.end())));
        }
        else if (auto* oc = dyn_cast<CXXOperatorCallExpr>(e))
        {
            if (oc->getNumArgs() == 2)
            {
                c.str("op", getOperatorSpelling(oc->getOperator()));
                c.str("l", text(oc->getArg(0), 160));
                c.str("r", text(oc->getArg(1), 160));
                Expr const* rs = strip(oc->getArg(1));
                if (auto* dr = dyn_cast_or_null<DeclRefExpr>(rs))
                    if (auto* ec = dyn_cast<EnumConstantDecl>(dr->getDecl()))
                        c.str("renum", patName(ec));
                std::set<std::string> lr, lc, rr, rc;
                collectRefs(oc->getArg(0), lr, lc);
                collectRefs(oc->getArg(1), rr, rc);
                c.raw("lrefs", jstrlist(std::vector<std::string>(lr.begin(), lr.end())));
                c.raw("rrefs", jstrlist(std::vector<std::string>(rr.begin(), rr.end())));
                c.raw("lcalls", jstrlist(std::vector<std::string>(lc.begin(), lc.end())));
                c.raw("rcalls", jstrlist(std::vector<std::string>(rc.begin(), rc.end())));
            }
        }
        else if (auto* dr = dyn_cast<DeclRefExpr>(e))
        {
            c.str("var", dr->getDecl()->getNameAsString());
            if (dr->getType()->isPointerType())
                c.boolean("ptr", true);
        }
        if (e->getType()->isPointerType())
            c.boolean("ptr", true);
    }

    std::string lambdaName(CXXMethodDecl const* cm)
    {
        // enclosing function + lambda location
        DeclContext const* dc = cm->getParent()->getDeclContext();
        std::string enc = ctxName(dc);
        PresumedLoc p = sm.getPresumedLoc(sm.getFileLoc(cm->getBeginLoc()));
        std::string l = p.isValid() ? std::to_string(p.getLine()) + "_"
                                          + std::to_string(p.getColumn())
                                    : "?";
        return enc + "::(lambda@" + l + ")";
    }

    //-----------------------------------------------------------------------//
    // Functions
    //-----------------------------------------------------------------------//
    std::string sigOf(FunctionDecl const* fd)
    {
        std::string s = "(";
        bool first = true;
        for (auto* p : fd->parameters())
        {
            if (!first)
                s += ",";
            first = false;
            s += typeStr(p->getType().getCanonicalType(), ctx);
        }
        s += ")";
        if (auto* md = dyn_cast<CXXMethodDecl>(fd))
            if (md->isConst())
                s += "const";
        return s;
    }

    std::string lambdaInst(CXXMethodDecl const* cm)
    {
        DeclContext const* dc = cm->getParent()->getDeclContext();
        while (dc && !isa<FunctionDecl>(dc))
            dc = dc->getParent();
        std::string base = lambdaName(cm);
        if (!dc)
            return base;
        auto* efd = cast<FunctionDecl>(dc);
        std::string encInst;
        if (auto* emd = dyn_cast<CXXMethodDecl>(efd))
            if (emd->getParent()->isLambda())
                encInst = lambdaInst(emd);
        if (encInst.empty())
            encInst = instName(efd);
        auto pos = base.rfind("::(lambda@");
        std::string r
            = encInst + (pos == std::string::npos ? "::(lambda)" : base.substr(pos));
        // generic lambda: distinguish the instantiations of operator()
        if (auto* ta = cm->getTemplateSpecializationArgs())
        {
            r += "<";
            PrintingPolicy pp(ctx.getLangOpts());
            for (unsigned i = 0; i < ta->size(); ++i)
            {
                if (i)
                    r += ",";
                std::string a;
                llvm::raw_string_ostream os(a);
                ta->get(i).print(pp, os, true);
                r += os.str();
            }
            r += ">";
        }
        return r;
    }

    std::string instName(FunctionDecl const* fd)
    {
        std::string full = fd->getQualifiedNameAsString();
        if (auto* ta = fd->getTemplateSpecializationArgs())
        {
            full += "<";
            PrintingPolicy pp(ctx.getLangOpts());
            for (unsigned i = 0; i < ta->size(); ++i)
            {
                if (i)
                    full += ",";
                std::string a;
                llvm::raw_string_ostream os(a);
                ta->get(i).print(pp, os, true);
                full += os.str();
            }
            full += ">";
        }
        return full;
    }

    void handleFunction(FunctionDecl const* fd)
    {
        if (!fd->doesThisDeclarationHaveABody())
            return;
        if (fd->isDependentContext())
            return;
        if (fd->isDefaulted() || fd->isDeleted())
            return;
        if (!inRepo(fd->getLocation()))
            return;
        Stmt const* body = fd->getBody();
        if (!body)
            return;

        std::string name = patName(fd);
        bool isLambda = false;
        if (auto* md = dyn_cast<CXXMethodDecl>(fd))
            if (md->getParent()->isLambda())
            {
                name = lambdaName(md);
                isLambda = true;
            }
        std::string inst = instName(fd);
        if (isLambda)
            inst = lambdaInst(cast<CXXMethodDecl>(fd));
        std::string loc = locStr(fd->getLocation());
        std::string key = name + "|" + inst + "|" + loc;
        if (!seenFuncs.insert(key).second)
            return;

        JObj f;
        f.str("name", name);
        if (inst != name)
            f.str("inst", inst);
        f.str("loc", loc);
        f.str("sig", sigOf(fd));
        f.str("end", locStr(fd->getEndLoc()));
        f.str("ret", typeStr(fd->getReturnType(), ctx));
        {
            std::vector<std::string> ps;
            for (auto* p : fd->parameters())
            {
                JObj po;
                po.str("n", p->getNameAsString());
                po.str("ty", typeStr(p->getType(), ctx));
                po.str("cty", typeStr(p->getType().getCanonicalType(), ctx));
                ps.push_back(po.done());
            }
            f.raw("params", jlist(ps));
        }
        if (auto* md = dyn_cast<CXXMethodDecl>(fd))
        {
            f.str("cls", patName(md->getParent()));
            f.boolean("const", md->isConst());
            f.boolean("static", md->isStatic());
            if (md->isVirtual())
            {
                f.boolean("virtual", true);
                std::vector<std::string> ov;
                for (auto* o : md->overridden_methods())
                    ov.push_back(o->getQualifiedNameAsString() + sigOf(o));
                f.raw("overrides", jstrlist(ov));
            }
            if (isa<CXXConstructorDecl>(md))
                f.boolean("ctor", true);
        }
        f.boolean("tmpl", fd->isTemplateInstantiation()
                              || (isa<CXXMethodDecl>(fd)
                                  && isa<ClassTemplateSpecializationDecl>(
                                      cast<CXXMethodDecl>(fd)->getParent())));
        if (isLambda)
            f.boolean("lambda", true);

        // CFG
        stmtIds.clear();
        CFG::BuildOptions bo;
        bo.setAllAlwaysAdd();
        bo.AddInitializers = true;
        bo.AddImplicitDtors = false;
        bo.AddEHEdges = false;
        bo.PruneTriviallyFalseEdges = true;
        std::unique_ptr<CFG> cfg
            = CFG::buildCFG(fd, const_cast<Stmt*>(body), &ctx, bo);
        std::vector<std::string> blocks;
        if (cfg)
        {
            f.num("entry", cfg->getEntry().getBlockID());
            f.num("exit", cfg->getExit().getBlockID());
            for (CFGBlock const* b : *cfg)
            {
                JObj jb;
                jb.num("id", b->getBlockID());
                std::vector<std::string> ev;
                for (auto const& el : *b)
                {
                    if (auto cs = el.getAs<CFGStmt>())
                    {
                        stmtEvents(cs->getStmt(), ev);
                    }
                    else if (auto ci = el.getAs<CFGInitializer>())
                    {
                        CXXCtorInitializer const* init = ci->getInitializer();
                        if (init->isAnyMemberInitializer() && init->isWritten())
                        {
                            JObj o;
                            o.str("e", "write");
                            o.str("kind", "ctorinit");
                            o.str("loc", locStr(init->getSourceLocation()));
                            JObj p;
                            p.str("root", "this");
                            p.raw("chain",
                                  jstrlist({"f:" + patName(init->getAnyMember())}));
                            o.raw("path", p.done());
                            o.str("rhs", text(init->getInit(), 160));
                            ev.push_back(o.done());
                        }
                    }
                }
                jb.raw("ev", jlist(ev));
                // successors (null for pruned)
                std::vector<std::string> succ;
                for (auto it = b->succ_begin(); it != b->succ_end(); ++it)
                {
                    CFGBlock const* r = it->getReachableBlock();
                    succ.push_back(r ? std::to_string(r->getBlockID())
                                     : std::string("null"));
                }
                jb.raw("succ", jlist(succ));
                if (Stmt const* term = b->getTerminatorStmt())
                {
                    jb.str("tk", term->getStmtClassName());
                    if (auto* bop = dyn_cast<BinaryOperator>(term))
                        jb.str("top", bop->getOpcodeStr());
                    jb.str("tloc", locStr(term->getBeginLoc()));
                    std::string mac = macroOf(term->getBeginLoc());
                    if (!mac.empty())
                        jb.str("tmacro", mac);
                    if (Stmt const* cond = b->getTerminatorCondition())
                    {
                        JObj c;
                        c.str("t", text(cond, 300));
                        std::set<std::string> refs, calls;
                        collectRefs(cond, refs, calls);
                        c.raw("refs",
                              jstrlist(std::vector<std::string>(refs.begin(),
                                                                refs.end())));
                        c.raw("calls",
                              jstrlist(std::vector<std::string>(calls.begin(),
                                                                calls.end())));
                        condShape(cond, c);
                        jb.raw("cond", c.done());
                    }
                }
                if (Stmt const* lab = b->getLabel())
                {
                    if (auto* cs = dyn_cast<CaseStmt>(lab))
                    {
                        std::string t = text(cs->getLHS(), 100);
                        Expr const* l = strip(cs->getLHS());
                        if (auto* ce = dyn_cast_or_null<ConstantExpr>(l))
                            l = strip(ce->getSubExpr());
                        if (auto* dr = dyn_cast_or_null<DeclRefExpr>(l))
                            t = patName(dr->getDecl());
                        jb.str("label", "case:" + t);
                    }
                    else if (isa<DefaultStmt>(lab))
                        jb.str("label", "default");
                }
                if (b->hasNoReturnElement())
                    jb.boolean("noreturn", true);
                blocks.push_back(jb.done());
            }
        }
        f.raw("blocks", jlist(blocks));

        // flat read set (fields read anywhere in the body)
        {
            std::set<std::string> reads;
            collectFieldReads(body, reads);
            f.raw("reads",
                  jstrlist(std::vector<std::string>(reads.begin(), reads.end())));
        }
        // string literals used in body (JSON keys etc.)
        {
            std::vector<std::string> strs;
            collectStrings(body, strs, 0);
            if (!strs.empty())
                f.raw("strs", jlist(strs));
        }
        // switches
        {
            std::vector<std::string> sw;
            collectSwitches(body, sw, 0);
            if (!sw.empty())
                f.raw("switches", jlist(sw));
        }
        if (astre && (astre->match(name) || astre->match(inst)))
        {
            f.raw("ast", astJson(body));
            // constructor member initialisers: [{"member": name, "init": ast}]
            if (auto* cd = dyn_cast<CXXConstructorDecl>(fd))
            {
                std::vector<std::string> inits;
                for (auto const* ci : cd->inits())
                {
                    if (!ci->isWritten() || !ci->getInit())
                        continue;
                    std::string m = ci->isAnyMemberInitializer() && ci->getAnyMember()
                                        ? ci->getAnyMember()->getNameAsString()
                                        : std::string("<base>");
                    inits.push_back("{\"member\":" + jstr(m) + ",\"init\":"
                                    + astJson(ci->getInit()) + "}");
                }
                if (!inits.empty())
                    f.raw("inits", jlist(inits));
            }
        }
        funcs.push_back(f.done());
    }

    void collectFieldReads(Stmt const* s, std::set<std::string>& out,
                           int depth = 0)
    {
        if (!s || depth > 60)
            return;
        if (auto* me = dyn_cast<MemberExpr>(s))
            if (isa<FieldDecl>(me->getMemberDecl()))
                out.insert(patName(me->getMemberDecl()));
        if (auto* le = dyn_cast<LambdaExpr>(s))
        {
            (void)le;
            return;
        }
        for (Stmt const* c : s->children())
            collectFieldReads(c, out, depth + 1);
    }

    void collectStrings(Stmt const* s, std::vector<std::string>& out,
                        int depth)
    {
        if (!s || depth > 60)
            return;
        if (auto* sl = dyn_cast<StringLiteral>(s))
        {
            if ((sl->isAscii() || sl->isUTF8()) && sl->getLength() < 64)
            {
                // context: parent kind
                JObj o;
                o.str("s", sl->getString());
                o.str("loc", locStr(sl->getBeginLoc()));
                auto parents = ctx.getParents(*s);
                std::string pk;
                Stmt const* cur = s;
                for (int i = 0; i < 6 && cur; ++i)
                {
                    auto ps = ctx.getParents(*cur);
                    if (ps.empty())
                        break;
                    Stmt const* p = ps[0].get<Stmt>();
                    if (!p)
                        break;
                    if (auto* pe = dyn_cast<Expr>(p))
                    {
                        if (auto* fd = calleeOf(pe))
                        {
                            pk = patName(fd);
                            break;
                        }
                    }
                    cur = p;
                }
                if (!pk.empty())
                    o.str("ctx", pk);
                out.push_back(o.done());
            }
        }
        if (isa<LambdaExpr>(s))
            return;
        for (Stmt const* c : s->children())
            collectStrings(c, out, depth + 1);
    }

    void collectSwitches(Stmt const* s, std::vector<std::string>& out,
                         int depth)
    {
        if (!s || depth > 60)
            return;
        if (auto* sw = dyn_cast<SwitchStmt>(s))
        {
            JObj o;
            o.str("loc", locStr(sw->getBeginLoc()));
            Expr const* c = sw->getCond();
            if (c)
            {
                o.str("cond", text(c, 120));
                o.str("ty",
                      typeStr(c->IgnoreParenImpCasts()->getType().getCanonicalType(),
                              ctx));
            }
            std::vector<std::string> cases;
            bool hasDefault = false;
            std::string defText;
            for (SwitchCase const* sc = sw->getSwitchCaseList(); sc;
                 sc = sc->getNextSwitchCase())
            {
                if (auto* cs = dyn_cast<CaseStmt>(sc))
                {
                    Expr const* l = strip(cs->getLHS());
                    if (auto* ce = dyn_cast_or_null<ConstantExpr>(l))
                        l = strip(ce->getSubExpr());
                    std::string t = text(cs->getLHS(), 100);
                    if (auto* dr = dyn_cast_or_null<DeclRefExpr>(l))
                        t = patName(dr->getDecl());
                    JObj cj;
                    cj.str("label", t);
                    // first non-case statement text
                    Stmt const* sub = cs->getSubStmt();
                    while (sub && isa<SwitchCase>(sub))
                        sub = cast<SwitchCase>(sub)->getSubStmt();
                    cj.str("body", text(sub, 160));
                    cases.push_back(cj.done());
                }
                else if (auto* dfl = dyn_cast<DefaultStmt>(sc))
                {
                    hasDefault = true;
                    defText = text(dfl->getSubStmt(), 160);
                }
            }
            o.raw("cases", jlist(cases));
            o.boolean("default", hasDefault);
            if (hasDefault)
                o.str("defbody", defText);
            out.push_back(o.done());
        }
        if (isa<LambdaExpr>(s))
            return;
        for (Stmt const* c : s->children())
            collectSwitches(c, out, depth + 1);
    }

    //-----------------------------------------------------------------------//
    // Records, enums, globals
    //-----------------------------------------------------------------------//
    void handleRecord(CXXRecordDecl const* rd)
    {
        if (!rd->isThisDeclarationADefinition())
            return;
        if (rd->isLambda())
            return;
        if (!inRepo(rd->getLocation()))
            return;
        if (isa<ClassTemplateSpecializationDecl>(rd)
            && !isa<ClassTemplatePartialSpecializationDecl>(rd))
        {
            // instantiations share the pattern's member list; only record
            // explicit specializations
            auto* sp = cast<ClassTemplateSpecializationDecl>(rd);
            if (sp->getSpecializationKind() != TSK_ExplicitSpecialization)
                return;
        }
        std::string name = patName(rd);
        std::string key = name + "|" + locStr(rd->getLocation());
        if (!seenRecords.insert(key).second)
            return;
        JObj o;
        o.str("name", name);
        o.str("loc", locStr(rd->getLocation()));
        o.boolean("template", rd->getDescribedClassTemplate() != nullptr
                                  || isa<ClassTemplateSpecializationDecl>(rd));
        std::vector<std::string> fields, bases, methods;
        for (auto* d : rd->decls())
        {
            if (auto* fdl = dyn_cast<FieldDecl>(d))
            {
                JObj f;
                f.str("n", fdl->getNameAsString());
                f.str("ty", typeStr(fdl->getType(), ctx));
                f.boolean("mutable", fdl->isMutable());
                f.str("loc", locStr(fdl->getLocation()));
                f.str("access", fdl->getAccess() == AS_public      ? "public"
                                : fdl->getAccess() == AS_protected ? "protected"
                                                                   : "private");
                f.boolean("hasinit", fdl->hasInClassInitializer());
                if (fdl->hasInClassInitializer() && fdl->getInClassInitializer())
                    f.str("init", text(fdl->getInClassInitializer(), 80));
                fields.push_back(f.done());
            }
            else if (auto* vd = dyn_cast<VarDecl>(d))
            {
                handleGlobal(vd);
            }
            else if (auto* md = dyn_cast<CXXMethodDecl>(d))
            {
                if (md->isImplicit())
                    continue;
                JObj m;
                m.str("n", md->getDeclName().getAsString());
                m.boolean("const", md->isConst());
                m.boolean("virtual", md->isVirtual());
                m.boolean("static", md->isStatic());
                m.str("ret", typeStr(md->getReturnType(), ctx));
                {
                    std::vector<std::string> ps;
                    for (auto* p : md->parameters())
                        ps.push_back(jstr(typeStr(p->getType(), ctx)));
                    m.raw("ptypes", jlist(ps));
                }
                methods.push_back(m.done());
            }
            else if (auto* ft = dyn_cast<FunctionTemplateDecl>(d))
            {
                if (auto* md = dyn_cast<CXXMethodDecl>(ft->getTemplatedDecl()))
                {
                    JObj m;
                    m.str("n", md->getDeclName().getAsString());
                    m.boolean("const", md->isConst());
                    m.boolean("template", true);
                    std::vector<std::string> ps;
                    for (auto* p : md->parameters())
                        ps.push_back(jstr(typeStr(p->getType(), ctx)));
                    m.raw("ptypes", jlist(ps));
                    methods.push_back(m.done());
                }
            }
        }
        if (rd->getNumBases() && !rd->isDependentType())
        {
            for (auto const& b : rd->bases())
            {
                if (auto* brd = b.getType()->getAsCXXRecordDecl())
                    bases.push_back(jstr(patName(brd)));
            }
        }
        o.raw("fields", jlist(fields));
        o.raw("bases", jlist(bases));
        o.raw("methods", jlist(methods));
        records.push_back(o.done());
    }

    void handleEnum(EnumDecl const* ed)
    {
        if (!ed->isThisDeclarationADefinition())
            return;
        if (!inRepo(ed->getLocation()))
            return;
        std::string name = patName(ed);
        if (!seenEnums.insert(name).second)
            return;
        JObj o;
        o.str("name", name);
        o.str("loc", locStr(ed->getLocation()));
        std::vector<std::string> es;
        for (auto* ec : ed->enumerators())
        {
            JObj e;
            e.str("n", ec->getNameAsString());
            e.str("v", llvm::toString(ec->getInitVal(), 10));
            es.push_back(e.done());
        }
        o.raw("enumerators", jlist(es));
        enums.push_back(o.done());
    }

    void handleGlobal(VarDecl const* vd)
    {
        if (!vd->hasGlobalStorage())
            return;
        if (isa<ParmVarDecl>(vd))
            return;
        if (!inRepo(vd->getLocation()))
            return;
        if (vd->getDeclContext()->isDependentContext())
            return;
        std::string name = patName(vd);
        std::string key = name + "|" + locStr(vd->getLocation());
        if (!seenGlobals.insert(key).second)
            return;
        JObj o;
        o.str("name", name);
        o.str("loc", locStr(vd->getLocation()));
        o.str("ty", typeStr(vd->getType(), ctx));
        o.boolean("const", vd->getType().isConstQualified());
        o.boolean("constexpr", vd->isConstexpr());
        o.boolean("local", vd->isStaticLocal());
        o.boolean("tls", vd->getTLSKind() != VarDecl::TLS_None);
        o.boolean("member", vd->isStaticDataMember());
        o.boolean("def", vd->isThisDeclarationADefinition()
                             != VarDecl::DeclarationOnly);
        if (vd->isStaticLocal())
        {
            DeclContext const* dc = vd->getDeclContext();
            while (dc && !isa<FunctionDecl>(dc))
                dc = dc->getParent();
            if (dc)
                o.str("func", patName(cast<FunctionDecl>(dc)));
        }
        globals.push_back(o.done());
    }
};

std::vector<std::string> Extractor::funcs, Extractor::records, Extractor::enums,
    Extractor::globals, Extractor::units;
std::set<std::string> Extractor::seenFuncs, Extractor::seenRecords,
    Extractor::seenEnums, Extractor::seenGlobals, Extractor::deps;

//---------------------------------------------------------------------------//
class Visitor : public RecursiveASTVisitor<Visitor>
{
  public:
    explicit Visitor(Extractor& e) : ex(e) {}
    bool shouldVisitTemplateInstantiations() const
    {
        return true;
    }
    bool shouldVisitImplicitCode() const
    {
        return false;
    }
    bool shouldVisitLambdaBody() const
    {
        return true;
    }
    bool VisitFunctionDecl(FunctionDecl* fd)
    {
        ex.handleFunction(fd);
        return true;
    }
    bool VisitLambdaExpr(LambdaExpr* le)
    {
        if (auto* cm = le->getCallOperator())
            ex.handleFunction(cm);
        // generic lambdas: the instantiations of the call operator template
        // are not reached by the default traversal
        if (auto* cls = le->getLambdaClass())
        {
            for (auto* d : cls->decls())
            {
                if (auto* ft = dyn_cast<FunctionTemplateDecl>(d))
                {
                    for (auto* spec : ft->specializations())
                    {
                        if (spec->doesThisDeclarationHaveABody())
                            TraverseDecl(spec);
                    }
                }
            }
        }
        return true;
    }
    bool VisitCXXRecordDecl(CXXRecordDecl* rd)
    {
        ex.handleRecord(rd);
        return true;
    }
    bool VisitEnumDecl(EnumDecl* ed)
    {
        ex.handleEnum(ed);
        return true;
    }
    bool VisitVarDecl(VarDecl* vd)
    {
        ex.handleGlobal(vd);
        return true;
    }

  private:
    Extractor& ex;
};


class Consumer : public ASTConsumer
{
  public:
    Consumer(std::string f) : file(std::move(f)) {}
    void HandleTranslationUnit(ASTContext& ctx) override
    {
        Extractor ex(ctx);
        Visitor v(ex);
        v.TraverseDecl(ctx.getTranslationUnitDecl());

        SourceManager& sm = ctx.getSourceManager();
        for (auto it = sm.fileinfo_begin(); it != sm.fileinfo_end(); ++it)
        {
            std::string n = ex.normFile(it->first->getName().str());
            if (n.compare(0, ex.root.size(), ex.root) == 0)
                Extractor::deps.insert(n);
        }
        JObj u;
        u.str("file", file);
        u.boolean("errors", ctx.getDiagnostics().hasErrorOccurred());
        Extractor::units.push_back(u.done());
    }

  private:
    std::string file;
};

class Action : public ASTFrontendAction
{
  public:
    std::unique_ptr<ASTConsumer>
    CreateASTConsumer(CompilerInstance&, llvm::StringRef file) override
    {
        return std::make_unique<Consumer>(file.str());
    }
};

int main(int argc, char const** argv)
{
    auto ep = CommonOptionsParser::create(argc, argv, Cat);
    if (!ep)
    {
        llvm::errs() << ep.takeError();
        return 2;
    }
    CommonOptionsParser& op = ep.get();
    ClangTool tool(op.getCompilations(), op.getSourcePathList());
    int rc = tool.run(newFrontendActionFactory<Action>().get());
    std::string out = OutFile;
    std::string tmp = out + ".tmp" + std::to_string(::getpid());
    std::error_code ec;
    {
        llvm::raw_fd_ostream os(tmp, ec);
        if (ec)
        {
            llvm::errs() << "cannot write " << tmp << "\n";
            return 2;
        }
        std::vector<std::string> deps;
        for (auto& d : Extractor::deps)
            deps.push_back(jstr(d));
        os << "{\"units\":" << jlist(Extractor::units) << ",\n";
        os << "\"rc\":" << rc << ",\n";
        os << "\"deps\":" << jlist(deps) << ",\n";
        os << "\"records\":" << jlist(Extractor::records) << ",\n";
        os << "\"enums\":" << jlist(Extractor::enums) << ",\n";
        os << "\"globals\":" << jlist(Extractor::globals) << ",\n";
        os << "\"funcs\":[\n";
        for (size_t i = 0; i < Extractor::funcs.size(); ++i)
        {
            if (i)
                os << ",\n";
            os << Extractor::funcs[i];
        }
        os << "]}\n";
    }
    llvm::sys::fs::rename(tmp, out);
    return rc;
}
