#!/usr/bin/env python3
"""usage: archive.py <id> <PROP> <demo files comma> <needs> <caught_by> <missed_before:0|1> [check_with comma]"""
import sys, os, shutil, json, glob
sid, prop, demos, needs, caught, missed = sys.argv[1:7]
check_with = sys.argv[7].split(",") if len(sys.argv) > 7 else [prop]
src = "/tmp/seed/%s/out" % sid
dst = "/verif/seeded/%s" % sid
os.makedirs(dst, exist_ok=True)
for f in glob.glob(src + "/*"):
    if os.path.isfile(f) and os.path.getsize(f) < 400000:
        shutil.copy(f, dst)
v = open(src + "/verify.log").read()
meta = {
 "id": sid, "property": prop,
 "origin": "independent sub-agent given only the property text and a scratch worktree (no access to /verif)",
 "needs_to_manifest": needs,
 "patch": "patch.diff (apply with: git -C /repo apply /verif/seeded/%s/patch.diff; undo with git -C /repo checkout -- .)" % sid,
 "demonstration": demos.split(","),
 "confirmed_by_me": {
   "how": "/tmp/seed/verify.sh %s in the scratch worktree: incremental ninja build with the patch, full ctest, demo alone; patch reverted, rebuilt, demo alone (see verify.log)" % sid,
   "with_patch": "builds (only the baseline GeantVolumeMapper object fails); full ctest: only the 2 baseline MpiCommunicator failures + the new demo test FAILS",
   "without_patch": "demo test PASSES"},
 "caught_by": caught.split(";"),
 "check_with": check_with,
 "round": 5,
 "missed_before_strengthening": missed == "1",
}
assert "tests passed" in v and "reverted" in v
json.dump(meta, open(dst + "/meta.json", "w"), indent=1)
print("archived", sid, os.listdir(dst))
