#!/bin/bash
# usage: mkwt.sh <name> [jobs]  -- scratch worktree of /repo HEAD with a ccache-backed build
set -e
N=$1; J=${2:-16}
export CCACHE_DIR=/tmp/seed/ccache CCACHE_BASEDIR=/tmp/seed CCACHE_NOHASHDIR=1 CCACHE_MAXSIZE=20G
git -C /repo worktree add --detach /tmp/seed/$N HEAD >/dev/null 2>&1
cd /tmp/seed/$N
cmake -G Ninja -B _build -DCMAKE_BUILD_TYPE=RelWithDebInfo -DCMAKE_CXX_FLAGS=-Wno-error -DBUILD_SHARED_LIBS=ON \
  -DCELERITAS_BUILD_TESTS=ON -DCELERITAS_USE_MPI=ON -DCELERITAS_USE_PNG=ON -DCELERITAS_USE_ROOT=OFF -DCELERITAS_USE_CUDA=OFF -DCELERITAS_USE_HIP=OFF \
  -DCELERITAS_DEBUG=OFF -DCMAKE_CXX_COMPILER_LAUNCHER=ccache > _cfg.log 2>&1
/usr/bin/time -f "build $N %es" ninja -C _build -j$J -k0 > _build.log 2>&1 || true
tail -3 _build.log
