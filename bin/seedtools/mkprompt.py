#!/usr/bin/env python3
import json,sys
pid, wt, avoid = sys.argv[1], sys.argv[2], sys.argv[3:]
props={json.loads(l)['id']:json.loads(l) for l in open('/verif/properties.jsonl')}
p=props[pid]
txt=f"""You are helping to test a verification tool-chain for the open-source project celeritas-project/celeritas (GPU/CPU Monte Carlo particle transport). Your job is to act as a *realistic bug injector*.

You have your own scratch git worktree of the repository at {wt} (already configured and fully built in {wt}/_build with Ninja; the build uses ccache). Work ONLY inside {wt}. Never read or write anything under /verif and never touch /repo itself (it is the pristine original; other people are using it). Do not look at other directories under /tmp/seed either.

## The property

Below is one semantic property that the code base is supposed to satisfy (JSON):

```json
{json.dumps(p, indent=1)}
```

## What to deliver

Produce ONE change to the library sources (under {wt}/src or {wt}/app) that BREAKS this property while
 1. still compiling (the whole build: `ninja -C {wt}/_build -j6`),
 2. leaving the *existing* test-suite green: `ctest --test-dir {wt}/_build -j6 --timeout 900` must show no new failures (two tests, corecel/sys/MpiCommunicator/2 and /16, fail already on the pristine tree; ignore those; do not edit any existing test or gold value),
 3. looking like something a maintainer could plausibly commit (a refactoring, "optimisation", tidy-up, "fix", feature) - not an obviously hostile edit, and with no comment that gives it away,
 4. needing something SPECIFIC to manifest: a particular interleaving, a fault or exhaustion at a particular point, a multi-step sequence of operations, an unusual-but-valid input or option combination, or two cooperating edits that each look fine alone. Ordinary use must NOT expose it at once (otherwise the existing tests would catch it).

and a DEMONSTRATION: a new gtest file (added to the appropriate test/…/CMakeLists.txt with celeritas_add_test) or a small standalone program compiled against the worktree's headers/libraries, which FAILS (non-zero exit / failed assertion that clearly shows the property violated) with your change and PASSES without it (after `git apply -R` of your patch and a rebuild).
{('Earlier injected changes for this property already touched these files/mechanisms: ' + '; '.join(avoid) + '. Choose a DIFFERENT mechanism, preferably in different files/functions among the anchors listed in the property (or code they call).') if avoid else ''}

## Practicalities

* Environment for builds (export these in every shell you use): `export CCACHE_DIR=/tmp/seed/ccache CCACHE_BASEDIR=/tmp/seed CCACHE_NOHASHDIR=1`. Use at most `-j6` for ninja and ctest; others share the machine. The sandbox has no network.
* One object file (GeantVolumeMapper or similar Geant4-dependent unit) may fail to build on the pristine tree already; use `ninja -k0` and ignore that one.
* The build has CELERITAS_DEBUG=OFF, so CELER_EXPECT/CELER_ASSERT/CELER_ENSURE are compiled out; CELER_VALIDATE is always on. Real type is double, geometry is ORANGE, RNG is XORWOW, no Geant4/ROOT/VecGeom/CUDA.
* Read the anchor files first, pick the mechanism, make the edit, build, run the full ctest, then write and run the demonstration with and without the change. A full ctest takes a few minutes.
* Put your deliverables in {wt}/out/ :
    - patch.diff : `git -C {wt} diff -- src app > out/patch.diff` (library change ONLY, no test files in it)
    - the demonstration source file(s), plus demo_cmake.diff if you added a line to a test CMakeLists.txt
    - demo_cmd.txt : exact commands to build and run the demonstration with and without the change, and the expected outcome of each
    - README.md : what the change is, which clause of the property it breaks and why, what exactly is needed for it to manifest, why the existing tests do not notice
    - ctest_after.log : tail of the full ctest run with the change
* Leave the worktree with the change APPLIED and the demonstration in place.

Your final message should summarise: the files/functions changed, the mechanism, what is needed to manifest, demonstration result with/without the change, and the ctest result. Be honest if something did not work out.
"""
open(f'/tmp/seed/prompts/{wt.split("/")[-1]}.txt','w').write(txt)
print(len(txt))
