#!/bin/bash
# usage: trywt.sh <patch> <ID>...   : apply to a private scratch worktree and run checks with VERIF_REPO
P=$1; shift
WT=/tmp/seed/chk
[ -d $WT ] || git -C /repo worktree add --detach $WT HEAD >/dev/null 2>&1
git -C $WT checkout -q -- . ; git -C $WT apply "$P" || exit 2
for id in "$@"; do VERIF_REPO=$WT VERIF_EVIDENCE_DIR=/tmp/verif-trywt-ev VERIF_OUT_DIR=/tmp/verif-trywt-out /verif/bin/check $id 2>&1 | grep -v KNOWN | tail -4 | cut -c1-500; done
git -C $WT checkout -q -- .
