#!/bin/bash
# usage: verify.sh <id> <ctest -R regex of the demo test | path of a demo script run as: script with|without>
ID=$1; DEMO=$2; WT=/tmp/seed/$ID
export CCACHE_DIR=/tmp/seed/ccache CCACHE_BASEDIR=/tmp/seed CCACHE_NOHASHDIR=1
cd $WT || exit 2
L=$WT/out/verify.log; : > $L
run_demo() { if [ -x "$DEMO" ] || [ -f "$DEMO" ]; then bash "$DEMO" $1 2>&1 | tail -15; else ctest --test-dir _build -R "$DEMO" 2>&1 | tail -8; fi; }
{
echo "== state: patch applied?"; if git apply -R --check out/patch.diff 2>/dev/null; then echo "patch is applied"; else echo "patch NOT applied - applying"; git apply out/patch.diff || exit 3; fi
echo "== build with patch"; ninja -C _build -j8 -k0 2>&1 | tail -3
echo "== full ctest with patch"; ctest --test-dir _build -j8 --timeout 900 2>&1 | grep -E 'tests passed|\(Failed\)|\(Timeout\)|\(SEGFAULT\)'
echo "== demo with patch"; run_demo with
echo "== revert patch"; git apply -R out/patch.diff && echo reverted
ninja -C _build -j8 -k0 2>&1 | tail -3
echo "== demo without patch"; run_demo without
echo "== re-apply patch"; git apply out/patch.diff && echo reapplied
ninja -C _build -j8 -k0 2>&1 | tail -1
} >> $L 2>&1
echo "verify $ID done"; grep -E '^==|tests passed|Failed|PASS|FAIL' $L | head -40
