"""Functions whose full expression tree is needed by the abstract interpreters
(A1-A4).  One regex for all properties so the fact cache is shared."""
PATTERNS = [
    r"celeritas::XorwowRngEngine::",
    r"celeritas::XorwowRngParamsData::num_(words|bits)",
    r"celeritas::XorwowRngParams::get_jump",
    r"celeritas::detail::GenerateCanonical32",
    r"celeritas::reseed_rng",
    r"celeritas::(Transformation|Translation|NoTransformation)::(transform|rotate)_(up|down)",
    r"celeritas::detail::LogicStack::",
    r"celeritas::detail::(MscStepFromGeo|MscStepToGeo)::operator\(\)",
    r"celeritas::detail::SurfaceTranslator::operator\(\)",
    r"celeritas::detail::SurfaceTransformer::operator\(\)$",
    r"celeritas::detail::ProcessSecondariesExecutor::operator\(\)$",
    r"celeritas::detail::LocateAliveExecutor::operator\(\)",
    r"celeritas::(Transformation|Translation)::(Transformation|Translation|data)$",
    r"celeritas::detail::import_transform$",
    r"celeritas::detail::QuadricPlaneConverter::operator\(\)$",
    r"celeritas::detail::QuadricSphereConverter::operator\(\)$",
    r"celeritas::detail::QuadricCylConverter::operator\(\)$",
    r"celeritas::detail::QuadricConeConverter::operator\(\)$",
]


def regex():
    return "(" + "|".join(PATTERNS) + ")"
