"""Functions whose full expression tree is needed by the abstract interpreters
(A1-A4).  One regex for all properties so the fact cache is shared."""
PATTERNS = [
    r"celeritas::XorwowRngEngine::",
    r"celeritas::XorwowRngParamsData::num_(words|bits)",
    r"celeritas::XorwowRngParams::get_jump",
    r"celeritas::detail::GenerateCanonical32",
    r"celeritas::reseed_rng",
    r"celeritas::(Transformation|Translation|NoTransformation)::(transform|rotate)_(up|down)",
    r"celeritas::detail::LogicStack::",
    r"celeritas::detail::(MscStepFromGeo|MscStepToGeo)::operator\(\)",
    r"celeritas::detail::SurfaceTranslator::operator\(\)",
    r"celeritas::detail::SurfaceTransformer::operator\(\)$",
    r"celeritas::detail::ProcessSecondariesExecutor::operator\(\)$",
    r"celeritas::detail::LocateAliveExecutor::operator\(\)",
    r"celeritas::(Transformation|Translation)::(Transformation|Translation|data)$",
    r"celeritas::detail::import_transform$",
    r"celeritas::detail::QuadricPlaneConverter::operator\(\)$",
    r"celeritas::detail::QuadricSphereConverter::operator\(\)$",
    r"celeritas::detail::QuadricCylConverter::operator\(\)$",
    r"celeritas::detail::QuadricConeConverter::operator\(\)$",
    # C18: device-portable algorithms interpreted over orderings (lib/ordinterp.py)
    r"celeritas::detail::(sift_down|pop_heap|make_heap|sort_heap|partial_sort|heapsort_impl)$",
    r"celeritas::detail::(partition_impl|lower_bound_impl|upper_bound_impl|lower_bound_linear_impl)$",
    r"celeritas::detail::(half_positive|trivial_move)$",
    r"celeritas::(sort|partition|lower_bound|lower_bound_linear|upper_bound|find_sorted|min_element)$",
    r"celeritas::(all_of|any_of|all_adjacent|trivial_swap|move|forward)$",
    r"celeritas::Less::operator\(\)$",
    r"celeritas::orangeinp::detail::(\(anonymous namespace\)::)?calc_(intersection|union|difference)$",
    r"celeritas::orangeinp::detail::BoundingZone::(negate|from_infinite)$",
    # C15: unit-vector identities (lib/polyinterp.py + relations) and sampler shapes
    r"celeritas::(from_spherical|make_unit_vector|norm)$",
    r"celeritas::(IsotropicDistribution|UniformBoxDistribution|UniformRealDistribution)::",
    r"celeritas::SurfaceClipper::operator\(\)",
    r"celeritas::Interpolator::(Interpolator|operator\(\))$",
    r"celeritas::detail::InterpolatorTraits::",
    # C12.7-ray-consistency: sense function / ray equation / gradient of the quadric surfaces
    r"celeritas::(PlaneAligned|Plane|SphereCentered|Sphere|CylCentered|CylAligned|ConeAligned|SimpleQuadric|GeneralQuadric)::calc_(sense|intersections|normal)$",
    # ... and every other method of these classes (private helpers the three methods may call)
    r"celeritas::(PlaneAligned|Plane|SphereCentered|Sphere|CylCentered|CylAligned|ConeAligned|SimpleQuadric|GeneralQuadric)(<[^>]*>)?::",
]


def regex():
    return "(" + "|".join(PATTERNS) + ")"
