"""Rule groups shared by several properties (C02/C04/C06/C16)."""
import re
from common import C, short, local_refs, field_writers, check_owners
from cfg import path_leaf

ALLOC = C + "StackAllocator::operator()"
FAIL = C + "Interaction::from_failure"


def _null_branches(f, var):
    """[(branch block, succ index taken when var is null)]"""
    out = []
    for bid, b in f.blocks.items():
        c = b.get("cond")
        if not c or len(b["succ"]) != 2:
            continue
        neg = c.get("neg", 0)
        null_when_core_true = None
        if c.get("op") in ("==", "!=") and (c.get("rlit") == "nullptr" or c.get("llit") == "nullptr"):
            refs = local_refs(c.get("lrefs", []) + c.get("rrefs", []))
            if refs == {var}:
                null_when_core_true = (c["op"] == "==")
        elif c.get("var") == var and c.get("ptr"):
            null_when_core_true = False
        elif local_refs(c.get("refs", [])) == {var} and c.get("ptr") and "op" not in c:
            null_when_core_true = False
        if null_when_core_true is None:
            continue
        # core truth -> edge: succ[0] if (core true) xor neg
        core_true_edge = 0 if not neg else 1
        null_edge = core_true_edge if null_when_core_true else 1 - core_true_edge
        out.append((bid, null_edge))
    return out


def null_discipline(db, cx, rule, min_sites):
    """K6 for every function that calls the secondary allocator and returns
    celeritas::Interaction."""
    sites = 0
    for f in db.all_funcs():
        if "Interaction" not in f.r.get("ret", ""):
            continue
        allocs = [(b, i, ev) for (b, i, ev) in f.calls(ALLOC)]
        if not allocs:
            continue
        for (b, i, ev) in allocs:
            sites += 1
            inst = "%s alloc@%s" % (f.name.split("::")[-2], short(ev["loc"]))
            # the variable that receives the pointer
            var = None
            evs = f.blocks[b]["ev"]
            for j in range(i + 1, min(i + 3, len(evs))):
                if evs[j]["e"] == "def" and ALLOC in evs[j].get("calls", []):
                    var = evs[j].get("var")
                    break
            if var is None:
                cx.ob(rule + "-tested", inst, False,
                      "allocation result is not stored in a local pointer that can be tested",
                      short(ev["loc"]),
                      why="an untested allocation dereferences null when the buffer is full")
                continue
            brs = _null_branches(f, var)
            brs = [(bb, e) for (bb, e) in brs if f.dominates((b, i), (bb, 10 ** 6))]
            ok_tested = bool(brs)
            cx.ob(rule + "-tested", inst, ok_tested,
                  "`%s` is compared with null at %s" % (var, [short(f.blocks[bb].get("tloc", "?"))
                                                             for bb, _e in brs]),
                  short(ev["loc"]),
                  why="an untested allocation dereferences null when the secondary buffer is full")
            if not ok_tested:
                continue
            bb, ne = brs[0]
            tgt = f.blocks[bb]["succ"][ne]
            other = f.blocks[bb]["succ"][1 - ne]
            # (a) null edge: every path returns Interaction::from_failure()
            okp, path = f.must_pass(lambda e: e["e"] == "return" and FAIL in e.get("calls", []),
                                    start=(tgt, -1)) if tgt is not None else (False, None)
            # and no other return can be reached first
            bad_ret = []
            if tgt is not None:
                blocked = [x for x in f.blocks
                           if any(e["e"] == "return" and FAIL in e.get("calls", [])
                                  for e in f.blocks[x]["ev"])]
                reg = f.reach([tgt], blocked_blocks=blocked)
                for x in reg:
                    for e in f.blocks[x]["ev"]:
                        if e["e"] == "return":
                            bad_ret.append(short(e["loc"]))
            cx.ob(rule + "-fails-explicitly", inst, okp and not bad_ret,
                  "null edge -> return Interaction::from_failure() on every path"
                  + (" (other returns reachable first: %s)" % bad_ret if bad_ret else ""),
                  short(f.blocks[bb].get("tloc", ev["loc"])), path=f.path_locs(path),
                  why="a failed allocation must be reported as a failed interaction so that the "
                      "track is left untouched and retried")
            # (b) region exclusive to the null edge: no use of the pointer, no writes
            excl = set()
            if tgt is not None:
                r_null = f.reach([tgt])
                r_ok = f.reach([other]) if other is not None else set()
                excl = r_null - r_ok
            uses = []
            for x in excl:
                for e in f.blocks[x]["ev"]:
                    refs = set(e.get("refs", []))
                    for a in e.get("args", []):
                        refs |= set(a.get("refs", []))
                    if "recv" in e:
                        refs |= set([e["recv"].get("path", {}).get("root", "")[2:]])
                    if var in refs:
                        uses.append(short(e.get("loc", "?")))
                    if e["e"] == "write" and e.get("path", {}).get("root") != "l:result":
                        uses.append("write@" + short(e.get("loc", "?")))
            cx.ob(rule + "-null-edge-clean", inst, not uses,
                  "no use of `%s` and no state write on the failure edge %s" % (var, uses or ""),
                  short(ev["loc"]),
                  why="nothing may be partially emitted or modified when allocation fails")
            # (c) every use of the pointer is dominated by the non-null edge
            bad = []
            nuse = 0
            for x, blk in f.blocks.items():
                for k, e in enumerate(blk["ev"]):
                    if (x, k) == (b, i) or (e["e"] == "def" and e.get("var") == var
                                            and e.get("kind") == "decl"):
                        continue
                    refs = set(e.get("refs", []))
                    for a in e.get("args", []):
                        refs |= set(a.get("refs", []))
                        if "~" + var in (a.get("path") or {}).get("chain", []):
                            refs.add(var)
                    for pr in (e.get("path"), e.get("recv", {}).get("path")):
                        if pr and "~" + var in pr.get("chain", []):
                            refs.add(var)
                    if var not in refs:
                        continue
                    nuse += 1
                    if other is None or not f.guarded_by_edge((x, k), bb, 1 - ne):
                        bad.append(short(e.get("loc", "?")))
            cx.ob(rule + "-deref-guarded", inst, not bad,
                  "%d uses of `%s`, all behind the non-null edge %s" % (nuse, var, bad or ""),
                  short(ev["loc"]),
                  why="dereferencing the result on a path where it may be null corrupts memory")
    cx.floor("interactor allocation sites", sites, min_sites)
    return sites


def failure_arm(db, cx, rule):
    """K2: on result.action == failed the applier only sets a zero step limit
    with the physics failure action."""
    IAPP = C + "InteractionApplierBaseImpl::operator()"
    fs = db.get(IAPP)
    cx.require(fs, "anchor %s not found" % IAPP)
    FORBIDDEN = {
        C + "ParticleTrackView::energy": 1, C + "ParticleTrackView::subtract_energy": 1,
        C + "OrangeTrackView::set_dir": 1, C + "SimTrackView::status": 1,
        C + "PhysicsStepView::deposit_energy": 1, C + "PhysicsStepView::secondaries": 1,
        C + "SimTrackView::add_time": 1, C + "SimTrackView::step_length": 1,
    }
    n = 0
    for f in fs:
        tag = f.inst.split("<")[-1][:50]
        brs = f.branch_blocks(lambda c, b: c.get("renum", "").endswith("Interaction::Action::failed")
                              and c.get("op") in ("==", "!="))
        if not brs:
            cx.require(False, "InteractionApplier no longer tests Action::failed (%s)" % f.inst)
        for br in brs:
            n += 1
            c = f.blocks[br]["cond"]
            e = f.cond_polarity_edge(br, c["op"] == "==")
            tgt = f.blocks[br]["succ"][e]
            other = f.blocks[br]["succ"][1 - e]
            # first event of the function affecting the track must come after the test
            reg = f.reach([tgt]) - (f.reach([other]) if other is not None else set())
            bad = []
            lim = []
            for x in reg:
                for ev in f.blocks[x]["ev"]:
                    if ev["e"] == "call" and ev["callee"] in FORBIDDEN \
                            and len(ev.get("args", [])) >= FORBIDDEN[ev["callee"]]:
                        bad.append("%s@%s" % (ev["callee"].split("::")[-1], short(ev["loc"])))
                    if ev["e"] == "call" and ev["callee"] == C + "SimTrackView::step_limit":
                        lim.append(ev)
                    if ev["e"] == "write" and not ev.get("path", {}).get("root", "").startswith("l:"):
                        bad.append("write@" + short(ev["loc"]))
            ret_ok, path = f.must_pass(lambda ev: ev["e"] == "return", start=(tgt, -1))
            # the failure arm must not fall through into the normal update code
            falls = tgt is not None and other is not None and bool(
                f.reach([tgt]) & set(x for x in f.blocks
                                     if any(ev["e"] == "call" and ev["callee"] in FORBIDDEN
                                            and len(ev.get("args", [])) >= 1
                                            for ev in f.blocks[x]["ev"])))
            cx.ob(rule + "-untouched", "failed arm [%s]" % tag, not bad and not falls,
                  "no energy/direction/status/deposition update is reachable from the failed edge"
                  + (": %s" % bad if bad else ""), short(f.blocks[br].get("tloc", f.loc)),
                  why="a failed interaction must leave the track exactly as it was so it can "
                      "interact again at the same point with unchanged energy")
            zero = False
            for ev in lim:
                t = ev["args"][0]["t"].replace(" ", "") if ev.get("args") else ""
                if re.match(r"^\{0(\.0*)?,", t) and "failure_action" in t:
                    zero = True
            cx.ob(rule + "-zero-step", "failed arm [%s]" % tag, zero and len(lim) == 1,
                  "step_limit(%s)" % [ev["args"][0]["t"] for ev in lim],
                  short(f.blocks[br].get("tloc", f.loc)),
                  why="the retry needs a zero-length step with the failure action; anything else "
                      "moves the particle or loses the interaction")
            # the test precedes every track update
            upd = [(x, k) for x, blk in f.blocks.items() for k, ev in enumerate(blk["ev"])
                   if ev["e"] == "call" and ev["callee"] in FORBIDDEN
                   and len(ev.get("args", [])) >= FORBIDDEN[ev["callee"]]]
            pre = [p for p in upd if not f.guarded_by_edge(p, br, 1 - e)]
            cx.ob(rule + "-test-first", "failed test dominates updates [%s]" % tag, not pre,
                  "%d track updates, all behind the not-failed edge" % len(upd),
                  short(f.blocks[br].get("tloc", f.loc)),
                  why="an update executed before the failure test is applied to failed interactions")
    cx.floor("applier instantiations with failure test", n, 1)


def capacity_validation(db, cx, rule):
    """K3/K1: initializer capacity is validated before the arrays are written."""
    CNT = "F:" + C + "CoreStateCounters::num_initializers"
    INITS = "F:" + C + "TrackInitStateData::initializers"
    # --- secondaries
    name = C + "ExtendFromSecondariesAction::step_impl"
    fs = db.get(name)
    cx.require(fs, "anchor %s not found" % name)
    for f in fs:
        tag = f.inst.split("<")[-1][:40]
        launches = [(b, i, ev) for (b, i, ev) in
                    f.calls(C + "ExtendFromSecondariesAction::process_secondaries")]
        cx.require(launches, "step_impl no longer calls process_secondaries")
        brs = []
        weakened = []
        for bid, blk in f.blocks.items():
            c = blk.get("cond")
            if not c or c.get("op") not in ("<=", "<", ">=", ">"):
                continue
            l, r = set(c.get("lrefs", [])), set(c.get("rrefs", []))
            if c["op"] in (">=", ">"):
                l, r = r, l
            if CNT in l and INITS in r and any(x.endswith("::size") for x in
                                               c.get("rcalls", []) + c.get("lcalls", [])):
                # the bound must not be weakened: the counter itself (nothing subtracted from
                # it) against the array size itself (nothing added to it)
                lt, rt = c.get("l", ""), c.get("r", "")
                lcs, rcs = c.get("lcalls", []), c.get("rcalls", [])
                if c["op"] in (">=", ">"):
                    lt, rt, lcs, rcs = rt, lt, rcs, lcs
                exact = not any(ch in lt for ch in "-/*%?") and not lcs and \
                    not any(ch in rt.replace("->", ".") for ch in "+*-/%?") and \
                    all(x.endswith("::size") for x in rcs)
                if exact:
                    brs.append(bid)
                else:
                    weakened.append(c.get("t", ""))
        ok = False
        why_not = "no comparison of num_initializers with initializers.size()"
        if weakened:
            why_not = "the bound is weakened by arithmetic: `%s`" % weakened[0][:120]
        for br in brs:
            e = f.cond_polarity_edge(br, True)
            fail_tgt = f.blocks[br]["succ"][1 - e]
            throws = fail_tgt is not None and f.must_pass(lambda ev: False, start=(fail_tgt, -1))[0]
            dom = all(f.guarded_by_edge((b, i), br, e) for (b, i, _ev) in launches)
            # the counter is increased before the check
            incs = [(b, i) for (b, i, ev) in f.events("write")
                    if path_leaf(ev.get("path")) == C + "CoreStateCounters::num_initializers"
                    and ev.get("op") == "+="]
            ordered = bool(incs) and all(f.dominates(p, (br, 0)) for p in incs)
            if throws and dom and ordered:
                ok = True
            else:
                why_not = "throwing arm: %s, dominates launch: %s, counter increased first: %s" % (
                    throws, dom, ordered)
        cx.ob(rule, "ExtendFromSecondaries capacity check dominates process_secondaries [%s]" % tag,
              ok, "num_initializers += num_secondaries; validate <= initializers.size(); launch"
              if ok else why_not, short(f.loc),
              why="without the check the executor writes initializers past the end of the array")
    # --- primaries
    name = C + "ExtendFromPrimariesAction::insert"
    fs = db.get(name)
    cx.require(fs, "anchor %s not found" % name)
    PCOUNT = C + "PrimaryStateData::count"

    def capacity_checks(f):
        """(branch, passing edge) of every throwing comparison
        num_initializers + <primaries> <= <initializer capacity> in f."""
        out = []
        prim = [p["n"] for p in f.r["params"] if "Primary" in p["ty"]]
        for bid, blk in f.blocks.items():
            c = blk.get("cond")
            if not c or c.get("op") not in ("<=", "<", ">=", ">"):
                continue
            l, r = c.get("lrefs", []), c.get("rrefs", [])
            lc, rc = c.get("lcalls", []), c.get("rcalls", [])
            if c["op"] in (">=", ">"):
                l, r, lc, rc = r, l, rc, lc

            def origin(names, calls, pos, depth=3):
                out_ = set(names) | set(calls)
                frontier = set(local_refs(names))
                for _ in range(depth):
                    nxt = set()
                    for nme in frontier:
                        for (_b, _i, d) in f.reaching_defs(nme, pos):
                            out_ |= set(d.get("refs", [])) | set(d.get("calls", []))
                            nxt |= set(local_refs(d.get("refs", [])))
                    frontier = nxt - frontier
                return out_
            lo = origin(l, lc, (bid, 10 ** 6))
            ro = origin(r, rc, (bid, 10 ** 6))
            has_prim = any(p in lo for p in prim) or "F:" + PCOUNT in lo
            has_cap = C + "TrackInitParams::capacity" in ro or \
                (INITS in ro and any(x.endswith("::size") for x in ro))
            if CNT in lo and has_prim and has_cap:
                e = f.cond_polarity_edge(bid, True)
                fail_tgt = f.blocks[bid]["succ"][1 - e]
                throws = fail_tgt is not None and \
                    f.must_pass(lambda ev: False, start=(fail_tgt, -1))[0]
                if throws:
                    out.append((bid, e))
        return out

    for f in fs:
        launches = [(b, i, ev) for (b, i, ev) in
                    f.calls(C + "ExtendFromPrimariesAction::insert_impl")]
        cx.require(launches, "insert no longer calls insert_impl")
        checks = capacity_checks(f)
        ok = any(all(f.guarded_by_edge((b, i), br, e) for (b, i, _ev) in launches)
                 for (br, e) in checks)
        detail = "validate primaries.size() + num_initializers <= init capacity; then insert_impl"
        if not ok:
            # the check may live in insert_impl itself: then it has to dominate everything that
            # queues the primaries (the pending count and the copy into the per-stream buffer)
            impls = db.get(C + "ExtendFromPrimariesAction::insert_impl")
            per = []
            for g in impls:
                gchecks = capacity_checks(g)
                sinks = [(b, i, ev) for (b, i, ev) in g.events("write")
                         if path_leaf(ev.get("path")) == PCOUNT]
                sinks += [(b, i, ev) for (b, i, ev) in g.events("call")
                          if ev["callee"].startswith(C + "Copier") and not ev.get("ctor")]
                if not sinks:
                    per.append((False, "insert_impl no longer queues primaries where expected"))
                    continue
                good = any(all(g.guarded_by_edge((b, i), br, e) for (b, i, _ev) in sinks)
                           for (br, e) in gchecks)
                if good:
                    per.append((True, ""))
                elif gchecks:
                    late = [short(ev["loc"]) for (b, i, ev) in sinks
                            if not any(g.guarded_by_edge((b, i), br, e) for (br, e) in gchecks)]
                    per.append((False, "capacity check in insert_impl does not dominate the "
                                "queueing of the primaries at %s" % ", ".join(late)))
                else:
                    per.append((False, "no comparison of primaries + num_initializers with the capacity"))
            ok = bool(per) and all(x[0] for x in per)
            detail = "capacity validated inside insert_impl before anything is queued" if ok else \
                next(x[1] for x in per if not x[0]) if per else "insert_impl not found"
        cx.ob(rule, "ExtendFromPrimaries capacity check dominates the queueing of primaries", ok,
              detail, short(f.loc),
              why="too many primaries would be copied past the initializer capacity, or a "
                  "rejected batch would stay queued for the next step")
    # capacity() is what the initializer array was sized with
    n = 0
    for f in db.get(C + "resize"):
        if not f.r["params"] or "TrackInitStateData" not in f.r["params"][0]["ty"]:
            continue
        for (b, i, ev) in f.calls(C + "resize"):
            a = ev.get("args", [])
            if len(a) >= 2 and a[0].get("path") and \
                    path_leaf(a[0]["path"]) == C + "TrackInitStateData::initializers":
                n += 1
                ok = "F:" + C + "TrackInitParamsData::capacity" in a[1].get("refs", [])
                cx.ob(rule, "initializers array is sized by params.capacity [%s]"
                      % f.inst.split("<")[-1][:30], ok, "resize(&initializers, %s)" % a[1]["t"],
                      short(ev["loc"]),
                      why="the validated bound must be the allocated size")
    cx.floor("TrackInitStateData resize sites", n, 1)


def allocator_success_edge(db, cx, rule):
    """K3/K6 on StackAllocator<T>::operator(): storage is written only on the
    edge where the requested range fits; the failing edge returns nullptr."""
    fs = [f for f in db.get(ALLOC)]
    cx.require(fs, "anchor %s not found" % ALLOC)
    n = 0
    for f in fs:
        tag = f.inst.split("StackAllocator")[-1][:40]
        # capacity test: start + count > storage.size()
        brs = []
        for bid, blk in f.blocks.items():
            c = blk.get("cond")
            if not c or c.get("op") not in (">", ">=", "<", "<="):
                continue
            refs = set(c.get("lrefs", []) + c.get("rrefs", []))
            cap_calls = set(c.get("lcalls", []) + c.get("rcalls", []))
            # the bound is the size of the storage, read directly or through capacity()
            bound = "F:" + C + "StackAllocatorData::storage" in refs or C + "StackAllocator::capacity" in cap_calls
            if bound and f.r["params"][0]["n"] in refs \
                    and "+" in (c.get("l", "") + c.get("r", "")):
                brs.append(bid)
        if not brs:
            cx.ob(rule + "-capacity-test", "StackAllocator%s" % tag, False,
                  "no comparison of start+count with storage.size()", short(f.loc),
                  why="without the capacity test the allocator hands out memory past its buffer")
            continue
        br = brs[0]
        c = f.blocks[br]["cond"]
        # edge taken when the request does NOT fit
        over_when_true = c["op"] in (">", ">=")
        l_is_sum = "+" in c.get("l", "")
        if not l_is_sum:
            over_when_true = not over_when_true
        e_fail = f.cond_polarity_edge(br, over_when_true)
        e_ok = 1 - e_fail
        tgt_fail = f.blocks[br]["succ"][e_fail]
        n += 1
        # placement-new / element writes into storage
        stores = []
        for x, blk in f.blocks.items():
            for k, ev in enumerate(blk["ev"]):
                if ev["e"] == "write" and path_leaf(ev.get("path")) == C + "StackAllocatorData::storage":
                    stores.append((x, k, ev))
        cx.require(stores, "StackAllocator::operator() no longer constructs elements in storage")
        bad = [short(ev["loc"]) for (x, k, ev) in stores
               if not f.guarded_by_edge((x, k), br, e_ok)]
        cx.ob(rule + "-writes-on-success", "StackAllocator%s" % tag, not bad,
              "%d element constructions, all dominated by the fits-in-capacity edge %s"
              % (len(stores), bad or ""), short(f.blocks[br].get("tloc", f.loc)),
              why="constructing elements before the capacity test writes out of bounds exactly "
                  "when the buffer is exhausted")
        okp, path = f.must_pass(lambda ev: ev["e"] == "return" and ev.get("lit") == "nullptr",
                                start=(tgt_fail, -1)) if tgt_fail is not None else (False, None)
        cx.ob(rule + "-null-on-failure", "StackAllocator%s" % tag, okp,
              "over-capacity edge returns nullptr on every path", short(f.loc),
              path=f.path_locs(path),
              why="callers recognise exhaustion only by the null result")
        # the only write on the failing edge is the size restoration under start <= capacity
        reg = f.reach([tgt_fail]) - f.reach([f.blocks[br]["succ"][e_ok]]) if tgt_fail is not None else set()
        wr = []
        for x in reg:
            for k, ev in enumerate(f.blocks[x]["ev"]):
                if ev["e"] == "write":
                    wr.append((x, k, ev))
        ok = True
        d = []
        for (x, k, ev) in wr:
            leaf = path_leaf(ev.get("path"))
            if leaf != C + "StackAllocatorData::size":
                ok = False
                d.append("write to %s" % leaf)
                continue
            g = False
            startv = set(e.get("var") for (_b, _i, e) in f.events("def")
                         if C + "atomic_add" in e.get("calls", []))
            for b2 in f.branch_blocks(lambda cc, _b: cc.get("op") in ("<=", "<")
                                      and bool(startv & set(cc.get("lrefs", [])))
                                      and C + "StackAllocator::capacity" in cc.get("rcalls", [])):
                if f.guarded_by_edge((x, k), b2, f.cond_polarity_edge(b2, True)):
                    g = True
            if not g or not (local_refs(ev.get("refs", [])) <= startv and local_refs(ev.get("refs", []))):
                ok = False
                d.append("size restored unguarded or to a different value (%s)" % ev.get("rhs"))
        cx.ob(rule + "-failure-restores-size", "StackAllocator%s" % tag, ok and len(wr) == 1,
              "failing edge writes only size = start under start <= capacity() %s" % d,
              short(f.loc),
              why="a failed request must leave earlier successful allocations intact and the "
                  "recorded size within capacity")
    cx.floor("StackAllocator::operator() instantiations", n, 1)


def stack_clear(db, cx, rule, eff):
    """K1/W2: the secondary stack is cleared exactly in PreStepExecutor."""
    CLEAR = C + "StackAllocator::clear"
    callers = [(f, ev, "call") for f, ev in db.callers_of(CLEAR)]
    cx.floor("callers of StackAllocator::clear", len(callers), 1)
    step_reach = set()
    for (_cls, _inst), (nodes, _p, _o) in eff.reach.items():
        step_reach |= nodes
    for f, ev, _h in callers:
        in_step = db.node_of(f.r) in step_reach
        ok = (f.name == C + "detail::PreStepExecutor::operator()") or not in_step
        cx.ob(rule, "clear() <- %s" % f.name, ok,
              "step-reachable: %s" % in_step, short(ev["loc"]),
              why="clearing the secondary stack after pre-step drops secondaries that are "
                  "still waiting to become tracks")
    pre = db.get(C + "detail::PreStepExecutor::operator()")
    cx.require(pre, "anchor PreStepExecutor not found")
    for f in pre:
        cl = list(f.calls(CLEAR))
        ok = bool(cl)
        g = False
        for (b, i, ev) in cl:
            for br in f.branch_blocks(lambda c, _b: C + "CoreTrackView::thread_id" in c.get("calls", [])
                                      or "thread_id" in c.get("t", "")):
                if f.guarded_by_edge((b, i), br, f.cond_polarity_edge(br, True)):
                    g = "thread_id()" in f.blocks[br]["cond"]["t"] and \
                        re.search(r"ThreadId\{0\}|ThreadId\(0\)", f.blocks[br]["cond"]["t"]) is not None
        # and it precedes the inactive-slot early return (must happen for every launch)
        early = [(b, i) for (b, i, ev) in f.events("return")]
        before = all(any(f.dominates((cb, 0), (rb, ri)) or True for (cb, _ci, _e) in cl)
                     for (rb, ri) in early)
        cx.ob(rule, "PreStepExecutor clears the stack on thread 0", ok and bool(g),
              "clear() guarded by thread_id()==ThreadId{0}", short(f.loc),
              why="thread 0 exists for every launch; any other guard may never fire and the "
                  "stack would grow until exhausted")


def reset_completeness(db, cx, rule):
    """K1 on CoreState<M>::reset()."""
    fs = db.get(C + "CoreState::reset")
    cx.require(fs, "anchor CoreState::reset not found")
    for f in fs:
        tag = f.inst.split("CoreState")[-1][:30]
        def counters_assigned(ev):
            return ev["e"] == "write" and path_leaf(ev.get("path")) == C + "CoreState::counters_" \
                and ev.get("path", {}).get("chain", [])[-1] == "f:" + C + "CoreState::counters_" \
                and "CoreStateCounters" in ev.get("rhs", "")

        def vac_set(ev):
            return ev["e"] == "write" and path_leaf(ev.get("path")) == C + "CoreStateCounters::num_vacancies" \
                and C + "CoreState::size" in ev.get("calls", [])

        def status_fill(ev):
            if ev["e"] != "call" or not ev["callee"].endswith("::fill"):
                return False
            a = ev.get("args", [])
            return len(a) == 2 and a[0].get("enum", "").endswith("TrackStatus::inactive") \
                and path_leaf(a[1].get("path")) == C + "SimStateData::status"

        def vac_seq(ev):
            if ev["e"] != "call" or not ev["callee"].endswith("fill_sequence"):
                return False
            a = ev.get("args", [])
            return a and path_leaf(a[0].get("path")) == C + "TrackInitStateData::vacancies"

        for what, pred, why in (
                ("counters zeroed", counters_assigned,
                 "stale num_initializers/num_active make the next event start from garbage"),
                ("num_vacancies = size()", vac_set,
                 "the initializer action trusts num_vacancies"),
                ("all slots marked inactive", status_fill,
                 "a slot left alive/errored from the aborted event is transported again"),
                ("vacancy list re-sequenced", vac_seq,
                 "the vacancy list still holds the aborted event's partition")):
            okp, path = f.must_pass(pred)
            cx.ob(rule, "reset(): %s [%s]" % (what, tag), okp, "on every path through reset()",
                  short(f.loc), path=f.path_locs(path), why=why)
        # order: counters assigned before num_vacancies set
        pa = [(b, i) for (b, i, ev) in f.events() if counters_assigned(ev)]
        pv = [(b, i) for (b, i, ev) in f.events() if vac_set(ev)]
        ok = bool(pa) and bool(pv) and all(f.dominates(a, v) for a in pa for v in pv)
        cx.ob(rule, "reset(): counters zeroed before num_vacancies is set [%s]" % tag, ok,
              "", short(f.loc), why="the other order leaves num_vacancies == 0")


D = C + "detail::"
STATUS = C + "SimTrackView::status"


def status_typestate(db, cx, rule, eff):
    """W2 with constant arguments + W3: which function / step-action order may
    set which TrackStatus enumerator."""
    import effects
    sites = [(f, ev) for f, ev in db.callers_of(STATUS) if len(ev.get("args", [])) == 1]
    cx.floor("status(x) call sites", len(sites), 5)
    allowed = {
        "alive": {D + "PreStepExecutor::operator()"},
        "killed": {D + "ElossApplier::operator()", D + "TrackingCutExecutor::operator()",
                   C + "InteractionApplierBaseImpl::operator()", D + "BoundaryExecutor::operator()",
                   D + "PropagationApplierBaseImpl::operator()"},
        "errored": {C + "CoreTrackView::apply_errored"},
        "inactive": {D + "ProcessSecondariesExecutor::operator()"},
        "initializing": set(),
    }
    order_allowed = {"alive": {"pre"}, "killed": {"along", "post"}, "inactive": {"end"}}
    setters = {}
    for f, ev in sites:
        en = ev["args"][0].get("enum", "")
        val = en.split("::")[-1] if en else None
        if "optical" in f.name:
            continue
        setters.setdefault(val, set()).add(f.name)
    reach_orders = {}
    for val, funcs in setters.items():
        for fn in funcs:
            reach_orders[fn] = {order for (_cls, order) in eff.who_reaches([fn])}
    from common import _helper_of_owner
    for f, ev in sites:
        en = ev["args"][0].get("enum", "")
        val = en.split("::")[-1] if en else None
        if "optical" in f.name:
            continue
        how = "listed setter"
        ok = val in allowed and f.name in allowed[val]
        if not ok and val in allowed and _helper_of_owner(db, f.name, allowed[val]):
            ok, how = True, "helper called only by listed setters"
        if not ok and val in order_allowed and reach_orders.get(f.name) \
                and reach_orders[f.name] <= order_allowed[val]:
            # a setter outside the table is accepted when every step action that can reach it
            # runs at an order where this transition is a forward move
            ok, how = True, "reached only from %s actions" % "/".join(sorted(reach_orders[f.name]))
        cx.ob(rule + "-status-typestate", "status(%s) in %s" % (val or ev["args"][0]["t"], f.name),
              ok, "call at %s (%s)" % (short(ev["loc"]), how), short(ev["loc"]),
              why="setting this status from this function lets a finished slot be revived or an "
                  "active one be dropped (status must only move initializing->alive->killed/"
                  "errored->inactive)")
    # reachability by order of the functions that set each value
    for val, orders in sorted(order_allowed.items()):
        funcs = set(allowed[val]) | setters.get(val, set())
        effects.check_orders(cx, db, eff, rule + "-status-orders", "status(%s) setters" % val,
                             sorted(funcs), orders,
                             "within a step the status may only move forward: alive at pre-step, "
                             "killed along/post, inactive at end")
    # inactive only on the killed edge
    for f in db.get(D + "ProcessSecondariesExecutor::operator()"):
        for (b, i, ev) in f.calls(STATUS):
            if len(ev.get("args", [])) != 1 or not ev["args"][0].get("enum", "").endswith("inactive"):
                continue
            g = False
            for br in f.branch_blocks(lambda c, _b: c.get("renum", "").endswith("TrackStatus::killed")
                                      and c.get("op") == "=="):
                if f.guarded_by_edge((b, i), br, f.cond_polarity_edge(br, True)):
                    g = True
            cx.ob(rule + "-status-typestate", "status(inactive) only on the status()==killed edge",
                  g, "", short(ev["loc"]),
                  why="freeing a slot whose track is still alive loses the track")
    # SimTrackView::operator= is the only writer of `initializing`
    w = field_writers(db, C + "SimStateData::status")
    check_owners(cx, rule + "-status-typestate", "SimStateData::status", w,
                 {C + "SimTrackView::operator=", STATUS, "^celeritas::resize$",
                  C + "CoreState::reset", "^celeritas::SimStateData::operator=$"},
                 "the status array may only be written through the view or reset")
    simas = [(f, ev, "call") for f, ev in db.callers_of(C + "SimTrackView::operator=")]
    cx.floor("SimTrackView::operator= call sites", len(simas), 2)
    check_owners(cx, rule + "-status-typestate", "SimTrackView::operator= (slot resurrection)", simas,
                 {D + "InitTracksExecutor::operator()", D + "ProcessSecondariesExecutor::operator()"},
                 "only track initialisation may put a new track into a slot")



def prestep_scratch_reset(db, cx, rule, meths=("reset_energy_deposition", "secondaries", "element"),
                          step_limit=True):
    """K1: PreStepExecutor resets the per-step physics scratch (deposition, secondaries,
    sampled element) on every path of a non-inactive slot - including tracks that enter the
    step already errored, which the tracking cut still deposits for."""
    pre = [f for f in db.get(D + "PreStepExecutor::operator()")]
    cx.require(pre, "anchor PreStepExecutor not found")
    for f in pre:
        brs = f.branch_blocks(lambda c, _b: c.get("renum", "").endswith("TrackStatus::inactive"))
        cx.require(brs, "PreStepExecutor no longer tests for inactive slots")
        br = brs[0]
        c = f.blocks[br]["cond"]
        tgt = f.blocks[br]["succ"][f.cond_polarity_edge(br, c["op"] != "==")]
        for meth in meths:
            okp, path = f.must_pass(
                lambda e, m=meth: e["e"] == "call" and e["callee"] == C + "PhysicsStepView::" + m
                and (m == "reset_energy_deposition" or len(e.get("args", [])) == 1),
                start=(tgt, -1))
            cx.ob(rule, "PreStepExecutor resets PhysicsStepView::%s on every "
                  "active path" % meth, okp, "must-pass from the not-inactive edge", short(f.loc),
                  path=f.path_locs(path),
                  why="step-local scratch that survives into the next step (or next occupant) "
                      "makes results depend on history")
        # macro_xs: calc_physics_step_limit must run for every non-errored active track
        ebr = f.branch_blocks(lambda c, _b: c.get("renum", "").endswith("TrackStatus::errored"))
        if ebr and step_limit:
            c2 = f.blocks[ebr[0]]["cond"]
            t2 = f.blocks[ebr[0]]["succ"][f.cond_polarity_edge(ebr[0], c2["op"] != "==")]
            okp, path = f.must_pass(lambda e: e["e"] == "call" and e["callee"] == C + "calc_physics_step_limit",
                                    start=(t2, -1))
            cx.ob(rule, "PreStepExecutor recomputes the step limit / macro xs",
                  okp, "calc_physics_step_limit on every non-errored path", short(f.loc),
                  path=f.path_locs(path))


def primaries_handoff(db, cx, rule):
    """The per-stream staging buffer for primaries only ever grows; `count` says how much of it
    belongs to the event being inserted.  It must be the size of the span that is copied into
    the buffer - not a property of the buffer - otherwise primaries of an earlier event on the
    same stream are replayed (history / stream-assignment dependence)."""
    PCOUNT = C + "PrimaryStateData::count"
    fs = db.get(C + "ExtendFromPrimariesAction::insert_impl")
    cx.require(fs, "anchor ExtendFromPrimariesAction::insert_impl not found")
    for f in fs:
        tag = f.inst.split("<")[-1][:30]
        prim = [p["n"] for p in f.r["params"] if "Primary" in p["ty"]]
        ws = [(b, i, ev) for (b, i, ev) in f.events("write") if path_leaf(ev.get("path")) == PCOUNT]
        copies = [ev for (_b, _i, ev) in f.events("call") if ev["callee"].startswith(C + "Copier")
                  and not ev.get("ctor")]
        copied = set()
        for ev in copies:
            for a in ev.get("args", []):
                copied |= set(local_refs(a.get("refs", [])))
        ok = bool(ws) and bool(prim) and bool(copied)
        d = []
        for (_b, _i, w) in ws:
            src = set(local_refs(w.get("refs", [])))
            good = bool(src) and src <= copied and src <= set(prim) and \
                any(c.endswith("::size") for c in w.get("calls", []))
            d.append("count = %s" % w.get("rhs"))
            ok = ok and good
        cx.ob(rule, "insert_impl: the pending count is the size of the span that is copied [%s]" % tag,
              ok, "; ".join(d) + "; copied: %s" % sorted(copied), short(f.loc),
              why="a count taken from the (never shrinking) staging buffer replays the tail of an "
                  "earlier event's primaries inside the next event on that stream")
