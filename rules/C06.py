"""C06 - reproducibility: initializer completeness, reseed/reset totality, observers inert."""
import re
from common import (C, short, field_writers, check_owners, local_refs, accessor_summary,
                    trans_writes, resolve_leaf)
from cfg import path_leaf
import cfg as cfgmod
import shared
import effects

EXPLANATION = (
    "History-independence clauses: every per-slot field of the sim/particle/physics/geometry/"
    "material state is overwritten when a slot is (re)initialised or is step-local scratch that "
    "pre-step rewrites on every path (exceptions are key/payload pairs checked as pairs); track "
    "initialisation assigns all five views on every non-errored path; reseed covers every slot "
    "and the track counters; reset() is total; observers (gather, diagnostics, status checker, "
    "sort) reach no mutator of transport state and no RNG engine; views are indexed by track "
    "slot; the timed and untimed arms of the action loop run the same calls.")
NOT_DECIDED = "bit-identity of results; the order in which make_track_id hands out ids"

TECHNIQUE = ('initialiser completeness from AST record fields vs transitive write sets; must-pass rules on reset/reseed/initialisation; observer-inertness by call-graph reachability to non-const view methods; sibling-arm comparison; loop-bound provenance (reaching definitions) of the host launcher and who-may-narrow-the-launch by executor type')

UNITS = [
    "src/celeritas/track/InitializeTracksAction.cc",
    "src/celeritas/track/ExtendFromSecondariesAction.cc",
    "src/celeritas/track/ExtendFromPrimariesAction.cc",
    "src/celeritas/track/SortTracksAction.cc",
    "src/celeritas/track/TrackInitParams.cc",
    "src/celeritas/track/StatusChecker.cc",
    "src/celeritas/phys/detail/PreStepAction.cc",
    "src/celeritas/phys/detail/DiscreteSelectAction.cc",
    "src/celeritas/geo/detail/BoundaryAction.cc",
    "src/celeritas/global/alongstep/AlongStepUniformMscAction.cc",
    "src/celeritas/global/Stepper.cc",
    "src/celeritas/global/CoreState.cc",
    "src/celeritas/global/CoreTrackData.cc",
    "src/celeritas/global/ActionSequence.cc",
    "src/celeritas/random/RngReseed.cc",
    "src/celeritas/em/model/KleinNishinaModel.cc",
    "src/celeritas/user/detail/StepGatherAction.cc",
    "src/celeritas/user/ActionDiagnostic.cc",
    "src/celeritas/user/StepDiagnostic.cc",
    "src/celeritas/user/SlotDiagnostic.cc",
    "src/celeritas/user/SimpleCalo.cc",
]

D = C + "detail::"
OTV = C + "OrangeTrackView"


def run(db, cx):
    acc = accessor_summary(db)
    eff = effects.Effects(db)
    cx.floor("step actions found", len(eff.actions()), 10)

    # ---------------------------------------------- 1. initializer completeness (W7)
    def fields_of(rec):
        r = db.records.get(C + rec)
        cx.require(r, "record %s not found" % rec)
        return [f["n"] for f in r["fields"]]

    def same_class(prefixes):
        return lambda name: any(name.startswith(p) for p in prefixes)

    def w7(rec, init_name, pick, exceptions, follow, why):
        fs = [f for f in db.get(init_name) if pick(f)]
        cx.require(fs, "initializer %s not found" % init_name)
        flds = fields_of(rec)
        for f in fs:
            tw = trans_writes(db, f, acc, 3, follow)
            for fld in flds:
                q = C + rec + "::" + fld
                if fld in exceptions:
                    continue
                ok = q in tw
                cx.ob("C06.1-init-complete", "%s::%s written by %s" % (rec, fld, init_name.split("::", 1)[1]),
                      ok, ("via " + " > ".join(tw[q])) if ok else
                      "field survives slot re-use: not written on (re)initialisation and not in "
                      "the audited exception table", short(f.loc), why=why)
        return flds

    is_init = lambda f: f.r["params"] and "Initializer" in f.r["params"][0]["ty"]
    w7("SimStateData", C + "SimTrackView::operator=", is_init, {},
       same_class([C + "SimTrackView::"]),
       "a sim field left from the previous occupant of the slot leaks one event into the next")
    w7("ParticleStateData", C + "ParticleTrackView::operator=", is_init, {},
       same_class([C + "ParticleTrackView::"]), "stale particle data")
    # physics: initializer + pre-step scratch
    phys_scratch = {"macro_xs": "written by calc_physics_step_limit at pre-step before any read",
                    "energy_deposition": "reset by PreStepExecutor",
                    "secondaries": "reset by PreStepExecutor", "element": "reset by PreStepExecutor",
                    "dedx_range": "written and read under the same eloss_ppid guard within the step"}
    w7("PhysicsTrackState", C + "PhysicsTrackView::operator=", is_init, phys_scratch,
       same_class([C + "PhysicsTrackView::", C + "PhysicsStepView::"]), "stale physics data")
    shared.prestep_scratch_reset(db, cx, "C06.1-scratch-reset")
    for f in db.get(C + "calc_physics_step_limit"):
        tw = trans_writes(db, f, acc, 2)
        ok = C + "PhysicsTrackState::macro_xs" in tw
        cx.ob("C06.1-scratch-reset", "calc_physics_step_limit stores macro_xs", ok,
              "via " + " > ".join(tw.get(C + "PhysicsTrackState::macro_xs", ["-"])), short(f.loc))
    # material
    w7("MaterialStateData", C + "MaterialTrackView::operator=", is_init,
       {"element_scratch": "scratch filled before use inside one cross-section calculation"},
       same_class([C + "MaterialTrackView::"]), "stale material id")
    # geometry
    geo_exc = {
        "max_depth": "constant set at construction",
        "surf": "payload of key surface_level (pair rule below)",
        "sense": "payload of key surface_level (pair rule below)",
        "next_level": "payload of key next_surf (pair rule below)",
        "next_sense": "payload of key next_surf (pair rule below)",
        "temp_sense": "scratch", "temp_face": "scratch", "temp_distance": "scratch",
        "temp_isect": "scratch",
    }
    follow_geo = same_class([OTV + "::", D + "LevelStateAccessor::"])
    w7("OrangeStateData", OTV + "::operator=",
       lambda f: f.r["params"] and "DetailedInitializer" not in f.r["params"][0]["ty"]
       and "Initializer" in f.r["params"][0]["ty"], geo_exc, follow_geo,
       "a stale surface/next-step/level field desynchronises the navigator for the new track")
    w7("OrangeStateData", OTV + "::operator=",
       lambda f: f.r["params"] and "DetailedInitializer" in f.r["params"][0]["ty"],
       geo_exc, follow_geo, "stale geometry state after in-place initialisation from a parent")
    # pair rule: payload written only together with its key
    O = C + "OrangeStateData::"
    meths = [f for n in db.find(r"^celeritas::OrangeTrackView::[A-Za-z_=]+$") for f in db.get(n)]
    cx.floor("OrangeTrackView methods", len(meths), 30)
    for key, payloads in ((O + "surface_level", [O + "surf"]),
                          (O + "next_surf", [O + "next_level", O + "next_sense"])):
        for p in payloads:
            n_w = 0
            for f in meths:
                own = trans_writes(db, f, acc, 0)
                if set(own) == {p}:
                    continue      # the one-line setter itself; its callers are checked
                tw = trans_writes(db, f, acc, 2, follow_geo)
                if p not in tw:
                    continue
                n_w += 1
                ok = key in tw
                cx.ob("C06.1-key-payload", "%s written together with its key %s in %s"
                      % (p.split("::")[-1], key.split("::")[-1], f.name.split("::")[-1]), ok,
                      "payload via " + " > ".join(tw[p]), short(f.loc),
                      why="the payload is only valid while its key is set; the initialiser clears "
                          "the key, so payload writes must always (re)write the key")
            cx.floor("functions writing " + p.split("::")[-1], n_w, 1)

    # ------------------------------------- 2. track initialisation overwrites everything
    for f in db.get(D + "InitTracksExecutor::operator()"):
        for view in ("SimTrackView", "ParticleTrackView", "OrangeTrackView", "MaterialTrackView",
                     "PhysicsTrackView"):
            okp, path = f.must_pass(
                lambda e, v=view: e["e"] == "call" and e["callee"] == C + v + "::operator=",
                unless=lambda e: e["e"] == "call" and e["callee"] == C + "CoreTrackView::apply_errored")
            cx.ob("C06.2-init-all-views", "InitTracksExecutor assigns %s on every non-errored path" % view,
                  okp, "", short(f.loc), path=f.path_locs(path),
                  why="a view that is not re-initialised keeps the previous track's state")
    cx.require(db.get(D + "InitTracksExecutor::operator()"), "anchor InitTracksExecutor not found")
    for f in db.get(D + "ProcessSecondariesExecutor::operator()"):
        sims = list(f.calls(C + "SimTrackView::operator="))
        if not sims:
            continue
        b0 = sims[0][0]
        for view in ("OrangeTrackView", "ParticleTrackView", "PhysicsTrackView"):
            ok = any(b == b0 for (b, _i, _e) in f.calls(C + view + "::operator="))
            cx.ob("C06.2-init-all-views", "in-place secondary initialisation assigns %s" % view, ok,
                  "same block as the sim assignment", short(f.loc),
                  why="the in-place path must reset what the start-of-step path resets (material "
                      "is inherited: same position)")

    # ----------------------------------------------------------------- 3. reseed total
    for f in db.get(C + "Stepper::reseed"):
        for callee in (C + "reseed_rng", C + "TrackInitParams::reset_track_ids"):
            okp, path = f.must_pass(lambda e, c=callee: e["e"] == "call" and e["callee"] == c)
            cx.ob("C06.3-reseed", "Stepper::reseed calls %s [%s]" % (callee.split("::")[-1],
                                                                      f.inst.split("<")[-1][:20]),
                  okp, "", short(f.loc), path=f.path_locs(path),
                  why="an event must not inherit RNG position or track counters from the previous one")
    cx.require(db.get(C + "Stepper::reseed"), "anchor Stepper::reseed not found")
    for f in db.get(C + "TrackInitParams::reset_track_ids"):
        fills = [ev for (_b, _i, ev) in f.events("call")
                 if ev["callee"].endswith("Filler::operator()")]
        ok = False
        for ev in fills:
            a = ev.get("args", [])
            if a and "F:" + C + "TrackInitStateData::track_counters" in a[0].get("refs", []) \
                    and "AllItems" in a[0].get("t", ""):
                ok = True
        cx.ob("C06.3-reseed", "reset_track_ids zero-fills the whole track_counters array [%s]"
              % f.inst.split("<")[-1][:20], ok, "", short(f.loc),
              why="a partial fill leaves some event's counter at its old value")

    # -------------------------------------------------------------------- 4. reset
    shared.reset_completeness(db, cx, "C06.4-reset")
    shared.primaries_handoff(db, cx, "C06.4-primaries-handoff")

    # ------------------------------------------------------- 5. observers are inert
    views = ["SimTrackView", "ParticleTrackView", "PhysicsTrackView", "PhysicsStepView",
             "OrangeTrackView", "MaterialTrackView"]
    mut = set()
    for v in views:
        r = db.records.get(C + v)
        cx.require(r, "record %s not found" % v)
        for m in r["methods"]:
            if not m.get("const") and not m.get("static") and m["n"] != v and not m["n"].startswith("~"):
                mut.add(C + v + "::" + m["n"])
    # name-overloaded getters/setters: keep only names that have a non-const overload with a body
    mutators = set()
    for n in mut:
        for f in db.get(n):
            if not f.r.get("const", True):
                mutators.add(n)
    cx.floor("non-const track-view methods", len(mutators), 25)
    observers = {D + "StepGatherAction", C + "ActionDiagnostic", C + "StepDiagnostic",
                 C + "SlotDiagnostic", C + "SortTracksAction"}
    special = {C + "CoreTrackView::make_rng_engine", C + "CoreTrackView::apply_errored"}
    is_mut = lambda r: (r["name"] in special) or not r.get("const", False)
    hits = eff.who_reaches(sorted(mutators) + sorted(special), is_mut)
    seen_obs = set()
    for (cls, order) in eff.actions():
        if cls not in observers:
            continue
        seen_obs.add(cls)
        lst = hits.get((cls, order), [])
        # reaching a non-const *overload* matters only when that overload is the callee
        bad = list(lst)
        cx.ob("C06.5-observers-inert", "%s reaches no transport-state mutator / RNG" % cls,
              not bad, ("reaches " + bad[0][0] + " via " + " -> ".join(
                  c.split("(")[0][-50:] for c in bad[0][1][:10])) if bad else
              "%d mutators audited" % len(mutators), cls,
              path=bad[0][1][:12] if bad else None,
              why="an observer that writes transport state or draws random numbers makes results "
                  "depend on whether the diagnostic is enabled")
    cx.floor("observer actions found", len(seen_obs), 4)
    # status checker
    sc = [f for f in db.get(C + "StatusChecker::step") + db.get(C + "StatusChecker::step_impl")
          + db.get(C + "StatusChecker::launch_impl")]
    cx.require(sc, "anchor StatusChecker::step not found")
    nodes = db.reachable_from([f.node for f in sc])
    db.callgraph()
    tgt = set()
    for p in sorted(mutators) + [C + "CoreTrackView::make_rng_engine"]:
        for r in db.funcs.get(p, ()):
            if not r.get("const", False):
                tgt.add(db.node_of(r))
    bad = sorted(nodes & tgt)
    cx.ob("C06.5-observers-inert", "StatusChecker reaches no transport-state mutator / RNG", not bad,
          ("reaches %s via %s" % (bad[0], " -> ".join(db.chain_to(bad[0])[-6:]))) if bad else "",
          "StatusChecker", why="the debug checker must not change what it checks")
    # sort action writes only the indirection array
    for f in db.get(C + "SortTracksAction::step"):
        pass
    w = field_writers(db, C + "CoreStateData::track_slots")
    check_owners(cx, "C06.5-observers-inert", "CoreStateData::track_slots", w,
                 {"^celeritas::detail::(shuffle_track_slots|sort_tracks|partition)",
                  "^celeritas::resize$", "^celeritas::CoreStateData::operator=$",
                  "^celeritas::detail::"},
                 "track re-indexing is the only thing the sort action may change")
    # RNG engine construction sites
    rng = [(f, ev, "call") for f, ev in db.callers_of(C + "CoreTrackView::make_rng_engine")]
    cx.floor("make_rng_engine call sites", len(rng), 3)
    check_owners(cx, "C06.5-rng-users", "make_rng_engine", rng,
                 {D + "PreStepExecutor::operator()", "^celeritas::detail::(MscStepLimitApplier|MscApplier|"
                  "FluctELoss|ElossApplier|DiscreteSelectExecutor)", "^celeritas::[A-Za-z]+Executor::operator\\(\\)$",
                  "^celeritas::detail::(Cerenkov|Scint)", "^celeritas::optical::",
                  "^celeritas::UrbanMsc::(limit_step|apply_step)",
                  "^celeritas::detail::[A-Za-z]+Executor::operator\\(\\)$"},
                 "a new consumer of random numbers changes every later draw of the track")

    # -------------------------------------------------------- 6. per-slot indexing
    n = 0
    for nm in db.find(r"^celeritas::CoreTrackView::make_[a-z_]+$"):
        for f in db.get(nm):
            rets = [ev for (_b, _i, ev) in f.events("return")]
            if not rets:
                continue
            calls = set()
            for r in rets:
                calls |= set(r.get("calls", []))
            if not any(c.endswith("View::" + c.split("::")[-1]) or "Engine" in c for c in calls):
                continue
            uses_slot = C + "CoreTrackView::track_slot_id" in calls or \
                any("track_slot_id" in r.get("t", "") for r in rets)
            uses_thread = any("thread_id" in r.get("t", "") for r in rets)
            per_track = nm.split("::")[-1] in ("make_sim_view", "make_geo_view", "make_material_view",
                                               "make_physics_view", "make_physics_step_view",
                                               "make_rng_engine")
            if nm.endswith("make_particle_view") and f.r["params"]:
                continue
            if per_track or nm.endswith("make_particle_view"):
                n += 1
                cx.ob("C06.6-per-slot", "%s indexes by track slot" % nm.split("::")[-1],
                      uses_slot and not uses_thread, rets[0].get("t", "")[:120], short(f.loc),
                      why="state indexed by thread instead of slot changes with the track-order "
                          "policy")
    cx.floor("CoreTrackView view factories", n, 6)

    # 6b. track ids are drawn from a per-event atomic counter: the executors that draw them must
    # visit the slots in thread order, i.e. not be launched through the slot-remapping
    # TrackExecutor (whose visit order is the track_slots permutation of the sort policy)
    mk = C + "detail::make_track_id"
    cx.require(db.get(mk), "anchor make_track_id not found")
    rcg = db.reverse_callgraph()
    targets = set(db.node_of(g.r) for g in db.get(mk))
    seen = set()
    parent = {}
    work = list(targets)
    while work:
        nd = work.pop()
        if nd in seen:
            continue
        seen.add(nd)
        for up in rcg.get(nd, ()):
            if up not in seen:
                parent.setdefault(up, nd)
                work.append(up)
    remap = sorted(nd for nd in seen if nd.startswith(C + "TrackExecutor<") or
                   nd.startswith(C + "ConditionalTrackExecutor<") or ".track_slots" in nd)
    chain = []
    if remap:
        cur = remap[0]
        while cur is not None and len(chain) < 12:
            chain.append(cur.split("(")[0][-80:])
            cur = parent.get(cur)
    users = sorted(set(nd.split("<")[0].split("(")[0] for nd in seen if "Executor::operator()" in nd))
    cx.floor("executors that draw track ids", len(users), 2)
    cx.ob("C06.6-id-order", "executors that draw track ids are launched in slot order, not through the "
          "slot-remapping TrackExecutor", not remap,
          ("call chain: " + " -> ".join(chain)) if remap else "drawn by %s" % ", ".join(users),
          short(db.get(mk)[0].loc),
          why="make_track_id is an atomic counter: if the visit order follows the track_slots "
              "permutation, the ids (and every tally keyed by them) depend on the track-order "
              "policy and on what ran on the state before")

    # ------------------------------------------------- 7. timed / untimed arms agree
    for f in db.get(C + "ActionSequence::step"):
        if "MemSpace::device" in f.inst:
            continue   # dead in this (CPU-only) configuration: device calls are unreachable stubs
        brs = f.branch_blocks(lambda c, _b: "F:" + C + "ActionSequenceOptions::action_times"
                              in c.get("allrefs", c.get("refs", []))
                              or "action_times" in c.get("t", ""))
        # last branch of the (possibly short-circuit) condition
        brs = [b for b in brs if f.blocks[b].get("tk") == "IfStmt"]
        main = [b for b in brs if "warming_up" in f.blocks[b]["cond"].get("t", "")]
        cx.require(main, "ActionSequence::step: timed/untimed branch not found (%s)" % f.inst)
        br = main[0]
        s0, s1 = f.blocks[br]["succ"]
        ra, rb = f.reach([s0]), f.reach([s1])
        # the short-circuit false edge of the first operand also leads to the untimed arm
        arm_t = ra - rb
        arm_u = rb - ra

        def arm_calls(arm):
            out = {}
            for b in arm:
                for i, ev in enumerate(f.blocks[b]["ev"]):
                    if ev["e"] == "call" and ev["callee"].endswith("::step") \
                            and len(ev.get("args", [])) >= 2:
                        guards = []
                        for gb in f.branch_blocks(lambda c, _b: True):
                            if None in f.blocks[gb]["succ"]:
                                continue   # constant condition (if constexpr / compiled-out assert)
                            if gb in arm or gb == br:
                                for e_ in (0, 1):
                                    if f.guarded_by_edge((b, i), gb, e_) and gb != br:
                                        c = f.blocks[gb]["cond"]
                                        guards.append(("!" if (e_ == 1) != bool(c.get("neg")) else "")
                                                      + c.get("core", "?"))
                        out[ev["callee"]] = sorted(set(guards))
            return out
        ct, cu = arm_calls(arm_t), arm_calls(arm_u)
        norm = lambda d: {k: [re.sub(r"__begin\d+|__end\d+", "_it", g) for g in v
                              if "_it" not in re.sub(r"__begin\d+|__end\d+", "_it", g)
                              and "!= " not in g] for k, v in d.items()}
        ok = bool(ct) and norm(ct) == norm(cu)
        cx.ob("C06.7-timed-arms", "timed and untimed action loops make the same guarded calls [%s]"
              % f.inst.split("<")[-1][:24], ok, "timed: %s | untimed: %s" % (norm(ct), norm(cu)),
              short(f.loc),
              why="a call present in only one arm makes results depend on the action-timing option")
    cx.require(db.get(C + "ActionSequence::step"), "anchor ActionSequence::step not found")

    # ------------------------------------------- 8. the host launcher visits every slot
    host_launcher_all_slots(db, cx, "C06.8-launch-all-slots")


RANGE_API = re.compile(r"(CoreState::(get_action_range|has_action_range|action_thread_offsets|"
                       r"native_action_thread_offsets)|is_action_sorted|TrackInitParams::track_order)$")


FILTERED = re.compile(r"ConditionalTrackExecutor<celeritas::(detail::)?(IsStepActionEqual|IsAlongStepActionEqual)\b")
FULL_RANGE = {C + "CoreState::size", C + "OpaqueId::OpaqueId", C + "range"}


def host_launcher_all_slots(db, cx, rule):
    """The host launchers run the executor on every thread slot [0, state.size()).  Executors that
    are not filtered by action id (diagnostics, LocateAlive, ProcessSecondaries, ...) rely on it:
    narrowing the loop to the thread range of one action makes their effect depend on TrackOrder.
    Narrowing is accepted only where the executor type is filtered by the same action
    (ConditionalTrackExecutor<IsStepActionEqual|IsAlongStepActionEqual, ...>)."""
    cores = [f for nm in db.find(r"^celeritas::launch_core$") for f in db.get(nm)]
    acts = [f for nm in db.find(r"^celeritas::launch_action$") for f in db.get(nm)]
    cx.floor("host launch_core instantiations", len(cores), 8)
    cx.floor("host launch_action instantiations", len(acts), 8)
    seen = set()
    for f in cores + acts:
        bad = sorted(set(ev["callee"].split("::")[-1] for (_b, _i, ev) in f.events("call")
                         if RANGE_API.search(ev["callee"])))
        filtered = f.name.endswith("launch_action") and bool(FILTERED.search(f.inst))
        ok = not bad or filtered
        ex = re.sub(r"^.*?<", "", f.inst)[:90] if bad else ""
        key = (f.loc, ok, ex)
        if key in seen:
            continue
        seen.add(key)
        cx.ob(rule, "%s at %s does not narrow the launch by the action ranges of the sort policy%s"
              % (f.name.split("::")[-1], short(f.loc), (" [" + ex + "]") if ex else ""), ok,
              ", ".join(bad) or "none", short(f.loc),
              why="the launcher runs executors that are not filtered by action id; narrowing it to "
                  "one action's thread range silently skips their tracks under a sorted TrackOrder")
    nloops = 0
    done = set()
    ranged = set()
    for f in cores:
        ex = [(b, i, ev) for (b, i, ev) in f.events("call")
              if ev.get("recv", {}).get("path", {}).get("root", "").startswith("p:")
              and ev["callee"].endswith("::operator()")
              and any(c.endswith("OpaqueId::OpaqueId") for a in ev.get("args", []) for c in a.get("calls", []))]
        if not ex:
            fw = [ev for (_b, _i, ev) in f.events("call") if ev["callee"] == C + "launch_core"]
            cx.require(fw, "launch_core %s neither runs nor forwards the executor" % short(f.loc))
            continue
        b, i, ev = ex[0]
        loops = [(h, body) for (h, body) in cfgmod.loops_of(f) if b in body]
        loops = [(h, body) for (h, body) in loops if f.blocks[h].get("cond", {}).get("op")]
        cx.require(loops, "launch_core %s: executor call is not inside a counting loop" % short(f.loc))
        hdr = max(loops, key=lambda hb: len(hb[1]))[0]
        cond = f.blocks[hdr]["cond"]
        cx.require(cond.get("op") in ("!=", "<"),
                   "launch_core %s: loop condition outside the vocabulary: %s" % (short(f.loc), cond.get("t")))
        idx = ev["args"][0].get("refs", [])
        var = cond.get("l")
        rparams = [p["n"] for p in f.r["params"] if "Range<" in p.get("cty", "")]

        def provenance(names, depth=0):
            """calls and parameter roots the value of the named locals derives from"""
            calls, roots = [], set()
            for r in names:
                if r in [p["n"] for p in f.r["params"]]:
                    roots.add(r)
                    continue
                for d in f.reaching_defs(r, (hdr, 0)):
                    if d[2].get("kind") == "incdec":
                        continue
                    calls.extend(d[2].get("calls", []))
                    if depth < 3:
                        c2, r2 = provenance([x for x in d[2].get("refs", []) if x != r], depth + 1)
                        calls.extend(c2)
                        roots |= r2
            return calls, roots
        inits = [d for d in f.reaching_defs(var, (hdr, 0)) if d[2].get("kind") != "incdec"]
        steps = [d for d in f.reaching_defs(var, (hdr, 0)) if d[2].get("kind") == "incdec"]
        step_ok = bool(steps) and all(d[2].get("op") == "++" for d in steps)
        icalls, iroots = provenance([x for d in inits for x in d[2].get("refs", [])])
        bcalls, broots = provenance(cond.get("rrefs", []))
        bcalls = list(cond.get("rcalls", [])) + bcalls
        nloops += 1
        if rparams and (iroots | broots) and (iroots | broots) <= set(rparams):
            # bounds come from a Range<ThreadId> parameter: the obligation moves to the call sites
            ranged.add(f.r.get("sig", "") or f.loc)
            init_ok = bound_ok = True
            what = "bounds from parameter %s" % sorted(iroots | broots)
        else:
            init_ok = bool(inits) and all(d[2].get("lit") == "0" for d in inits)
            bound_ok = bool(bcalls) and all(c == C + "CoreState::size" for c in bcalls) \
                and broots <= {"state"}
            what = "init=%s bound=%s <- %s" % ([d[2].get("rhs") for d in inits], cond.get("r"),
                                             sorted(set(c.split("::")[-1] for c in bcalls)) + sorted(broots))
        key = (f.loc, init_ok, bound_ok, step_ok, var in idx)
        if key in done:
            continue
        done.add(key)
        cx.ob(rule, "launch_core at %s: executor loop runs %s over [0, state.size()) or over its "
              "range parameter, in steps of one" % (short(f.loc), var), init_ok and bound_ok and step_ok,
              what + " step=%s" % [d[2].get("op") for d in steps], short(f.loc),
              why="every slot must be visited whatever the track order: the bound is the state size "
                  "and nothing else")
        cx.ob(rule, "launch_core at %s: the executor receives ThreadId{%s}" % (short(f.loc), var),
              var in idx, ev["args"][0].get("t", ""), short(ev["loc"]),
              why="the loop index is the thread id: an offset or remapped id visits the wrong slots")
    cx.floor("host launch_core executor loops", nloops, 8)
    # call sites of a ranged overload: the whole range, or an action range with a filtered executor
    if ranged:
        done = set()
        for f, ev in db.callers_of(C + "launch_core"):
            rargs = [a for a in ev.get("args", []) if set(a.get("calls", [])) & (FULL_RANGE | {C + "CoreState::get_action_range"})
                     or "Range<" in a.get("ty", "")]
            if "Range<" not in ev.get("sig", ""):
                continue
            calls = set(c for a in ev["args"] for c in a.get("calls", [])) - {"std::forward", C + "ActionInterface::label",
                                                                               C + "ActionInterface::action_id"}
            full = calls <= FULL_RANGE and C + "CoreState::size" in calls
            narrowed_ok = C + "CoreState::get_action_range" in calls and bool(FILTERED.search(f.inst))
            key = (ev["loc"], full or narrowed_ok)
            if key in done:
                continue
            done.add(key)
            cx.ob(rule, "ranged launch_core call at %s passes every slot, or one action's range "
                  "with an executor filtered by that action" % short(ev["loc"]), full or narrowed_ok,
                  "range argument calls %s; executor %s" % (sorted(c.split("::")[-1] for c in calls),
                                                          re.sub(r"^.*?<", "", f.inst)[:80]),
                  short(ev["loc"]),
                  why="an unfiltered executor launched over one action's thread range skips tracks "
                      "under a sorted TrackOrder")
