"""C13 - XORWOW skip-ahead == sequential generation, for all states and counts.

Exact: the transition matrix T is obtained by GF(2)-linear abstract
interpretation of next(); jump(g) is shown to compute g(T) by an abstract
interpretation that is symbolic in the polynomial bits; the 64 literal jump
polynomials are compared with z^(4^i) and z^(4^i * 2^67) modulo the
characteristic polynomial of T, which is shown to be primitive."""
import re
import struct

import gf2
from astutil import (strip, walk, const_int, find_all, show, OutOfVocabulary)
from common import C, short
from facts import AnalysisBroken

LEVEL = "proof"
LEVEL_TEXT = (
    "Exact static proof by abstract interpretation over an exact domain: the GF(2) transition "
    "matrix is computed from the AST of next(); jump(g)=g(T) is established for symbolic g; the "
    "64 jump polynomials in the source are compared with z^(4^i) and z^(4^i*2^67) mod the "
    "characteristic polynomial, whose primitivity (period 2^160-1) is verified; digit loop, Weyl "
    "sequence, initialisation order, reseed injectivity and the canonical-real range are decided "
    "from the AST. Holds for all 2^160-1 states and all 2^64 counts, which no test can enumerate.")
LEVEL_NOTE = (
    "Trusted: clang 14 AST, the interpreters in rules/C13.py + lib/gf2.py (pure Python integers), "
    "the list of prime factors of 2^160-1 (product and primality re-verified on each run). "
    "Assumptions: event*size does not wrap 64 bits; no slot draws 2^67 numbers in one event.")
TECHNIQUE = ('abstract interpretation over GF(2) (exact linear domain) of the clang AST + exact polynomial arithmetic for the jump tables; path-forking bit-vector interpretation of jump(count, table) for all 64-bit counts (lib/bitpath.py); interval/IEEE analysis of the canonical conversion')
EXPLANATION = LEVEL_TEXT
NOT_DECIDED = "statistical quality of the generator"

UNITS = [
    "src/celeritas/random/RngReseed.cc",
    "src/celeritas/random/XorwowRngParams.cc",
]
WHOLE_PROGRAM_THOROUGH = False
WITNESS = {"witness/c13_canonical.cc": "src/celeritas/random/XorwowRngParams.cc"}

ENG = C + "XorwowRngEngine"
NBITS = 160
PRIMES_2_160_1 = [3, 5, 5, 11, 17, 31, 41, 257, 61681, 65537, 414721, 4278255361,
                  44479210368001]


def one(db, name, pred=None):
    fs = [f for f in db.get(name) if "ast" in f.r and (pred is None or pred(f))]
    if not fs:
        raise AnalysisBroken("anchor %s (with AST) not found" % name)
    return fs[0]


# ---------------------------------------------------------------------------
# A1: next() as a linear map on 160 bits
# ---------------------------------------------------------------------------
def interp_next(ast):
    W = 32
    state = [[1 << (W * w + b) for b in range(W)] for w in range(5)]
    env = {}

    def is_state_array(n):
        n = strip(n)
        if n["k"] == "MemberExpr" and n["name"] == "xorstate":
            return True
        if n["k"] == "DeclRefExpr" and env.get(n["name"]) == "STATE":
            return True
        return False

    def elem_index(n):
        n = strip(n)
        if n["k"] == "CXXOperatorCallExpr" and n.get("oop") == "[]":
            base, idx = n["c"][1], n["c"][2]
            if not is_state_array(base):
                raise OutOfVocabulary("next(): subscript of non-state object: " + show(n))
            i = const_int(idx)
            if i is None or not (0 <= i < 5):
                raise OutOfVocabulary("next(): non-constant state index: " + show(n))
            return i
        return None

    def ev(n):
        n = strip(n)
        k = n["k"]
        i = elem_index(n)
        if i is not None:
            return list(state[i])
        if k == "DeclRefExpr":
            v = env.get(n["name"])
            if isinstance(v, list):
                return list(v)
            raise OutOfVocabulary("next(): unknown variable " + n["name"])
        if k == "IntegerLiteral":
            raise OutOfVocabulary("next(): constant operand makes the map affine: " + show(n))
        if k == "BinaryOperator":
            if "unsigned int" not in n.get("ty", ""):
                raise OutOfVocabulary("next(): operand type is not 32-bit unsigned: " + n.get("ty", ""))
            op = n["op"]
            if op == "^":
                a, b = ev(n["c"][0]), ev(n["c"][1])
                return [x ^ y for x, y in zip(a, b)]
            if op in ("<<", ">>"):
                a = ev(n["c"][0])
                s = const_int(n["c"][1])
                if s is None or not (0 <= s < W):
                    raise OutOfVocabulary("next(): non-constant shift: " + show(n))
                if op == "<<":
                    return [0] * s + a[:W - s]
                return a[s:] + [0] * s
        raise OutOfVocabulary("next(): operation outside the GF(2)-linear vocabulary: %s (%s)"
                              % (show(n), k))

    body = ast
    if body["k"] != "CompoundStmt":
        raise OutOfVocabulary("next(): body is not a compound statement")
    for st in body["c"]:
        if st["k"] == "DeclStmt":
            for vd in st["c"]:
                init = vd["c"][0]
                if vd["ty"].endswith("&") and init is not None and is_state_array(init):
                    env[vd["name"]] = "STATE"
                elif init is not None:
                    env[vd["name"]] = ev(init)
                else:
                    raise OutOfVocabulary("next(): uninitialised local " + vd["name"])
        elif st["k"] in ("BinaryOperator", "CompoundAssignOperator") and st["op"] in ("=", "^="):
            i = elem_index(st["c"][0])
            if i is None:
                raise OutOfVocabulary("next(): assignment to non-state lvalue: " + show(st))
            v = ev(st["c"][1])
            if st["op"] == "^=":
                v = [x ^ y for x, y in zip(state[i], v)]
            state[i] = v
        elif st["k"] in ("DoStmt", "NullStmt"):
            continue   # compiled-out assertion
        else:
            raise OutOfVocabulary("next(): statement outside vocabulary: " + st["k"])
    rows = []
    for w in range(5):
        rows.extend(state[w])
    return rows


# ---------------------------------------------------------------------------
# jump(JumpPoly const&) interpreted symbolically in the polynomial bits
# ---------------------------------------------------------------------------
def interp_jump_poly(ast, consts, polyparam):
    cur = [0]            # number of next() applications so far
    acc = {}             # accumulator array name -> [set((polybit, power))]*5
    env = {}             # loop variables
    result = {}
    words_touched = []

    def ival(n):
        n = strip(n)
        c = const_int(n)
        if c is not None:
            return c
        if n["k"] == "DeclRefExpr" and n["name"] in env:
            return env[n["name"]]
        if n["k"] == "BinaryOperator" and n["op"] in ("+", "-", "*"):
            a, b = ival(n["c"][0]), ival(n["c"][1])
            return a + b if n["op"] == "+" else a - b if n["op"] == "-" else a * b
        raise OutOfVocabulary("jump(g): non-constant index " + show(n))

    def range_bound(forrange):
        rng = [x for x in walk(forrange["c"][1]) if x["k"] == "CallExpr"
               and x.get("callee") == C + "range"]
        if len(rng) != 1 or len(rng[0]["c"]) != 2:
            raise OutOfVocabulary("jump(g): loop is not over celeritas::range(N)")
        arg = strip(rng[0]["c"][1])
        c = const_int(arg)
        if c is not None:
            return c
        if arg["k"] in ("CallExpr", "CXXMemberCallExpr") and arg.get("callee") in consts:
            return consts[arg["callee"]]
        raise OutOfVocabulary("jump(g): loop bound is not a known constant: " + show(arg))

    def run(st, guard):
        k = st["k"]
        if k == "CompoundStmt":
            for c in st["c"]:
                run(c, guard)
        elif k in ("DoStmt", "NullStmt"):
            return
        elif k == "DeclStmt":
            for vd in st["c"]:
                zeros = [x for x in walk(vd["c"][0]) if x["k"] == "IntegerLiteral"]
                if "Array<unsigned int, 5>" in vd["ty"] and all(int(z["val"]) == 0 for z in zeros):
                    acc[vd["name"]] = [set() for _ in range(5)]
                else:
                    raise OutOfVocabulary("jump(g): unexpected local " + vd["name"])
        elif k == "CXXForRangeStmt":
            n = range_bound(st)
            var = st["c"][6]["c"][0]["name"]
            for v in range(n):
                env[var] = v
                run(st["c"][7], guard)
            env.pop(var, None)
        elif k == "IfStmt":
            cond = strip(st["c"][-2] if len(st["c"]) == 3 and st["c"][0] is None else st["c"][0])
            # children of IfStmt: [cond, then] (init/var absent)
            conds = [c for c in st["c"] if c is not None]
            cond, then = strip(conds[0]), conds[1]
            if len(conds) > 2:
                raise OutOfVocabulary("jump(g): else-branch on the polynomial bit test")
            if cond["k"] != "BinaryOperator" or cond["op"] != "&":
                raise OutOfVocabulary("jump(g): condition is not a bit test: " + show(cond))
            lhs, rhs = strip(cond["c"][0]), strip(cond["c"][1])
            if not (lhs["k"] == "CXXOperatorCallExpr" and lhs.get("oop") == "[]"
                    and strip(lhs["c"][1])["k"] == "DeclRefExpr"
                    and strip(lhs["c"][1])["name"] == polyparam):
                raise OutOfVocabulary("jump(g): bit test does not read the polynomial: " + show(lhs))
            word = ival(lhs["c"][2])
            if not (rhs["k"] == "BinaryOperator" and rhs["op"] == "<<"
                    and const_int(strip(rhs["c"][0])) == 1):
                raise OutOfVocabulary("jump(g): mask is not 1 << j: " + show(rhs))
            bit = ival(rhs["c"][1])
            if not (0 <= bit < 32):
                raise OutOfVocabulary("jump(g): mask shift out of the 32-bit word: %d" % bit)
            if guard is not None:
                raise OutOfVocabulary("jump(g): nested polynomial tests")
            run(then, 32 * word + bit)
        elif k == "CompoundAssignOperator" and st["op"] == "^=":
            lhs, rhs = strip(st["c"][0]), strip(st["c"][1])
            if not (lhs["k"] == "CXXOperatorCallExpr" and lhs.get("oop") == "[]"
                    and strip(lhs["c"][1])["k"] == "DeclRefExpr"
                    and strip(lhs["c"][1])["name"] in acc):
                raise OutOfVocabulary("jump(g): ^= target is not the accumulator: " + show(lhs))
            a = acc[strip(lhs["c"][1])["name"]]
            kl = ival(lhs["c"][2])
            if not (rhs["k"] == "CXXOperatorCallExpr" and rhs.get("oop") == "[]"
                    and strip(rhs["c"][1])["k"] == "MemberExpr"
                    and strip(rhs["c"][1])["name"] == "xorstate"):
                raise OutOfVocabulary("jump(g): ^= source is not the engine state: " + show(rhs))
            kr = ival(rhs["c"][2])
            if kl != kr:
                raise OutOfVocabulary("jump(g): accumulates word %d into word %d" % (kr, kl))
            if guard is None:
                raise OutOfVocabulary("jump(g): unconditional accumulate")
            a[kl] ^= {(guard, cur[0])}
        elif k == "CXXMemberCallExpr" and st.get("callee") == ENG + "::next":
            if guard is not None:
                raise OutOfVocabulary("jump(g): next() under the polynomial test")
            cur[0] += 1
        elif k == "CXXOperatorCallExpr" and st.get("oop") == "=":
            lhs, rhs = strip(st["c"][1]), strip(st["c"][2])
            if lhs["k"] == "MemberExpr" and lhs["name"] == "xorstate" \
                    and rhs["k"] == "DeclRefExpr" and rhs["name"] in acc:
                result["acc"] = acc[rhs["name"]]
                result["at"] = cur[0]
            else:
                raise OutOfVocabulary("jump(g): unexpected assignment " + show(st))
        else:
            raise OutOfVocabulary("jump(g): statement outside vocabulary: %s %s" % (k, show(st)))

    run(ast, None)
    return result, cur[0]


# ---------------------------------------------------------------------------
def table_from(func):
    """160 integer literals of the static table in get_jump*_poly -> 32 ints."""
    vals = None
    for n in walk(func.r["ast"]):
        if n["k"] == "VarDecl" and n.get("static"):
            lits = [int(x["val"]) for x in walk(n) if x["k"] == "IntegerLiteral"]
            vals = lits
    if vals is None or len(vals) != 160:
        raise AnalysisBroken("jump table in %s: expected 160 literals, found %s"
                             % (func.name, None if vals is None else len(vals)))
    polys = []
    for i in range(32):
        g = 0
        for w in range(5):
            if vals[5 * i + w] >= 1 << 32:
                raise AnalysisBroken("jump table literal exceeds 32 bits")
            g |= vals[5 * i + w] << (32 * w)
        polys.append(g)
    return polys


def run(db, cx):
    # =============================================================== 1. T
    fnext = one(db, ENG + "::next")
    T = interp_next(fnext.r["ast"])
    cx.count("bits of state", NBITS)
    cx.ob("C13.1-T-linear", "next() is GF(2)-linear on 160 bits", len(T) == NBITS,
          "transition matrix extracted from the AST (%d rows)" % len(T), short(fnext.loc))
    rk = gf2.rank(T, NBITS)
    cx.ob("C13.1-T-invertible", "rank(T) == 160", rk == NBITS, "rank %d" % rk, short(fnext.loc),
          why="a singular transition collapses states: sequences merge and the period drops")
    p = gf2.min_poly(T, NBITS)
    cx.ob("C13.1-charpoly", "minimal polynomial of T has degree 160", gf2.deg(p) == NBITS,
          "deg %d, p = 0x%x" % (gf2.deg(p), p), short(fnext.loc),
          why="degree < 160 means the state space splits into short cycles")
    cx.ob("C13.1-charpoly", "p(T) annihilates probe vectors",
          gf2.poly_of_map_annihilates(T, p, NBITS), "p(T)v == 0 for 4 probes", short(fnext.loc))
    # primitivity
    N = (1 << NBITS) - 1
    prod = 1
    for q in PRIMES_2_160_1:
        prod *= q
    fac_ok = prod == N and all(gf2.is_probable_prime(q) for q in set(PRIMES_2_160_1))
    cx.ob("C13.1-primitive", "factorisation of 2^160-1 re-verified", fac_ok,
          "product of %d listed primes == 2^160-1; Miller-Rabin on each" % len(PRIMES_2_160_1))
    z = 2
    full = gf2.ppowmod(z, N, p) == 1 if gf2.deg(p) == NBITS else False
    cx.ob("C13.1-primitive", "z^(2^160-1) == 1 mod p", full, "", short(fnext.loc),
          why="otherwise p is not even irreducible-with-order dividing 2^160-1")
    for q in sorted(set(PRIMES_2_160_1)):
        ok = gf2.deg(p) == NBITS and gf2.ppowmod(z, N // q, p) != 1
        cx.ob("C13.1-primitive", "z^((2^160-1)/%d) != 1 mod p" % q, ok, "", short(fnext.loc),
              why="the period of every non-zero state must be exactly 2^160-1 for the "
                  "2^67-spaced subsequences to be disjoint")

    # ====================================================== 2. jump tables
    fj = one(db, C + "XorwowRngParams::get_jump_poly")
    fs = one(db, C + "XorwowRngParams::get_jump_subsequence_poly")
    jump = table_from(fj)
    jsub = table_from(fs)
    cur = gf2.pmod(z, p)
    for i in range(32):
        # cur == z^(4^i)
        ok = jump[i] == cur
        cx.ob("C13.2-jump-table", "jump[%d] == z^(4^%d) mod p" % (i, i), ok,
              "table 0x%040x expected 0x%040x" % (jump[i], cur), short(fj.loc),
              why="discard(n) would land on a different state than n sequential draws "
                  "whenever base-4 digit %d of n is non-zero" % i)
        cur = gf2.pmulmod(cur, cur, p)
        cur = gf2.pmulmod(cur, cur, p)
    cur = gf2.ppowmod(z, 1 << 67, p)
    for i in range(32):
        ok = jsub[i] == cur
        cx.ob("C13.2-jump-table", "jump_subsequence[%d] == z^(4^%d * 2^67) mod p" % (i, i), ok,
              "table 0x%040x expected 0x%040x" % (jsub[i], cur), short(fs.loc),
              why="subsequences would not be 2^67 apart: streams of different (event, slot) "
                  "pairs can overlap")
        cur = gf2.pmulmod(cur, cur, p)
        cur = gf2.pmulmod(cur, cur, p)
    cx.sample({"p(z)": hex(p), "jump[4]": hex(jump[4]), "jump_subsequence[0]": hex(jsub[0])})

    # the tables are wired to the right fields
    ctor = [f for f in db.get(C + "XorwowRngParams::XorwowRngParams")]
    cx.require(ctor, "XorwowRngParams constructor not found")
    wired = {}
    for f in ctor:
        for _b, _i, ev in f.events("write"):
            leaf = [x for x in ev.get("path", {}).get("chain", []) if x.startswith("f:")]
            if leaf and leaf[-1].endswith("XorwowRngParamsData::jump"):
                wired["jump"] = ev.get("calls", [])
            if leaf and leaf[-1].endswith("XorwowRngParamsData::jump_subsequence"):
                wired["jump_subsequence"] = ev.get("calls", [])
    cx.ob("C13.2-wiring", "params.jump <- get_jump_poly()",
          C + "XorwowRngParams::get_jump_poly" in wired.get("jump", []),
          str(wired.get("jump")), short(ctor[0].loc),
          why="swapped tables make discard() skip subsequences and vice versa")
    cx.ob("C13.2-wiring", "params.jump_subsequence <- get_jump_subsequence_poly()",
          C + "XorwowRngParams::get_jump_subsequence_poly" in wired.get("jump_subsequence", []),
          str(wired.get("jump_subsequence")), short(ctor[0].loc))
    # copy-assignment of the params data keeps field identity
    n_copy = 0
    for f in db.get(C + "XorwowRngParamsData::operator="):
        for _b, _i, ev in f.events("write"):
            ch = ev.get("path", {}).get("chain", [])
            flds = [x[2:] for x in ch if x.startswith("f:")]
            if not flds or ev.get("path", {}).get("root") != "this":
                continue
            fld = flds[-1].split("::")[-1]
            if fld not in ("jump", "jump_subsequence", "seed"):
                continue
            n_copy += 1
            src = [r for r in ev.get("refs", []) if r.startswith("F:")]
            ok = any(r.split("::")[-1] == fld for r in src) and len(src) == 1
            cx.ob("C13.2-wiring", "XorwowRngParamsData::operator= copies %s from other.%s [%s]"
                  % (fld, fld, f.inst[-60:]), ok, "rhs %s" % ev.get("rhs"), short(ev["loc"]),
                  why="the host->device/reference copy must not permute the tables")
    cx.floor("params copy-assign field writes", n_copy, 3)

    # ======================================================= 3. jump(g)=g(T)
    consts = {}
    for nm in ("num_words", "num_bits"):
        for f in db.get(C + "XorwowRngParamsData::" + nm):
            for _b, _i, ev in f.events("return"):
                pass
        fs_ = [f for f in db.get(C + "XorwowRngParamsData::" + nm) if "ast" in f.r]
        for f in fs_:
            rets = find_all(f.r["ast"], "ReturnStmt")
            if rets:
                v = const_int(rets[0]["c"][0])
                if v is not None:
                    consts[C + "XorwowRngParamsData::" + nm] = v
    cx.require(len(consts) == 2, "could not fold num_words()/num_bits(): %s" % consts)
    fjp = one(db, ENG + "::jump", lambda f: len(f.r["params"]) == 1)
    res, total = interp_jump_poly(fjp.r["ast"], consts, fjp.r["params"][0]["n"])
    want = set((m, m) for m in range(NBITS))
    ok = "acc" in res and all(w == want for w in res["acc"]) and total == NBITS \
        and res.get("at") == NBITS
    bad = ""
    if "acc" in res and not ok:
        for k, w in enumerate(res["acc"]):
            d = sorted(w ^ want)[:4]
            if d:
                bad += " word %d differs at (bit,power) %s;" % (k, d)
    cx.ob("C13.3-jump-applies-g(T)", "jump(g) == sum_m g_m T^m for symbolic g", ok,
          "iterations %d, consts %s;%s" % (total, consts, bad), short(fjp.loc),
          why="jump(g) must evaluate the polynomial at T, bit m of g (little-endian words) "
              "selecting T^m; any other pairing makes skip-ahead differ from stepping")

    # ============================================================ 4. digits
    # A5 (lib/bitpath.py): jump(count, table) interpreted for all 64-bit counts at once
    fjd = one(db, ENG + "::jump", lambda f: len(f.r["params"]) == 2)
    m = re.search(r"Array<celeritas::Array<unsigned int, 5>, (\d+)>", fjd.r["params"][1]["cty"])
    cx.require(m, "cannot read the jump-table length from the parameter type")
    L = int(m.group(1))
    cty = fjd.r["params"][0]["cty"]
    cx.ob("C13.4-digit-loop", "count is a 64-bit unsigned", cty == "unsigned long long", cty,
          short(fjd.loc), why="discard(n) must be exact for every 64-bit n")
    import bitpath
    paths = bitpath.explore(fjd, L, ENG + "::jump")
    width = bitpath.width_of(cty) or 64
    okp, cex, st = bitpath.check_paths(paths, width, L)
    cx.count("digit-loop paths", len(paths))
    cx.ob("C13.4-digit-loop", "for every count: table[j] is applied exactly digit_j(count) times "
          "(digits in base 4), no other jump", okp,
          cex or "%d paths (one per position of the leading one), %d symbolic calls; every bit p of "
                 "count occurs once, as bit i of the multiplicity of jump(table[j]) with i + 2j = p"
                 % (st.get("paths", 0), st.get("calls", 0)), short(fjd.loc),
          why="table[j] advances by 4^j steps (C13.2), so the total advance is count exactly when "
              "each base-4 digit is paired with its own table entry; a digit paired with another "
              "entry makes discard(n) differ from n draws, and subsequence skips overlap")
    cx.ob("C13.4-digit-loop", "table length * 2 >= width of count", L * 2 >= width,
          "%d entries, %d-bit count" % (L, width), short(fjd.loc),
          why="otherwise a large count indexes past the table")

    # ============================================================== 5. Weyl
    fop = one(db, ENG + "::operator()")
    fdis = one(db, ENG + "::discard")
    fsub = one(db, ENG + "::discard_subsequence")
    w1 = weyl_of(fop)
    w2 = weyl_of(fdis)
    w3 = weyl_of(fsub)
    cx.ob("C13.5-weyl", "operator() calls next() once, then adds the Weyl constant, then returns "
          "weyl + x[4]", w1["shape_ok"], w1["d"], short(fop.loc),
          why="the output function must see the updated state exactly once per draw")
    cx.ob("C13.5-weyl", "discard() jumps with params.jump and adds count*K in 32-bit arithmetic",
          w2["discard_ok"], w2["d"], short(fdis.loc),
          why="the Weyl sequence must advance by count*K mod 2^32")
    cx.ob("C13.5-weyl", "Weyl increment equals discard multiplier",
          w1.get("K") is not None and w1.get("K") == w2.get("K"),
          "K(operator())=%s K(discard)=%s" % (w1.get("K"), w2.get("K")), short(fdis.loc),
          why="otherwise discard(n) and n draws disagree in the Weyl word")
    cx.ob("C13.5-weyl", "discard_subsequence() jumps with params.jump_subsequence and leaves the "
          "Weyl word alone (2^67*K == 0 mod 2^32)", w3["subseq_ok"] and ((1 << 67) * (w1.get("K") or 1)) % (1 << 32) == 0,
          w3["d"], short(fsub.loc))

    # ================================================= 6. initialisation order
    fin = one(db, ENG + "::operator=")
    evs = [(b, i, e) for (b, i, e) in fin.events()]
    order = []
    for b, i, e in sorted(evs, key=lambda t: (-t[0], t[1])):
        if e["e"] == "call" and e["callee"] in (ENG + "::discard_subsequence", ENG + "::discard"):
            order.append((e["callee"].split("::")[-1], e["args"][0]["t"] if e.get("args") else ""))
    ok = [o[0] for o in order] == ["discard_subsequence", "discard"] \
        and "subsequence" in order[0][1] and "offset" in order[1][1]
    cx.ob("C13.6-init", "operator=(Initializer) skips subsequences, then the offset", ok,
          str(order), short(fin.loc),
          why="the stream of (subsequence, offset) must start at 2^67*subsequence + offset")
    wr = set()
    for _b, _i, e in fin.events("write"):
        ch = e.get("path", {}).get("chain", [])
        if any(x.endswith("XorwowState::weylstate") for x in ch):
            wr.add("weyl")
    idx = set()
    for n in walk(fin.r["ast"]):
        if n["k"] == "BinaryOperator" and n["op"] == "=":
            l = strip(n["c"][0])
            if l["k"] == "CXXOperatorCallExpr" and l.get("oop") == "[]":
                c = const_int(l["c"][2])
                if c is not None:
                    idx.add(c)
    cx.ob("C13.6-init", "all five state words and the Weyl word are seeded",
          idx == {0, 1, 2, 3, 4} and "weyl" in wr, "words %s, weyl %s" % (sorted(idx), bool(wr)),
          short(fin.loc), why="an unseeded word keeps the previous event's value")

    # ============================================================ 7. reseed
    frs = one(db, C + "reseed_rng", lambda f: find_all(f.r["ast"], "ForStmt"))
    rs = reseed_shape(frs)
    for key, text, why in (
            ("formula", "subsequence = event * size + slot",
             "injective in (event, slot) only with the *size factor and slot < size"),
            ("bound", "slot loop runs over [0, size)", "every slot must be reseeded"),
            ("types", "computed in 64-bit unsigned arithmetic", "a 32-bit product wraps after few events"),
            ("engine", "each slot's engine is assigned the initializer", "")):
        cx.ob("C13.7-reseed", text, rs[key], rs.get(key + "_d", ""), short(frs.loc), why=why)
    cx.ob("C13.7-reseed", "2^64 subsequences * 2^67 < period", (1 << 131) < N, "2^131 < 2^160-1")
    cx.assume("event_id * size + slot does not wrap 64 bits")
    cx.assume("no track slot draws 2^67 numbers within one event")

    # ========================================================= 8. canonical
    for f in db.get(C + "detail::GenerateCanonical32::operator()"):
        if "ast" not in f.r:
            continue
        res = canonical_range(f)
        which = "float" if "<float>" in f.inst else "double"
        cx.ob("C13.8-canonical", "GenerateCanonical32<%s> result < 1" % which, res["ok"],
              res["d"], short(f.loc),
              why="callers take log(1-u) / index by floor(u*n): u == 1.0 is outside [0,1)")
    cx.floor("canonical specialisations analysed",
             sum(1 for o in cx.obs if o["rule"] == "C13.8-canonical"), 2)


# ---------------------------------------------------------------------------
def digit_loop(f):
    ast = f.r["ast"]
    out = {"inner_ok": False, "idx_ok": False, "shift_ok": False, "count64": False,
           "mask": -1, "shift": -1}
    count = f.r["params"][0]["n"]
    out["count64"] = f.r["params"][0]["cty"] == "unsigned long long"
    out["count64_d"] = f.r["params"][0]["cty"]
    consts = {}
    idxvar = None
    wh = None
    for st in ast["c"]:
        if st["k"] == "DeclStmt":
            for vd in st["c"]:
                v = const_int(vd["c"][0])
                if v is None:
                    raise OutOfVocabulary("jump(count): non-constant local " + vd["name"])
                consts[vd["name"]] = v
        elif st["k"] == "WhileStmt":
            if wh is not None:
                raise OutOfVocabulary("jump(count): two loops")
            wh = st
        else:
            raise OutOfVocabulary("jump(count): statement outside vocabulary: " + st["k"])
    if wh is None:
        raise OutOfVocabulary("jump(count): no while loop")
    cond = strip([c for c in wh["c"] if c is not None][0])
    body = [c for c in wh["c"] if c is not None][-1]
    cond_ok = cond["k"] == "BinaryOperator" and cond["op"] in (">", "!=") \
        and strip(cond["c"][0]).get("name") == count and const_int(cond["c"][1]) == 0
    digitvar = None
    n_for = n_inc = n_shift = 0
    inner_ok = False
    for st in body["c"]:
        if st["k"] == "DeclStmt":
            vd = st["c"][0]
            e = strip(vd["c"][0])
            if e["k"] == "BinaryOperator" and e["op"] == "&":
                a = strip(e["c"][0], also=("CXXStaticCastExpr",))
                b = strip(e["c"][1])
                mv = const_int(e["c"][1])
                if mv is None and b["k"] == "DeclRefExpr":
                    mv = consts.get(b["name"])
                if a.get("name") == count and mv is not None:
                    out["mask"] = mv
                    digitvar = vd["name"]
                    continue
            raise OutOfVocabulary("jump(count): unexpected declaration " + vd["name"])
        elif st["k"] == "ForStmt":
            n_for += 1
            init, _cv, fcond, inc, fbody = st["c"]
            iv = init["c"][0]
            c = strip(fcond)
            ok = const_int(iv["c"][0]) == 0 and c["k"] == "BinaryOperator" and c["op"] == "<" \
                and strip(c["c"][0]).get("name") == iv["name"] \
                and strip(c["c"][1]).get("name") == digitvar \
                and inc["k"] == "UnaryOperator" and inc["op"] == "++" \
                and strip(inc["c"][0]).get("name") == iv["name"]
            calls = [x for x in walk(fbody) if x["k"] == "CXXMemberCallExpr"]
            okc = len(calls) == 1 and calls[0].get("callee") == ENG + "::jump"
            if okc:
                arg = strip(calls[0]["c"][1])
                okc = arg["k"] == "CXXOperatorCallExpr" and arg.get("oop") == "[]" \
                    and strip(arg["c"][1]).get("name") == f.r["params"][1]["n"]
                if okc:
                    idxvar = strip(arg["c"][2]).get("name")
            # no other side effects in the loop body
            others = [x for x in walk(fbody) if x["k"] in ("CompoundAssignOperator",)
                      or (x["k"] == "UnaryOperator" and x["op"] in ("++", "--"))
                      or (x["k"] == "BinaryOperator" and x["op"] == "=")]
            inner_ok = ok and okc and not others
            out["inner_ok_d"] = "for(%s=0; %s<%s; ++) jump(table[%s])" % (iv["name"], iv["name"],
                                                                          digitvar, idxvar)
        elif st["k"] == "UnaryOperator" and st["op"] == "++":
            if strip(st["c"][0]).get("name") == idxvar and idxvar is not None:
                n_inc += 1
            else:
                raise OutOfVocabulary("jump(count): increment of " + show(st))
        elif st["k"] == "CompoundAssignOperator" and st["op"] == ">>=":
            if strip(st["c"][0]).get("name") == count:
                n_shift += 1
                out["shift"] = const_int(st["c"][1])
            else:
                raise OutOfVocabulary("jump(count): shift of " + show(st))
        else:
            raise OutOfVocabulary("jump(count): statement outside vocabulary: %s" % show(st))
    out["inner_ok"] = inner_ok and n_for == 1
    out["idx_ok"] = n_inc == 1 and consts.get(idxvar) == 0
    out["idx_ok_d"] = "%s starts at %s, %d increment(s) per digit" % (idxvar, consts.get(idxvar), n_inc)
    out["shift_ok"] = n_shift == 1 and cond_ok and out["shift"] is not None
    out["shift_ok_d"] = "while(%s) ... %s >>= %s" % (show(cond), count, out["shift"])
    if out["shift"] is None:
        out["shift"] = -1
    return out


def weyl_of(f):
    ast = f.r["ast"]
    out = {"shape_ok": False, "discard_ok": False, "subseq_ok": False, "K": None, "d": ""}
    seq = []
    for st in ast["c"]:
        k = st["k"]
        if k == "CXXMemberCallExpr":
            cal = st.get("callee", "")
            args = [show(a) for a in st["c"][1:]]
            seq.append(("call", cal.split("::")[-1], args))
        elif k == "CompoundAssignOperator" and st["op"] == "+=" \
                and strip(st["c"][0]).get("name") == "weylstate":
            rhs = strip(st["c"][1])
            ty = strip(st["c"][0]).get("ty", "")
            if rhs["k"] == "IntegerLiteral":
                seq.append(("weyl+=", int(rhs["val"]), ty))
            elif rhs["k"] == "BinaryOperator" and rhs["op"] == "*":
                a, b = rhs["c"][0], rhs["c"][1]
                kk = const_int(b) if const_int(b) is not None else const_int(a)
                other = a if const_int(b) is not None else b
                cast = other if other["k"] == "CXXStaticCastExpr" else strip(other)
                seq.append(("weyl+=count*", kk, cast.get("ty", ""), show(other),
                            rhs.get("ty", "")))
            else:
                seq.append(("weyl+=?", show(rhs)))
        elif k == "ReturnStmt":
            seq.append(("return", show(st["c"][0])))
        elif k in ("DoStmt", "NullStmt"):
            continue
        else:
            seq.append(("other", k, show(st)))
    out["d"] = str(seq)
    if len(seq) == 3 and seq[0][:2] == ("call", "next") and seq[1][0] == "weyl+=" \
            and seq[2][0] == "return":
        r = seq[2][1].replace(" ", "")
        ok_ret = r in ("(this->state_->weylstate+this->state_->xorstate[4])",
                       "(this->state_->xorstate[4]+this->state_->weylstate)")
        out["shape_ok"] = ok_ret and "unsigned int" in seq[1][2]
        out["K"] = seq[1][1]
    if len(seq) == 2 and seq[0][:2] == ("call", "jump") and seq[1][0] == "weyl+=count*":
        a = seq[0][2]
        out["discard_ok"] = len(a) == 2 and a[1].endswith("params_.jump") \
            and seq[1][2] == "unsigned int" and seq[1][4] == "unsigned int" \
            and a[0] == seq[1][3]
        out["K"] = seq[1][1]
    if len(seq) == 1 and seq[0][:2] == ("call", "jump"):
        a = seq[0][2]
        out["subseq_ok"] = len(a) == 2 and a[1].endswith("params_.jump_subsequence")
    return out


def reseed_shape(f):
    ast = f.r["ast"]
    out = {"formula": False, "bound": False, "types": False, "engine": False}
    fors = find_all(ast, "ForStmt")
    if len(fors) != 1:
        raise OutOfVocabulary("reseed_rng: expected one slot loop, found %d" % len(fors))
    st = fors[0]
    init, _cv, cond, inc, body = st["c"]
    iv = init["c"][0]
    c = strip(cond)
    sizevar = None
    if c["k"] == "BinaryOperator" and c["op"] == "<" and strip(c["c"][0]).get("name") == iv["name"]:
        sizevar = strip(c["c"][1]).get("name")
    # size defined from state.size()
    size_ok = False
    size_ty = ""
    for n in walk(ast):
        if n["k"] == "VarDecl" and n.get("name") == sizevar:
            size_ty = n["ty"]
            callee = [x.get("callee", "") for x in walk(n) if x["k"] in ("CXXMemberCallExpr", "CallExpr")]
            size_ok = any(x.endswith("::size") for x in callee)
    out["bound"] = sizevar is not None and size_ok and const_int(iv["c"][0]) == 0 \
        and inc["k"] == "UnaryOperator" and inc["op"] == "++"
    out["bound_d"] = "for(%s=0; %s; ++) with %s = state.size()" % (iv["name"], show(c), sizevar)
    for n in walk(body):
        if n["k"] == "BinaryOperator" and n["op"] == "=" \
                and strip(n["c"][0]).get("name") == "subsequence":
            rhs = strip(n["c"][1])
            out["formula_d"] = show(rhs)
            if rhs["k"] == "BinaryOperator" and rhs["op"] == "+":
                a, b = strip(rhs["c"][0]), strip(rhs["c"][1])
                if b.get("name") == iv["name"] and a["k"] == "BinaryOperator" and a["op"] == "*":
                    x, y = strip(a["c"][0]), strip(a["c"][1])
                    names = {y.get("name"), x.get("name")}
                    ev_ok = any(q.get("callee", "").endswith("OpaqueId::unchecked_get")
                                or q.get("callee", "").endswith("OpaqueId::get")
                                for q in walk(a))
                    out["formula"] = sizevar in names and ev_ok
                    out["types"] = rhs.get("ty") == "unsigned long long" \
                        and a.get("ty") == "unsigned long long" and size_ty == "unsigned long long"
                    out["types_d"] = "sum: %s, product: %s, size: %s" % (rhs.get("ty"), a.get("ty"),
                                                                          size_ty)
    # engine = init for TrackSlotId{i}
    eng_ok = False
    for n in walk(body):
        if n["k"] == "CXXOperatorCallExpr" and n.get("oop") == "=" \
                and n.get("callee", "").endswith("RngEngine::operator="):
            eng_ok = True
    slot_ok = False
    for n in walk(body):
        if n["k"] == "VarDecl" and "RngEngine" in n.get("ty", ""):
            refs = [x.get("name") for x in walk(n) if x["k"] == "DeclRefExpr"]
            slot_ok = iv["name"] in refs
    out["engine"] = eng_ok and slot_ok
    out["engine_d"] = "engine(params, state, TrackSlotId{%s}); engine = init" % iv["name"]
    return out


# ---------------------------------------------------------------------------
# A2: range of the canonical conversion (exact rational/IEEE reasoning)
# ---------------------------------------------------------------------------
def float_bits_to_fraction(bits_hex, ty):
    from fractions import Fraction
    b = int(bits_hex, 16)
    if ty == "float":
        sign, exp, man = b >> 31, (b >> 23) & 0xff, b & 0x7fffff
        bias, mbits = 127, 23
    else:
        sign, exp, man = b >> 63, (b >> 52) & 0x7ff, b & ((1 << 52) - 1)
        bias, mbits = 1023, 52
    if exp == 0:
        v = Fraction(man, 1 << mbits) * Fraction(2) ** (1 - bias)
    else:
        v = (1 + Fraction(man, 1 << mbits)) * Fraction(2) ** (exp - bias)
    return -v if sign else v


def round_to(ty, x):
    """round a non-negative Fraction to nearest-even in float/double"""
    from fractions import Fraction
    if x == 0:
        return x
    mbits = 24 if ty == "float" else 53
    # find e with 2^e <= x < 2^(e+1)
    n, d = x.numerator, x.denominator
    e = n.bit_length() - d.bit_length()
    if Fraction(2) ** e > x:
        e -= 1
    scale = Fraction(2) ** (e - mbits + 1)
    q = x / scale
    fl = q.numerator // q.denominator
    rem = q - fl
    if rem > Fraction(1, 2) or (rem == Fraction(1, 2) and fl % 2 == 1):
        fl += 1
    return fl * scale


def canonical_range(f):
    from fractions import Fraction
    ast = f.r["ast"]
    rets = find_all(ast, "ReturnStmt")
    if len(rets) != 1:
        raise OutOfVocabulary("GenerateCanonical32: expected one return")
    e = strip(rets[0]["c"][0])
    fty = "float" if "<float>" in f.inst else "double"
    # constants
    consts = {}
    for n in walk(ast):
        if n["k"] == "VarDecl" and n["c"] and n["c"][0] is not None:
            fl = [x for x in walk(n) if x["k"] == "FloatingLiteral"]
            if fl and len(list(walk(n["c"][0]))) <= 3:
                consts[n["name"]] = float_bits_to_fraction(fl[0]["bits"], n["ty"].replace("const ", ""))
    rngvars = {}
    for n in walk(ast):
        if n["k"] == "VarDecl" and n["c"] and n["c"][0] is not None:
            calls = [x for x in walk(n["c"][0]) if x["k"] in ("CXXOperatorCallExpr", "CallExpr")]
            if calls and n["ty"].replace("const ", "").strip() == "unsigned int":
                rngvars[n["name"]] = (0, (1 << 32) - 1)

    def irange(n):
        """integer interval of an unsigned integral expression"""
        n0 = n
        n = strip(n)
        k = n["k"]
        c = const_int(n)
        if c is not None:
            return (c, c)
        if k == "DeclRefExpr" and n["name"] in rngvars:
            return rngvars[n["name"]]
        if k == "DeclRefExpr" and n["name"] in locals_ and "int" in n.get("ty", ""):
            return irange(locals_[n["name"]])
        if k == "ConditionalOperator":
            c, a, b = strip(n["c"][0]), n["c"][1], n["c"][2]
            ia, ib = irange(a), irange(b)
            if c["k"] == "BinaryOperator" and c["op"] in ("<", "<=") and \
                    show(c["c"][0]) == show(a) and show(c["c"][1]) == show(b):
                return (min(ia[0], ib[0]), min(ia[1], ib[1]))      # min(a, b)
            if c["k"] == "BinaryOperator" and c["op"] in (">", ">=") and \
                    show(c["c"][0]) == show(b) and show(c["c"][1]) == show(a):
                return (min(ia[0], ib[0]), min(ia[1], ib[1]))
            return (min(ia[0], ib[0]), max(ia[1], ib[1]))
        if k == "CallExpr" and n.get("callee") in (C + "min", "std::min"):
            ia, ib = irange(n["c"][1]), irange(n["c"][2])
            return (min(ia[0], ib[0]), min(ia[1], ib[1]))
        if k == "CXXStaticCastExpr":
            lo, hi = irange(n["c"][0])
            bits = 64 if "long long" in n["ty"] else 32
            if hi >= 1 << bits:
                raise OutOfVocabulary("canonical: narrowing cast")
            return (lo, hi)
        if k in ("CXXOperatorCallExpr", "CallExpr", "CXXMemberCallExpr"):
            if n.get("ty") == "unsigned int":
                return (0, (1 << 32) - 1)
        if k == "BinaryOperator":
            a, b = irange(n["c"][0]), irange(n["c"][1])
            bits = 64 if "long long" in n["ty"] else 32
            if n["op"] == "<<":
                if b[0] != b[1]:
                    raise OutOfVocabulary("canonical: variable shift")
                hi = a[1] << b[0]
                if hi >= 1 << bits:
                    raise OutOfVocabulary("canonical: shift overflows %d bits" % bits)
                return (a[0] << b[0], hi)
            if n["op"] in ("^", "|"):
                hb = max(a[1].bit_length(), b[1].bit_length())
                return (0, (1 << hb) - 1)
            if n["op"] == "-":
                if a[0] == a[1] and b[0] == b[1]:
                    return (a[0] - b[0], a[0] - b[0])
        raise OutOfVocabulary("canonical: integer expression outside vocabulary: " + show(n0))

    locals_ = {}
    for n in walk(ast):
        if n["k"] == "VarDecl" and n["c"] and n["c"][0] is not None \
                and n["name"] not in consts and n["name"] not in rngvars:
            locals_[n["name"]] = n["c"][0]
    notes = []

    def fmax(n, depth=0):
        """upper bound (exact, as Fraction) of a floating expression of type fty"""
        if depth > 20:
            raise OutOfVocabulary("canonical: expression too deep")
        n = strip(n)
        k = n["k"]
        if k == "FloatingLiteral":
            return float_bits_to_fraction(n["bits"], n["ty"])
        if k == "DeclRefExpr":
            if n["name"] in consts:
                return consts[n["name"]]
            if n["name"] in locals_:
                return fmax(locals_[n["name"]], depth + 1)
            raise OutOfVocabulary("canonical: unknown variable " + n["name"])
        if k == "BinaryOperator" and n["op"] == "*":
            a, b = n["c"][0], n["c"][1]
            sa = strip(a)
            if not (sa["k"] == "DeclRefExpr" and sa["name"] in consts):
                a, b = b, a
                sa = strip(a)
            if not (sa["k"] == "DeclRefExpr" and sa["name"] in consts):
                raise OutOfVocabulary("canonical: product without a literal constant factor")
            norm = consts[sa["name"]]
            bb = b
            while bb["k"] in ("ImplicitCastExpr", "ParenExpr") \
                    and bb.get("cast") != "IntegralToFloating":
                bb = bb["c"][0]
            if bb["k"] not in ("ImplicitCastExpr", "CXXStaticCastExpr"):
                raise OutOfVocabulary("canonical: second factor is not an integer conversion")
            lo, hi = irange(bb["c"][0])
            conv = round_to(fty, Fraction(hi))
            prod = round_to(fty, norm * conv)
            notes.append("max integer %d (< 2^%d) -> %s %s; norm = %s" % (
                hi, hi.bit_length(), fty,
                "exact" if conv == hi else "ROUNDS UP to %d" % conv,
                "2^-%d" % (norm.denominator.bit_length() - 1) if norm.numerator == 1
                else str(norm)))
            return prod
        if k == "ConditionalOperator":
            c, a, b = strip(n["c"][0]), n["c"][1], n["c"][2]
            ma, mb = fmax(a, depth + 1), fmax(b, depth + 1)
            if c["k"] == "BinaryOperator" and c["op"] in ("<", "<="):
                # x < y ? x : y  is min(x, y)
                if show(c["c"][0]) == show(a) and show(c["c"][1]) == show(b):
                    notes.append("clamped by min(., %s)" % show(b))
                    return min(ma, mb)
            if c["k"] == "BinaryOperator" and c["op"] in (">", ">="):
                if show(c["c"][0]) == show(b) and show(c["c"][1]) == show(a):
                    return min(ma, mb)
            return max(ma, mb)
        if k == "CallExpr" and n.get("callee") in (C + "min", "std::min"):
            return min(fmax(n["c"][1], depth + 1), fmax(n["c"][2], depth + 1))
        raise OutOfVocabulary("canonical: floating expression outside vocabulary: " + show(n))

    prod = fmax(e)
    ok = prod < 1
    d = "; ".join(notes) + "; max result %s" % (
        "1.0 exactly" if prod == 1 else ("1 - 2^-%d" % ((1 - prod).denominator.bit_length() - 1)
                                          if (1 - prod).numerator == 1 else str(float(prod))))
    return {"ok": ok, "d": d}
