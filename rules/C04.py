"""C04 - discrete interactions: allocation-failure discipline and booking clauses."""
from common import C, short, local_refs
from cfg import path_leaf
import shared
from facts import AnalysisBroken

EXPLANATION = (
    "For every interactor (function returning celeritas::Interaction that calls the secondary "
    "allocator): the allocation result is null-tested, the null edge returns "
    "Interaction::from_failure() on every path and touches nothing, every use of the pointer is "
    "dominated by the non-null edge; from_failure() marks the interaction failed with no "
    "secondaries; a cleared secondary has its energy booked; a partially filled allocation is "
    "shrunk before being attached.")
NOT_DECIDED = ("energy/momentum conservation of the sampled kinematics, unit vectors, thresholds, "
               "bounded number of draws (numeric / probabilistic)")

MODELS = ["KleinNishina", "LivermorePE", "BetheHeitler", "EPlusGG", "MollerBhabha", "SeltzerBerger",
          "RelativisticBrem", "CombinedBrem", "MuBremsstrahlung", "BetheBloch", "Rayleigh",
          "CoulombScattering", "MuBetheBloch", "Bragg", "ICRU73QO"]
TECHNIQUE = ('null-pointer discipline (test, failure edge must-return, use dominated by non-null edge) on the CFG of every interactor; booking-dominates-reset rule; reachability between bookings of the deposition (single booking per path); argument audit of every momentum-conservation helper call site; cut/particle pairing by guard provenance; index-domain (reaching definitions) rule on the relaxation cut tables; return-shape rule on the exiting-direction sampler')

UNITS = ["src/celeritas/em/model/%sModel.cc" % m for m in MODELS] + [
    "src/celeritas/neutron/model/ChipsNeutronElasticModel.cc",
    "src/celeritas/em/params/AtomicRelaxationParams.cc"]


def relax_cut_index(db, cx):
    """C04.12: the per-element production-cut tables that bound the relaxation cascade
    (AtomicRelaxationParams constructor) are indexed by *global* element ids: the size of the
    LivermorePE secondary block is computed from them (seeded change c04e indexed them by the
    position of the element inside its material)."""
    fs = db.get(C + "AtomicRelaxationParams::AtomicRelaxationParams")
    cx.require(fs, "anchor AtomicRelaxationParams constructor not found")
    n = 0
    for f in fs:
        defs = {}
        for (_b, _i, e) in f.events("def"):
            if e.get("var"):
                defs.setdefault(e["var"], []).append(e)
        # local tables sized by the global number of elements
        sizes = set(v for v, ds in defs.items() for d in ds
                    if C + "MaterialParams::num_elements" in d.get("calls", []))
        tables = {}
        for v, ds in defs.items():
            for d in ds:
                if d.get("kind") == "decl" and "std::vector::vector" in d.get("calls", []) \
                        and set(local_refs(d.get("refs", []))) & sizes:
                    tables[v] = sorted(set(local_refs(d.get("refs", []))) & sizes)[0]
        cx.require(tables, "AtomicRelaxationParams: per-element cut tables not found")

        def origin(var, pos, depth=0):
            """('element_id',) | ('range', size var) | ('other', text): where the value of
            `var` at position pos comes from (reaching definitions, so that two loops that
            re-use a variable name are told apart)"""
            if depth > 5:
                return ("other", var)
            rds = [(b, i, d) for (b, i, d) in f.reaching_defs(var, pos) if d["e"] == "def"]
            res = []
            for (b, i, d) in rds:
                if C + "MaterialView::element_id" in d.get("calls", []):
                    res.append(("element_id",))
                    continue
                rhs = d.get("rhs") or ""
                if rhs.startswith("* __begin"):
                    got = ("other", rhs)
                    for (b2, i2, d2) in f.reaching_defs(d["refs"][0], (b, i)):
                        if d2.get("kind") != "decl":
                            continue
                        for r in d2.get("refs", []):
                            for (_b3, _i3, d3) in f.reaching_defs(r, (b2, i2)):
                                if C + "range" in d3.get("calls", []):
                                    lr = set(local_refs(d3.get("refs", [])))
                                    got = ("range", sorted(lr & sizes)[0]) if (lr & sizes and not (lr - sizes)) \
                                        else ("other", d3.get("rhs"))
                    res.append(got)
                    continue
                lr = [r for r in sorted(local_refs(d.get("refs", []))) if r != var]
                if len(lr) == 1 and not [c for c in d.get("calls", []) if not c.startswith(C + "OpaqueId")]:
                    res.append(origin(lr[0], (b, i), depth + 1))
                else:
                    res.append(("other", rhs))
            if not res:
                return ("other", var)
            bad = [r for r in res if r[0] == "other"]
            if bad:
                return bad[0]
            return res[0] if len(set(res)) == 1 else ("other", "mixed: %s" % sorted(set(res)))
        for (b_, i_, e) in f.events("call"):
            if e["callee"] != "std::vector::operator[]":
                continue
            recv = (e.get("recv") or {}).get("path", {})
            tab = recv.get("root", "")[2:] if recv.get("root", "").startswith("l:") and not recv.get("chain") else None
            if tab not in tables:
                continue
            idx = sorted(local_refs(e["args"][0].get("refs", [])))
            o = origin(idx[0], (b_, i_)) if len(idx) == 1 else ("other", e["args"][0].get("t"))
            ok = o[0] == "element_id" or (o[0] == "range" and o[1] == tables[tab])
            n += 1
            cx.ob("C04.12-relax-cut-index", "%s[%s] @%s is indexed by a global element id" % (
                tab, e["args"][0].get("t"), short(e["loc"]).split(":", 1)[1]), ok,
                "index comes from %s" % ("MaterialView::element_id" if o[0] == "element_id" else
                                         "range(%s)" % o[1] if o[0] == "range" else "`%s`" % o[1]),
                short(e["loc"]),
                why="the minimum production cuts per element bound the number of relaxation "
                    "secondaries (max_secondary); with a table indexed by the component position the "
                    "bound is computed from another element's cuts, LivermorePE reserves too few "
                    "slots and (the size check being a debug assertion) writes past its allocation")
    cx.floor("relaxation cut table subscripts", n, 6)



def exiting_sampler_rotates(db, cx):
    """C04.13 (seeded change c04f): ExitingDirectionSampler samples a direction relative to the
    incident one and hands it out in the lab frame: every return is rotate(<local direction>,
    <incident direction member>).  A shortcut that returns the local direction for an incident
    direction along the z axis is wrong for -z (the rotation is a half turn there)."""
    fs = db.get(C + "ExitingDirectionSampler::operator()")
    cx.require(fs, "anchor ExitingDirectionSampler::operator() not found")
    f = fs[0]
    rets = [e for (_b, _i, e) in f.events("return")]
    ok = bool(rets)
    det = []
    for e in rets:
        good = C + "rotate" in e.get("calls", []) and \
            "F:" + C + "ExitingDirectionSampler::direction" in e.get("refs", []) and \
            (e.get("t") or "").lstrip().startswith("rotate(")
        if not good:
            # a local that was defined by rotate(..., direction)
            lr = sorted(local_refs(e.get("refs", [])))
            good = len(lr) == 1 and (e.get("t") or "").strip() == lr[0] and all(
                C + "rotate" in d.get("calls", []) and
                "F:" + C + "ExitingDirectionSampler::direction" in d.get("refs", [])
                for (_b2, _i2, d) in f.events("def") if d.get("var") == lr[0])
        ok = ok and good
        det.append((e.get("t") or "")[:60])
    cx.ob("C04.13-exiting-rotated", "ExitingDirectionSampler returns rotate(local direction, incident direction) on every path",
          ok, "; ".join(det), short(f.loc),
          why="the primary's direction is computed from this secondary direction by momentum "
              "conservation (calc_exiting_direction); an unrotated direction conserves energy and "
              "unit length but not momentum")

def run(db, cx):
    relax_cut_index(db, cx)
    exiting_sampler_rotates(db, cx)
    # 1. K6
    shared.null_discipline(db, cx, "C04.1-alloc", 10)

    # 2. from_failure()
    fs = db.get(C + "Interaction::from_failure")
    cx.require(fs, "anchor Interaction::from_failure not found")
    for f in fs:
        acts = [ev for (_b, _i, ev) in f.events("write")
                if path_leaf(ev.get("path")) == C + "Interaction::action"]
        ok = len(acts) == 1 and acts[0].get("enum", "").endswith("Action::failed")
        others = [ev for (_b, _i, ev) in f.events("write")
                  if path_leaf(ev.get("path")) not in (C + "Interaction::action",)
                  and ev.get("path", {}).get("root", "").startswith("l:")
                  and ev.get("path", {}).get("chain")]
        cx.ob("C04.2-from-failure", "from_failure sets action=failed and nothing else",
              ok and not others, "writes: %s" % [e.get("lhs") for e in acts + others], short(f.loc),
              why="the applier recognises an allocation failure only by Action::failed; stray "
                  "secondaries or energies on a failed result would be applied")
    for nm in ("changed", "operator bool"):
        for f in db.get(C + "Interaction::" + nm):
            rets = [ev for (_b, _i, ev) in f.events("return")]
            refs = set()
            for r in rets:
                refs |= set(r.get("refs", []))
            ok = any(x.endswith("Action::scattered") or x.endswith("Action::unchanged")
                     or x.endswith("Action::failed") for x in refs)
            cx.ob("C04.2-from-failure", "Interaction::%s distinguishes failed/unchanged" % nm,
                  ok, "return %s" % [r.get("t") for r in rets], short(f.loc))

    # 3. cleared secondary => energy booked (interactor side)
    SEC_E = "F:" + C + "Secondary::energy"
    n = 0
    for f in db.all_funcs():
        if "Interaction" not in f.r.get("ret", "") or "Interactor" not in f.name:
            continue
        resets = [(b, i, ev) for (b, i, ev) in f.events("write")
                  if ev.get("kind") == "opassign" and ev.get("rhs") == "{}" and i > 0
                  and f.blocks[b]["ev"][i - 1].get("callee") == C + "Secondary::operator="]
        for (b, i, ev) in resets:
            n += 1
            books = [(bb, k) for (bb, k, e) in f.events("write")
                     if path_leaf(e.get("path")) == C + "Interaction::energy_deposition"
                     and SEC_E in e.get("refs", [])]
            ok = any(f.dominates(p, (b, i)) for p in books)
            cx.ob("C04.3-cleared-secondary", "reset@%s in %s" % (short(ev["loc"]),
                                                                 f.name.split("::")[-2]),
                  ok, "Interaction::energy_deposition receives the secondary's energy first",
                  short(ev["loc"]),
                  why="a sub-threshold secondary that is dropped must deposit its energy locally")
    cx.floor("interactor reset sites", n, 1)

    # 4. partially filled allocation is shrunk before being attached (LivermorePE)
    name = C + "LivermorePEInteractor::operator()"
    fs = db.get(name)
    cx.require(fs, "anchor %s not found" % name)
    for f in fs:
        relax = [(b, i) for (b, i, ev) in f.calls(C + "AtomicRelaxation::operator()")]
        cx.require(relax, "LivermorePE no longer samples atomic relaxation")
        attach = [(b, i, ev) for (b, i, ev) in f.events("write")
                  if path_leaf(ev.get("path")) == C + "Interaction::secondaries"]
        cx.require(attach, "LivermorePE no longer attaches secondaries to the result")
        span_vars = set()
        for (_b, _i, ev) in attach:
            span_vars |= local_refs(ev.get("refs", []))
        relax_vars = set(ev.get("var") for (_b, _i, ev) in f.events("def")
                         if C + "AtomicRelaxation::operator()" in ev.get("calls", []))
        shr = [(b, i, ev) for (b, i, ev) in f.events()
               if ev["e"] in ("write", "def") and (ev.get("var") in span_vars
                                                   or ev.get("lhs") in span_vars)
               and relax_vars & set(ev.get("refs", []))]
        ok = bool(shr)
        for (rb, ri) in relax:
            for (ab, ai, _e) in attach:
                if ab in f.reach([rb]):
                    # every path relax -> attach passes the shrink
                    okp, _p = f.must_pass(
                        lambda e: e.get("loc") in [s[2]["loc"] for s in shr] and e["e"] in ("write", "def"),
                        start=(rb, ri), unless=None)
                    blocked = [s[0] for s in shr]
                    r = f.reach([rb], blocked_blocks=[x for x in blocked if x != rb])
                    if ab in r and not any(s[0] == rb and s[1] > ri for s in shr):
                        ok = False
        cx.ob("C04.4-shrink-span", "relaxation output count shrinks the span before it is attached",
              ok, "secondaries = {data, 1 + outgoing.count} between sampling and attachment",
              short(f.loc),
              why="otherwise unfilled (default) secondaries from the over-allocation are emitted")

    threshold_pairing(db, cx)
    shell_threshold(db, cx)
    single_booking(db, cx)
    momentum_closure(db, cx)
    unit_directions(db, cx)
    secondary_complete(db, cx)
    absorbed_without_products(db, cx)


def threshold_pairing(db, cx):
    """C04.5: a secondary that is created only above a production threshold is tested against the
    threshold of *its own* particle type.  Cut members are identified by their constructor
    initialiser `cutoffs.energy(ids.P)`; every write `secondary.particle_id = ids.P'` that is
    guarded by a comparison with a cut member (directly or through a local chosen by `c ? a : b`)
    must pair P' with the cut of P'."""
    import re
    PARTS = ("electron", "gamma", "positron")
    norm = lambda t: (t or "").replace(" ", "").replace("this->", "")

    def part_of(text):
        m = re.search(r"\.(electron|gamma|positron)$", norm(text))
        return m.group(1) if m else None

    def arms(text):
        m = re.match(r"^(.*?)\?(.*?):(.*)$", norm(text))
        return (m.group(1), m.group(2), m.group(3)) if m else None

    n = 0
    classes = {}
    for f in db.all_funcs():
        if not f.r.get("ctor") or "/em/" not in f.loc:
            continue
        for (_b, _i, ev) in f.events("write"):
            if ev.get("kind") != "ctorinit":
                continue
            m0 = re.search(r"\.energy\(.*?(electron|gamma|positron)(_id_?)?\)$", norm(ev.get("rhs")))
            if not m0 or "cutoff" not in norm(ev.get("rhs")).lower():
                continue
            ps = [m0.group(1)]
            leaf = path_leaf(ev.get("path"))
            if leaf and len(set(ps)) == 1:
                classes.setdefault(f.r.get("cls") or leaf.rsplit("::", 1)[0], {})[leaf.split("::")[-1]] = ps[0]
    cx.count("classes with per-particle cut members", len(classes))
    for cls, cuts in sorted(classes.items()):
        for name in db.find("^" + re.escape(cls) + r"::operator\(\)$"):
            for f in db.get(name):
                for (b, i, ev) in f.events("write"):
                    if path_leaf(ev.get("path")) != C + "Secondary::particle_id":
                        continue
                    rhs = ev.get("rhs", "")
                    pa = arms(rhs)
                    p_single = part_of(rhs) if not pa else None
                    for br in f.branch_blocks(lambda c, _b: c.get("op") in (">=", ">", "<", "<=")):
                        c = f.blocks[br]["cond"]
                        if not (f.guarded_by_edge((b, i), br, 0) or f.guarded_by_edge((b, i), br, 1)):
                            continue
                        mem = [x.split("::")[-1] for x in c.get("refs", []) if x.startswith("F:" + cls + "::")
                               and x.split("::")[-1] in cuts]
                        cut_arms = None
                        if not mem:
                            for v in local_refs(c.get("refs", [])):
                                for (_b2, _i2, d) in f.reaching_defs(v, (br, 10 ** 6)):
                                    m2 = [x.split("::")[-1] for x in d.get("refs", [])
                                          if x.startswith("F:" + cls + "::") and x.split("::")[-1] in cuts]
                                    if m2:
                                        cut_arms = arms(d.get("rhs", "")) or ("", d.get("rhs", ""), d.get("rhs", ""))
                                        mem = m2
                        if not mem:
                            continue
                        n += 1
                        cutname = lambda t: next((k for k in cuts if norm(t).endswith(k)), None)
                        if cut_arms is None:
                            cm = {None: cuts.get(mem[0])} if len(set(mem)) == 1 else {}
                        else:
                            cm = {"cond": cut_arms[0], True: cuts.get(cutname(cut_arms[1])),
                                  False: cuts.get(cutname(cut_arms[2]))}
                        if pa:
                            pm = {"cond": pa[0], True: part_of(pa[1]), False: part_of(pa[2])}
                        else:
                            pm = {None: p_single}
                        if None in cm and None in pm:
                            ok = cm[None] is not None and cm[None] == pm[None]
                        elif "cond" in cm and "cond" in pm and cm["cond"] == pm["cond"]:
                            ok = cm[True] == pm[True] and cm[False] == pm[False] and cm[True] is not None
                        elif "cond" in cm and None in pm:
                            ok = cm[True] == cm[False] == pm[None]
                        elif None in cm and "cond" in pm:
                            ok = pm[True] == pm[False] == cm[None]
                        else:
                            ok = False
                        cx.ob("C04.5-threshold-pairing", "%s: secondary `%s` is tested against the cut of its "
                              "own particle type [@%s]" % (cls.split("::")[-1], norm(rhs)[-40:],
                                                            short(ev["loc"]).split(":")[-1]), ok,
                              "particle: %s; threshold in `%s`: %s" % (
                                  {k: v for k, v in pm.items()}, c.get("t"), {k: v for k, v in cm.items()}),
                              short(ev["loc"]),
                              why="a secondary tested against another particle's production cut is "
                                  "emitted below its own threshold (or suppressed above it), and the "
                                  "storage bound computed from the right cuts no longer covers it")
    cx.floor("cut-guarded secondary creations", n, 1)


def shell_threshold(db, cx):
    """C04.6: the photoelectron's energy is E - binding(shell), so a shell may only be selected
    if its own binding energy was compared with E.  In LivermorePEInteractor::sample_subshell
    every accumulation of a tabulated subshell cross section is guarded, inside the same loop
    iteration, by the test of the incident energy against that shell's binding energy (binding
    energies are not monotonic in the shell index for heavy elements, so a prefix skip does not
    do)."""
    from cfg import loops_of
    BE = "F:" + C + "LivermoreSubshell::binding_energy"
    fs = db.get(C + "LivermorePEInteractor::sample_subshell")
    cx.require(fs, "anchor LivermorePEInteractor::sample_subshell not found")
    n = 0
    for f in fs:
        loops = loops_of(f)
        for (b, i, ev) in f.events("def"):
            if ev.get("op") != "+=" or not any(c.endswith("GenericCalculator::operator()") for c in ev.get("calls", [])):
                continue
            n += 1
            inl = [(h, body) for (h, body) in loops if b in body]
            ok = False
            d = "the accumulation is not inside a loop"
            if inl:
                h, body = min(inl, key=lambda x: len(x[1]))
                d = "no test against this shell's binding energy inside the accumulating loop"
                for br in body:
                    c = f.blocks[br].get("cond")
                    if not c or BE not in c.get("refs", []) + c.get("allrefs", []):
                        continue
                    if len(f.blocks[br]["succ"]) == 2 and any(
                            f.blocks[br]["succ"][e] is not None and f.guarded_by_edge((b, i), br, e)
                            and f.blocks[br]["succ"][e] in body for e in (0, 1)):
                        ok = True
                        d = "guarded by `%s` in the same iteration" % c.get("t")
            cx.ob("C04.6-shell-threshold", "LivermorePE: a tabulated subshell cross section is accumulated "
                  "only after this shell's binding energy was compared with the photon energy [@%s]"
                  % short(ev["loc"]).split(":")[-1], ok, d, short(ev["loc"]),
                  why="selecting a shell whose binding energy exceeds the photon energy gives the "
                      "photoelectron a negative kinetic energy (and a deposit larger than the "
                      "incident energy)")
    cx.floor("tabulated subshell accumulations in sample_subshell", n, 1)



def single_booking(db, cx):
    """C04.7-deposition-single-booking: `Interaction::energy_deposition` is the only place where
    an interactor books energy that neither the outgoing particle nor a secondary carries.  A
    plain assignment that can execute after another booking on the same path overwrites it, and
    that energy is lost (two cut-off branches that each look right alone).  Later bookings must
    accumulate (`+=`)."""
    EDEP = C + "Interaction::energy_deposition"
    n = 0
    seen = set()
    for nm in db.find(r"^celeritas::.*(Interactor|Interaction|Relaxation).*"):
        for f in db.get(nm):
            ws = [(b, i, ev) for (b, i, ev) in f.events("write") if path_leaf(ev.get("path")) == EDEP]
            if not ws or f.loc in seen:
                continue
            seen.add(f.loc)
            for (b2, i2, w2) in ws:
                if w2.get("op") != "=":
                    continue
                if "F:" + EDEP in w2.get("refs", []):
                    continue       # x = x + ...: accumulating form
                over = []
                for (b1, i1, w1) in ws:
                    if w1 is w2:
                        continue
                    if w1.get("path", {}).get("root") != w2.get("path", {}).get("root"):
                        continue
                    rhs1 = (w1.get("rhs") or "").strip()
                    if w1.get("lit") in ("0", "0.0") or "zero_quantity" in rhs1 or rhs1 in ("{}", "0"):
                        continue
                    after = (b1 == b2 and i2 > i1) or \
                        (b2 in f.reach([x for x in f.succ(b1) if x is not None]))
                    if after:
                        over.append(short(w1["loc"]))
                n += 1
                cx.ob("C04.7-deposition-single-booking", "%s: the assignment of energy_deposition at %s does not "
                      "overwrite an earlier booking" % (nm.split("::")[-2], short(w2["loc"]).split(":", 1)[1]),
                      not over, "can follow the booking at %s" % ", ".join(over) if over else
                      "= %s" % (w2.get("rhs") or "")[:60], short(w2["loc"]),
                      why="energy booked by the earlier branch is neither deposited nor carried by any "
                          "particle once the field is overwritten")
    cx.floor("plain assignments of Interaction::energy_deposition", n, 5)


def _brace_items(t):
    """top-level items of a brace initialiser `{a, b}`"""
    t = (t or "").strip()
    if not (t.startswith("{") and t.endswith("}")):
        return None
    t, out, depth, cur = t[1:-1], [], 0, ""
    for ch in t.replace("->", "."):
        if ch in "([{":
            depth += 1
        elif ch in ")]}":
            depth -= 1
        if ch == "," and depth == 0:
            out.append(cur.strip())
            cur = ""
        else:
            cur += ch
    out.append(cur.strip())
    return [x.replace("this.", "").replace("this->", "").replace(" ", "") for x in out]


def momentum_closure(db, cx):
    """C04.8-momentum-closure: calc_exiting_direction(p_in, p_out) gives the direction of
    p_in - p_out, the one product whose direction is *not* sampled.  The rule instances are the
    call sites.  For the result to close the momentum balance the subtracted momentum must be
    that of another product: its direction is a product's (sampled) direction - not the incident
    direction again, which makes the result +-incident whatever was sampled - and it is not the
    very direction being assigned."""
    CED = C + "calc_exiting_direction"
    sites = list(db.callers_of(CED))
    cx.floor("calc_exiting_direction call sites", len(set(ev["loc"] for _f, ev in sites)), 4)
    seen = set()
    for f, ev in sites:
        if ev["loc"] in seen:
            continue
        seen.add(ev["loc"])
        a = ev.get("args", [])
        if len(a) != 2:
            continue
        p_in, p_out = _brace_items(a[0].get("t")), _brace_items(a[1].get("t"))
        who = f.name.split("::")[-2]
        if not p_in or not p_out or len(p_in) != 2 or len(p_out) != 2:
            raise AnalysisBroken("C04.8: momentum arguments of calc_exiting_direction at %s are not "
                                 "{magnitude, direction} initialisers" % short(ev["loc"]))
        # the write that receives the result
        pos = next(((b, i) for (b, i, e2) in f.events("call") if e2 is ev), None)
        lhs = None
        if pos:
            for e2 in f.blocks[pos[0]]["ev"][pos[1] + 1:pos[1] + 4]:
                if e2["e"] in ("write", "def") and CED in e2.get("calls", []):
                    lhs = (e2.get("lhs") or e2.get("var") or "").replace("this->", "").replace(" ", "")
                    break
        same_dir = p_in[1] == p_out[1]
        self_ref = lhs is not None and p_out[1] == lhs
        cx.ob("C04.8-momentum-closure", "%s: %s = direction of (p_in - p_out) subtracts another product's "
              "momentum" % (who, lhs or "result@" + short(ev["loc"]).split(":", 1)[1]),
              not same_dir and not self_ref,
              "p_in = {%s}, p_out = {%s}%s" % (", ".join(p_in), ", ".join(p_out),
                                             "; both along the same direction: the result is +-%s whatever "
                                             "the other product's sampled direction" % p_in[1] if same_dir else ""),
              short(ev["loc"]),
              why="with all products returned, the unsampled product must carry p_in minus the "
                  "sampled product's momentum; otherwise momentum is not conserved")


UNITC = {C + "make_unit_vector", C + "from_spherical", C + "rotate", C + "IsotropicDistribution::operator()",
         C + "ExitingDirectionSampler::operator()", C + "calc_exiting_direction"}


def _unit_value(db, ev, depth=0):
    """Is the value of this write / return a unit vector by construction?"""
    calls = set(ev.get("calls", []))
    aux = set(c for c in calls if c.endswith("::value") or c.endswith("Quantity::value")
              or c.endswith("::ExitingDirectionSampler") or c.split("::")[-1] in ("operator[]", "Momentum"))
    core = calls - aux
    arith = [c for c in core if c.split("::")[-1].startswith("operator") and c.split("::")[-1] not in
             ("operator()", "operator-", "operator[]", "operator=")]
    if arith:
        return False, "vector arithmetic on top: %s" % ", ".join(sorted(c.split("::")[-1] for c in arith))
    if core & UNITC:
        return True, "built by %s" % ", ".join(sorted(c.split("::")[-1] if not c.endswith("operator()")
                                                       else c.split("::")[-2] for c in core & UNITC))
    refs = [r for r in ev.get("refs", []) if r.startswith("F:")]
    if not core - {C + "operator-"} and refs and all(r.split("::")[-1] in ("inc_direction_", "direction") for r in refs) \
            and not any(ch in (ev.get("rhs") or ev.get("t") or "").replace("->", ".").lstrip("-") for ch in "+*/-"):
        return True, "copy%s of a direction" % (" (negated)" if (C + "operator-") in core else "")
    if depth < 2:
        for c in core:
            gs = db.get(c)
            rets = [r for g in gs for (_b, _i, r) in g.events("return")]
            if rets and all(_unit_value(db, r, depth + 1)[0] for r in rets):
                return True, "every return of %s is a unit vector" % c.split("::")[-1]
    return False, "not recognisably a unit vector: %s" % (ev.get("rhs") or ev.get("t") or "")[:70]


def unit_directions(db, cx):
    """C04.9-unit-directions: every direction an interactor hands out (Interaction::direction,
    Secondary::direction) is a unit vector by construction: the direct result of
    make_unit_vector / from_spherical / rotate / an isotropic or exiting-direction sampler / the
    momentum-conservation helper, a (negated) copy of such a direction, or a helper all of whose
    returns are - with no vector arithmetic on top."""
    n = 0
    seen = set()
    for nm in db.find(r"^celeritas::.*(Interactor|FinalStateHelper|AtomicRelaxation)::"):
        for f in db.get(nm):
            for (b, i, ev) in f.events("write"):
                if path_leaf(ev.get("path")) not in (C + "Secondary::direction", C + "Interaction::direction"):
                    continue
                if ev["loc"] in seen:
                    continue
                seen.add(ev["loc"])
                ok, how = _unit_value(db, ev)
                n += 1
                cx.ob("C04.9-unit-directions", "%s: %s is a unit vector by construction"
                      % (nm.split("::")[-2], (ev.get("lhs") or "").replace("this->", "")), ok, how,
                      short(ev["loc"]),
                      why="directions are used without renormalisation by the geometry and by the "
                          "next interaction")
    cx.floor("direction writes in interactors", n, 15)


def secondary_complete(db, cx):
    """C04.10-secondary-complete (sibling agreement): whoever fills one field of a Secondary
    fills all three - particle type, energy and direction.  A secondary with a default
    particle id or a zero direction is not a valid track."""
    tab = {}
    where = {}
    for nm in db.find(r"^celeritas::.*(Interactor|FinalStateHelper|AtomicRelaxation)::"):
        for f in db.get(nm):
            for (_b, _i, ev) in f.events("write"):
                pl = path_leaf(ev.get("path")) or ""
                if not pl.startswith(C + "Secondary::"):
                    continue
                obj = (ev.get("lhs") or "").replace("this->", "").rsplit(".", 1)[0].rsplit("->", 1)[0]
                key = (nm.split("::")[-2], obj)
                tab.setdefault(key, set()).add(pl.split("::")[-1])
                where.setdefault(key, short(ev["loc"]))
    cx.floor("secondaries filled field by field", len(tab), 8)
    for key, fields in sorted(tab.items()):
        missing = sorted({"particle_id", "energy", "direction"} - fields)
        cx.ob("C04.10-secondary-complete", "%s: `%s` gets particle_id, energy and direction" % key,
              not missing, "missing: %s" % ", ".join(missing) if missing else "all three written",
              where[key], why="an emitted secondary with a default field is an invalid track")


def _reaching_leaf_writes(f, var, leaf, pos):
    """write events to field `leaf` of local `var` that may reach pos (a write to the same
    field kills earlier ones on that path)"""
    out, seen = [], set()
    work = [(pos[0], pos[1])]
    first = True
    while work:
        b, upto = work.pop()
        if not first and b in seen:
            continue
        if not first:
            seen.add(b)
        first = False
        evs = f.blocks[b]["ev"]
        hit = None
        for k in range(min(upto, len(evs)) - 1, -1, -1):
            e = evs[k]
            if e["e"] == "write" and e.get("path", {}).get("root") == "l:" + var and \
                    path_leaf(e.get("path")) == leaf:
                hit = e
                break
            if e["e"] == "def" and e.get("var") == var and e.get("kind") == "decl":
                hit = "decl"
                break
        if hit == "decl":
            continue
        if hit is not None:
            out.append(hit)
            continue
        for p in f.preds(b):
            if p not in seen:
                work.append((p, 10 ** 9))
    return out


def absorbed_without_products(db, cx):
    """C04.11-absorbed-deposits: when an interactor absorbs the incident particle
    (Interaction::from_absorption) and hands back no secondaries, nothing carries the incident
    energy away: the local deposition must be the incident energy itself."""
    n = 0
    seen = set()
    for nm in db.find(r"^celeritas::[A-Za-z]+Interactor::operator\(\)$"):
        for f in db.get(nm):
            absorbed = set(ev["var"] for (_b, _i, ev) in f.events("def")
                           if C + "Interaction::from_absorption" in ev.get("calls", []))
            for (b, i, ev) in f.events("return"):
                root = ev.get("path", {}).get("root", "")
                if not root.startswith("l:") or root[2:] not in absorbed or ev.get("path", {}).get("chain"):
                    continue
                var = root[2:]
                if ev["loc"] in seen:
                    continue
                seen.add(ev["loc"])
                if _reaching_leaf_writes(f, var, C + "Interaction::secondaries", (b, i)):
                    continue                    # products are returned: judged by the other rules
                ws = _reaching_leaf_writes(f, var, C + "Interaction::energy_deposition", (b, i))
                inc = [w for w in ws if any(r.split("::")[-1] in ("inc_energy_",) for r in w.get("refs", []))
                       or C + "ParticleTrackView::energy" in w.get("calls", [])]
                ok = bool(ws) and len(inc) == len(ws)
                n += 1
                cx.ob("C04.11-absorbed-deposits", "%s: absorbed without secondaries @%s deposits the incident energy"
                      % (nm.split("::")[-2], short(ev["loc"]).split(":", 1)[1]), ok,
                      "; ".join("energy_deposition = %s" % (w.get("rhs") or "")[:50] for w in ws) or
                      "no deposition on this path", short(ev["loc"]),
                      why="the particle is gone and nothing else carries its energy")
    cx.floor("absorbed-without-products returns", n, 1)
