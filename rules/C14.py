"""C14 - only the MSC true<->geometric path conversion bounds are decided."""
from facts import AnalysisBroken  # noqa
from common import C, short, local_refs
from cfg import path_leaf
import effects

EXPLANATION = ("Reaching-definition rules on the CFG: MscStepFromGeo returns either its argument or clamp(., gstep, true_step) on every path; MscStepToGeo's last definition of result.step on every path is min(result.step, tstep); UrbanMsc stores/restores the step through these functors; the range-limited energy loss returns the full energy. Table lookups (XsCalculator, RangeCalculator, InverseRangeCalculator, GenericCalculator): the bin search is dominated by the false edges of the tests against front() and back(); abscissa and ordinate are read at idx and idx+1 of the found bin; ValueGridXsBuilder's index correction tests the predicate its postcondition states; UniformGrid::find bounds the float-computed bin.")
NOT_DECIDED = ('values between knots (interpolation arithmetic), continuity, monotone inverses, non-negativity of the grid calculators (numeric)')

TECHNIQUE = ('reaching definitions on the CFG (every return / last definition of the MSC path conversions is a clamp/min with the required bounds); guard dominance of the bin search by the range tests; index-expression agreement of the knot accesses; sibling agreement between the roundoff correction and its stated postcondition; forward path walk for an integer bound on the float-computed bin; exact-zero propagation through the linear interpolator (bit-exactness at the lower knot); sibling agreement of the interpolation scales of range and inverse range')

UNITS = [
    "src/celeritas/global/alongstep/AlongStepUniformMscAction.cc",
    "src/celeritas/global/alongstep/AlongStepRZMapFieldMscAction.cc",
    "src/celeritas/grid/ValueGridBuilder.cc",
]
D = C + "detail::"


# ---------------------------------------------------------------------------------------------
# C14.10 (seeded change c14e): the linear interpolant is anchored at the lower knot - evaluated at
# x = x_l it returns y_l bit for bit.  Decided by exact-zero propagation: a value is an exact
# signed symbol, an exact zero, or "rounded" (any finite value).
def knot_exact(db, cx):
    from astutil import strip, show, OutOfVocabulary, const_int
    ZERO, R = ("0",), ("R",)

    def neg(a):
        return ("x", a[1], -a[2]) if a[0] == "x" else a

    def add(a, b):
        if a == ZERO:
            return b
        if b == ZERO:
            return a
        if a[0] == "x" and b[0] == "x" and a[1] == b[1] and a[2] == -b[2]:
            return ZERO          # x - x is exactly 0 in IEEE arithmetic
        return R

    def mul(a, b):
        return ZERO if (a == ZERO or b == ZERO) else R      # 0 * finite = 0

    def fma(a, b, c_):
        return c_ if mul(a, b) == ZERO else R               # fma(a, 0, c) = c exactly

    funcs = {}
    for nm in db.find(r"^celeritas::detail::InterpolatorTraits::"):
        for g in db.get(nm):
            if "ast" in g.r and "Interp::linear" in g.inst:
                funcs[nm] = g

    def ev(n, env, members):
        n = strip(n, also=("CXXStaticCastExpr", "CXXFunctionalCastExpr"))
        k = n["k"]
        if k in ("FloatingLiteral", "IntegerLiteral"):
            return ZERO if float(n["val"]) == 0 else R
        if k == "DeclRefExpr":
            if n["name"] in env:
                return env[n["name"]]
            raise OutOfVocabulary("C14.10: unknown variable " + n["name"])
        if k == "MemberExpr":
            if n["name"] in members:
                return members[n["name"]]
            raise OutOfVocabulary("C14.10: member %s read before it is written" % n["name"])
        if k == "CXXOperatorCallExpr" and n.get("oop") == "[]":
            base, idx = strip(n["c"][1]), const_int(n["c"][2])
            key = (show(base), idx)
            if key in env:
                return env[key]
            raise OutOfVocabulary("C14.10: unknown element " + show(n))
        if k == "UnaryOperator" and n["op"] == "-":
            return neg(ev(n["c"][0], env, members))
        if k == "BinaryOperator" and n["op"] in ("+", "-", "*", "/"):
            a, b = ev(n["c"][0], env, members), ev(n["c"][1], env, members)
            if n["op"] == "+":
                return add(a, b)
            if n["op"] == "-":
                return add(a, neg(b))
            if n["op"] == "*":
                return mul(a, b)
            return ZERO if a == ZERO else R
        if k == "CallExpr":
            cal = n.get("callee", "")
            args = [ev(a, env, members) for a in n["c"][1:]]
            if cal in ("fma", "std::fma") and len(args) == 3:
                return fma(*args)
            if cal in funcs:
                g = funcs[cal]
                rets = [x for x in _walk(g.r["ast"]) if x["k"] == "ReturnStmt"]
                if len(rets) != 1:
                    raise OutOfVocabulary("C14.10: %s is not a single return" % cal)
                sub = dict(zip([p_["n"] for p_ in g.r["params"]], args))
                return ev(rets[0]["c"][0], sub, members)
            if cal.startswith("std::") or cal in ("log", "log2", "exp", "exp2", "isnan", "std::isnan"):
                return R
            raise OutOfVocabulary("C14.10: call to %s outside the vocabulary" % cal)
        raise OutOfVocabulary("C14.10: expression outside the vocabulary: %s (%s)" % (show(n), k))

    def _walk(n):
        if n is None:
            return
        yield n
        for c_ in n["c"]:
            yield from _walk(c_)

    def run_body(ast, env, members, want_return):
        ret = [None]

        def st(n):
            if n is None or ret[0] is not None:
                return
            k = n["k"]
            if k == "CompoundStmt":
                for c_ in n["c"]:
                    st(c_)
            elif k in ("DoStmt", "NullStmt"):
                return                      # compiled-out assertion macros
            elif k == "DeclStmt":
                for d in n["c"]:
                    if d["k"] == "VarDecl" and d["c"] and d["c"][0] is not None:
                        env[d["name"]] = ev(d["c"][0], env, members)
            elif k in ("ExprWithCleanups",):
                st(n["c"][0])
            elif k == "BinaryOperator" and n["op"] == "=":
                lhs = strip(n["c"][0])
                v = ev(n["c"][1], env, members)
                if lhs["k"] == "MemberExpr":
                    members[lhs["name"]] = v
                elif lhs["k"] == "DeclRefExpr":
                    env[lhs["name"]] = v
                else:
                    raise OutOfVocabulary("C14.10: assignment to " + show(lhs))
            elif k == "ReturnStmt":
                ret[0] = ev(n["c"][0], env, members) if n["c"] else R
            else:
                raise OutOfVocabulary("C14.10: statement outside the vocabulary: " + k)
        st(ast)
        return ret[0]

    ctors = [f for f in db.get(C + "Interpolator::Interpolator")
             if "Interp::linear, celeritas::Interp::linear" in f.inst and "ast" in f.r
             and len(f.r["params"]) == 2]
    calls = [f for f in db.get(C + "Interpolator::operator()")
             if "Interp::linear, celeritas::Interp::linear" in f.inst and "ast" in f.r]
    cx.require(ctors and calls, "anchor Interpolator<linear, linear> (constructor / operator()) not found")
    for fc in ctors:
        pl, pr = [p_["n"] for p_ in fc.r["params"]]
        env = {(pl, 0): ("x", "x_l", 1), (pl, 1): ("x", "y_l", 1), (pr, 0): ("x", "x_r", 1), (pr, 1): ("x", "y_r", 1)}
        members = {}
        for ini in fc.r.get("inits", []) or []:
            raise OutOfVocabulary("C14.10: member initialisers in the Interpolator constructor")
        run_body(fc.r["ast"], env, members, False)
        for fo in calls:
            px = fo.r["params"][0]["n"]
            got = run_body(fo.r["ast"], {px: ("x", "x_l", 1)}, dict(members), True)
            ok = got == ("x", "y_l", 1)
            cx.ob("C14.10-knot-exact", "linear interpolation evaluated at the lower knot returns y_l exactly",
                  ok, "value at x = x_l: %s; members: %s" % (
                      "y_l" if ok else ("a rounded combination" if got == R else str(got)),
                      ", ".join("%s = %s" % (k_, "exact " + ("-" if v[2] < 0 else "") + v[1] if v[0] == "x"
                                             else "0" if v == ZERO else "rounded") for k_, v in sorted(members.items()))),
                  short(fo.loc),
                  why="XsCalculator / RangeCalculator / InverseRangeCalculator / GenericCalculator look a knot "
                      "energy up in the bin that starts there; an interpolant that is not anchored at x_l "
                      "(e.g. slope * x + intercept) cancels two large terms: steep tables are not reproduced "
                      "at their knots and a table that is zero at a knot yields negative values")



def range_inverse_agree(db, cx):
    """C14.11 (seeded change c14f): RangeCalculator and InverseRangeCalculator interpolate the same
    table on the same scales - energy linear or logarithmic, range linear or logarithmic - in both
    directions; otherwise they are not mutual inverses inside a bin and E - InvRange(Range(E) - s)
    is negative for small steps."""
    import re as _re

    def scales(f, e_first):
        """(energy scale, range scale) of each {x, y} point handed to the interpolator.  Which
        component is the energy is fixed by the direction of the calculator (x for range(E), y for
        its inverse); the log-energy grid is stored in log space, so `exp(.)` around it means
        linear energy and the bare element log energy; `log(.)` around a range value means log
        range.  Anything else is outside the vocabulary."""
        out = []
        for (_b, _i, e) in f.events("call"):
            if e["callee"] != C + "Interpolator::Interpolator" or len(e.get("args", [])) != 2:
                continue
            for a in e["args"]:
                t = (a.get("t") or "").strip()
                if not (t.startswith("{") and t.endswith("}")):
                    return None
                d, cut = 0, None
                for k_, ch in enumerate(t[1:-1]):
                    d += ch in "([{"
                    d -= ch in ")]}"
                    if ch == "," and d == 0:
                        cut = k_ + 1
                        break
                if cut is None:
                    return None
                comps = [t[1:cut].strip().replace("std::", "").replace("this->", ""),
                         t[cut + 1:-1].strip().replace("std::", "").replace("this->", "")]
                ec, rc = (comps[0], comps[1]) if e_first else (comps[1], comps[0])

                def wrap(c0):
                    m_ = _re.match(r"^([A-Za-z_0-9]+)\(", c0)
                    fn = m_.group(1) if m_ and c0.endswith(")") and m_.group(1) in ("exp", "exp2", "log", "log2", "sqrt") else None
                    inner_fn = _re.search(r"\b(exp|exp2|log|log2|sqrt|pow)\(", c0[len(fn) + 1:] if fn else c0)
                    return "?" if inner_fn else (fn or "")
                we, wr = wrap(ec), wrap(rc)
                es = {"exp": "linear", "": "log"}.get(we, "?")
                rs = {"log": "log", "": "linear"}.get(wr, "?")
                out.append((es, rs))
        return out
    fr = db.get(C + "RangeCalculator::operator()")
    fi = db.get(C + "InverseRangeCalculator::operator()")
    cx.require(fr and fi, "anchors RangeCalculator / InverseRangeCalculator operator() not found")
    sr, si = scales(fr[0], True), scales(fi[0], False)
    cx.require(sr and si, "range calculators no longer build a two-point interpolator from {x, y} pairs")
    if any("?" in x for x in sr + si):
        raise AnalysisBroken("C14.11: an interpolation point of the range calculators is built with a "
                             "function outside the vocabulary {exp, log}: %s / %s" % (sr, si))
    ok = len(set(sr)) == 1 and len(set(si)) == 1 and sr[0] == si[0]
    cx.ob("C14.11-range-inverse-agree", "range and inverse range interpolate on the same (energy, range) scales",
          ok, "RangeCalculator: E %s, r %s; InverseRangeCalculator: E %s, r %s" % (sr[0] + si[0]),
          short(fr[0].loc),
          why="range(E) and its inverse are applied back to back in the continuous-loss formula; "
              "with different in-bin interpolants they are not inverses of each other")

def run(db, cx):
    range_inverse_agree(db, cx)
    knot_exact(db, cx)
    # 1 ---------------------------------------------------------------- from geo
    fs = db.get(D + "MscStepFromGeo::operator()")
    cx.require(fs, "anchor MscStepFromGeo::operator() not found")
    for f in fs:
        par = f.r["params"][0]["n"]
        rets = [(b, i, ev) for (b, i, ev) in f.events("return")]
        cx.floor("MscStepFromGeo returns", len(rets), 2)
        for (b, i, ev) in rets:
            t = ev.get("t", "")
            refs = local_refs(ev.get("refs", []))
            is_param = refs == {par} and not ev.get("calls")
            is_clamp = C + "clamp" in ev.get("calls", []) and par in refs and \
                "F:" + D + "MscStepFromGeo::true_step_" in ev.get("refs", [])
            ok = is_param or is_clamp
            if is_clamp:
                # argument order clamp(x, lo=gstep, hi=true_step_)
                tt = t.replace("this->", "").replace(" ", "")
                ok = tt.endswith(",%s,true_step_)" % par)
            cx.ob("C14.1-true-path-bounds", "MscStepFromGeo return @%s is gstep or clamp(., gstep, true_step_)"
                  % short(ev["loc"]).split(":")[-1], ok, "return %s" % t, short(ev["loc"]),
                  why="the recovered true path must lie between the geometric path and the "
                      "original true path")
    # 2 ------------------------------------------------------------------ to geo
    fs = db.get(D + "MscStepToGeo::operator()")
    cx.require(fs, "anchor MscStepToGeo::operator() not found")
    STEP = D + "MscStepToGeo::result_type::step"
    for f in fs:
        par = f.r["params"][0]["n"]
        rets = [(b, i, ev) for (b, i, ev) in f.events("return")]
        for (b, i, ev) in rets:
            # last write to result.step before the return, on every path
            def clampw(e):
                return e["e"] == "write" and path_leaf(e.get("path")) == STEP and \
                    ((C + "min" in e.get("calls", []) or "std::min" in e.get("calls", []))
                     and par in e.get("refs", []) and "F:" + STEP in e.get("refs", [])
                     or (local_refs(e.get("refs", [])) == {par} and not e.get("calls")))
            # walk back from the return: the nearest write to result.step on each path
            ok = True
            seen = set()
            work = [(b, i)]
            bad = None
            while work and ok:
                cb, upto = work.pop()
                evs = f.blocks[cb]["ev"]
                found = None
                for k in range(min(upto, len(evs)) - 1, -1, -1):
                    e = evs[k]
                    if e["e"] == "write" and path_leaf(e.get("path")) == STEP:
                        found = e
                        break
                if found is not None:
                    if not clampw(found):
                        ok = False
                        bad = found
                    continue
                if cb == f.entry:
                    ok = False
                    continue
                for p in f.preds(cb):
                    if p not in seen:
                        seen.add(p)
                        work.append((p, 10 ** 9))
            cx.ob("C14.2-geom-path-never-longer", "last definition of result.step before return @%s is "
                  "min(result.step, tstep) or tstep" % short(ev["loc"]).split(":")[-1], ok,
                  ("offending definition: %s = %s" % (bad.get("lhs"), bad.get("rhs"))) if bad else "",
                  short(ev["loc"]),
                  why="a geometric path longer than the true path moves the particle farther than "
                      "it physically travelled")
    # 3 -------------------------------------------------------------- consumers
    for f in db.get(C + "UrbanMsc::limit_step"):
        lam = [g for n in db.find(r"^celeritas::UrbanMsc::limit_step::\(lambda") for g in db.get(n)]
        ok = any(g.has_call(D + "MscStepToGeo::operator()") for g in lam)
        cx.ob("C14.3-consumers", "UrbanMsc::limit_step converts through MscStepToGeo", ok, "", short(f.loc))
    for f in db.get(C + "UrbanMsc::apply_step"):
        ws = [(b, i, ev) for (b, i, ev) in f.events("write")
              if path_leaf(ev.get("path")) == C + "MscStep::true_path"]
        ok = bool(ws) and all(D + "MscStepFromGeo::operator()" in ev.get("calls", []) for (_b, _i, ev) in ws)
        cx.ob("C14.3-consumers", "UrbanMsc::apply_step recovers the true path through MscStepFromGeo",
              ok, str([ev.get("rhs") for (_b, _i, ev) in ws]), short(f.loc))
    cx.require(db.get(C + "UrbanMsc::apply_step"), "anchor UrbanMsc::apply_step not found")
    # 4 ----------------------------------------------------- range-limited full loss
    fs = db.get(C + "calc_mean_energy_loss")
    cx.require(fs, "anchor calc_mean_energy_loss not found")
    for f in fs:
        ok = False
        d = "no return of the pre-step energy guarded by step==range"
        for (b, i, ev) in f.events("return"):
            refs = local_refs(ev.get("refs", []))
            if len(refs) != 1 or ev.get("calls"):
                continue
            var = next(iter(refs))
            defs = f.reaching_defs(var, (b, i))
            if defs and all(C + "ParticleTrackView::energy" in d_[2].get("calls", [])
                            and d_[2].get("kind") == "decl" for d_ in defs):
                for br in f.branch_blocks(lambda c, _b: c.get("op") in ("==", ">=")
                                          and any("range" in r for r in c.get("lrefs", []) + c.get("rrefs", []))):
                    if f.guarded_by_edge((b, i), br, f.cond_polarity_edge(br, True)):
                        ok = True
                        d = "`return %s` on the edge %s" % (var, f.blocks[br]["cond"]["t"])
        cx.ob("C14.4-range-limited", "calc_mean_energy_loss returns the full energy when step == range",
              ok, d, short(f.loc))

    # 5 ------------------------------------------- table lookups stay inside the table
    lookup_in_range(db, cx)
    # 7 ------------------------------------------- the scaled part of a table starts where the builder says
    prime_index_correction(db, cx)
    # 8 ------------------------------------------- a bin computed in floating point is bounded in integers
    float_bin_bounded(db, cx)
    # 9 ------------------------------------------- the mean loss is bounded by the energy
    mean_loss_bounded(db, cx)


def lookup_in_range(db, cx):
    """K3: in every 1-D physics-table calculator the bin search `grid.find(x)` is reached only
    when x lies strictly inside the grid: it is dominated by the false edge of a test of x
    against the same grid's front() and of one against its back(), whose true edges leave the
    function (the documented extrapolation arms).  `find` itself only has a debug assertion."""
    import re
    sites = []
    for pat in (C + "UniformGrid::find", C + "NonuniformGrid::find"):
        for f, ev in db.callers_of(pat):
            if re.search(r"Calculator::operator\(\)$", f.name):
                sites.append((f, ev))
    cx.floor("table calculators with a bin search", len(set(f.name for f, _e in sites)), 4)
    done = set()
    for f, ev in sites:
        if (f.node, ev["loc"]) in done:
            continue
        done.add((f.node, ev["loc"]))
        pos = [(b, i) for (b, i, e) in f.events("call") if e is ev or (e.get("loc") == ev["loc"] and e["callee"] == ev["callee"])][0]
        xs = local_refs(ev["args"][0].get("refs", []))
        grid = (ev.get("recv", {}).get("path") or {})
        gkey = (grid.get("root"), tuple(grid.get("chain", [])))
        have = {}
        for end in ("front", "back"):
            for br in f.branch_blocks(lambda c, _b: c.get("op") in ("<", "<=", ">", ">=")):
                c = f.blocks[br]["cond"]
                l, r = set(local_refs(c.get("lrefs", []))), set(local_refs(c.get("rrefs", [])))
                calls = c.get("lcalls", []) + c.get("rcalls", [])
                if not (xs & (l | r)) or not any(x.endswith("Grid::" + end) for x in calls):
                    continue
                # out-of-range edge: for front the test is x < / <= front (or front > x); for back x > / >= back
                x_left = bool(xs & l)
                op = c["op"]
                below = (op in ("<", "<=")) == x_left
                if (end == "front") != below:
                    continue
                e_in = f.cond_polarity_edge(br, False)
                out_tgt = f.blocks[br]["succ"][1 - e_in]
                leaves = out_tgt is not None and pos[0] not in f.reach([out_tgt])
                if f.guarded_by_edge(pos, br, e_in) and leaves:
                    have[end] = c["t"]
        ok = "front" in have and "back" in have
        # 6: the interpolation uses the two knots of the bin that was found, for abscissa and
        # ordinate alike: every table access indexed by the found bin uses idx or idx + 1, and
        # each accessor is used with both
        idxv = None
        for (b2, i2, d) in f.events("def"):
            if d.get("kind") == "decl" and ev["callee"] in d.get("calls", []) and d.get("loc", "").split(":")[1] == ev["loc"].split(":")[1]:
                idxv = d["var"]
        two_point = any(e2["callee"].endswith("Interpolator::Interpolator") for (_b3, _i3, e2) in f.events("call"))
        if idxv and two_point:
            acc = {}
            # locals that are just an index expression over the found bin (`auto hi = idx + 1;`)
            alias = {}
            for (b2, i2, d) in f.events("def"):
                if d.get("kind") == "decl" and set(local_refs(d.get("refs", []))) == {idxv} \
                        and not d.get("calls") and d.get("var") != idxv:
                    alias[d["var"]] = d.get("rhs", "").replace(" ", "")
            for (b2, i2, e2) in f.events("call"):
                a2 = e2.get("args", [])
                if len(a2) != 1 or e2.get("macro") or a2[0].get("calls"):
                    continue
                rs = set(local_refs(a2[0].get("refs", [])))
                t = a2[0]["t"].replace(" ", "")
                if rs != {idxv}:
                    if len(rs) == 1 and t in alias:
                        t = alias[t]
                    else:
                        continue
                key = e2["callee"] + "@" + (e2.get("recv", {}).get("t") or "")
                acc.setdefault(key, set()).add(t)
            want = {idxv, idxv + "+1"}
            bad = {k: sorted(v) for k, v in acc.items() if v != want}
            cx.ob("C14.6-bin-knots", "%s: abscissa and ordinate are read at the two knots of the found "
                  "bin" % f.name.split("::")[-2], bool(acc) and len(acc) >= 2 and not bad,
                  "accessors %s" % ({k.split("::")[-1]: sorted(v) for k, v in acc.items()}),
                  short(ev["loc"]),
                  why="interpolating between knots of different bins (or one knot twice) leaves the "
                      "result outside the neighbouring knot values and breaks continuity at the knots")
        cx.ob("C14.5-lookup-in-range", "%s: find(%s) only for values strictly inside the grid"
              % (f.name.split("::")[-2], ev["args"][0]["t"]), ok,
              "guards: %s" % (have or "none"), short(ev["loc"]),
              why="outside the grid the bin index is garbage in this build (the precondition of "
                  "find is a debug assertion): the lookup reads past the table instead of "
                  "following the documented extrapolation")


def prime_index_correction(db, cx):
    """Sibling agreement inside ValueGridXsBuilder::build: the index of the first 1/E-scaled knot
    is `find(log_eprime)` plus a roundoff correction; the statement after it asserts (debug only)
    the predicate that defines the index.  The correction must test, for index+1, exactly the
    predicate the assertion states for the index - otherwise there are grids for which the
    assertion's belief is false in this build and XsCalculator un-scales the wrong knots."""
    fs = db.get(C + "ValueGridXsBuilder::build")
    cx.require(fs, "anchor ValueGridXsBuilder::build not found")
    norm = lambda t: (t or "").replace(" ", "").replace("this->", "").replace("celeritas::", "")
    for f in fs:
        idx = [d["var"] for (_b, _i, d) in f.events("def") if d.get("kind") == "decl"
               and any(x.endswith("Grid::find") for x in d.get("calls", []))]
        cx.require(len(idx) == 1, "ValueGridXsBuilder::build: index from find() not found")
        v = idx[0]
        asserts = [blk["cond"] for blk in f.blocks.values() if blk.get("cond") and
                   blk.get("tmacro", "").startswith("CELER_") and blk["cond"].get("ecalls")
                   and v in blk["cond"].get("erefs", [])]
        incs = [(b, i, d) for (b, i, d) in f.events("def") if d.get("var") == v and d.get("kind") == "incdec"]
        cx.require(incs, "ValueGridXsBuilder::build: no roundoff correction of the index")
        for (b, i, d) in incs:
            guard = None
            for br in f.branch_blocks(lambda c, _b: v in c.get("refs", []) + c.get("allrefs", [])):
                if f.guarded_by_edge((b, i), br, f.cond_polarity_edge(br, True)):
                    guard = f.blocks[br]["cond"]
            want = [norm(a.get("core")) for a in asserts]
            got = norm(guard.get("t")).replace(v + "+1", v) if guard else None
            ok = guard is not None and (got in want if want else
                                        any(x.endswith("soft_equal") for x in guard.get("calls", [])))
            cx.ob("C14.7-prime-index", "ValueGridXsBuilder: the roundoff correction of the scaled-part "
                  "index tests the predicate that defines the index", ok,
                  "correction: `%s`; stated postcondition(s): %s" % (guard.get("t") if guard else None,
                                                                    [a.get("core") for a in asserts]),
                  short(d["loc"]),
                  why="XsCalculator divides every knot from this index on by E: an index one too low "
                      "(or high) returns xs/E (or xs*E) at a knot and leaves the neighbouring bins "
                      "outside their knot values")


def float_bin_bounded(db, cx):
    """UniformGrid::find computes the bin by a floating-point division.  For a value just below
    the last knot the quotient rounds to size-1, and every caller reads knot bin+1.  The bin that
    is returned must therefore be bounded in the integer domain (a min/clamp against the size, or
    a live - not debug-only - test against it) on every path from the division to the return."""
    fs = db.get(C + "UniformGrid::find")
    cx.require(fs, "anchor UniformGrid::find not found")
    SZ = ("F:" + C + "UniformGridData::size", C + "UniformGrid::size")

    def mentions_size(e):
        return any(x in SZ for x in e.get("refs", []) + e.get("calls", []) + e.get("allrefs", [])
                   + e.get("allcalls", []))
    for f in fs[:1]:
        rets = list(f.events("return"))
        for (rb, ri, rev) in rets:
            rv = local_refs(rev.get("refs", []))
            if len(rv) != 1:
                cx.ob("C14.8-bin-bounded", "UniformGrid::find returns a bounded bin", False,
                      "return %s" % rev.get("t"), short(rev["loc"]))
                continue
            v = next(iter(rv))
            fdefs = [(b, i, d) for (b, i, d) in f.events("def") if d.get("var") == v
                     and "/" in d.get("rhs", "") and not any(x.endswith("::min") or x.endswith("::clamp")
                                                             for x in d.get("calls", []))]
            ok = True
            why_not = ""
            for (b, i, d) in fdefs:
                # forward walk from the floating definition: stop at a redefinition that mentions
                # the size, or at a live branch that compares the bin with the size
                seen = set()
                work = [(b, i + 1)]
                while work and ok:
                    cb, ci = work.pop()
                    evs = f.blocks[cb]["ev"]
                    stop = False
                    for k in range(ci, len(evs)):
                        e = evs[k]
                        if e["e"] == "def" and e.get("var") == v and mentions_size(e):
                            stop = True
                            break
                        if (cb, k) == (rb, ri):
                            ok = False
                            why_not = "the bin defined by `%s` reaches `return %s` unbounded" % (
                                d.get("rhs"), v)
                            stop = True
                            break
                    if stop:
                        continue
                    blk = f.blocks[cb]
                    c = blk.get("cond")
                    dbg = blk.get("tmacro", "").startswith(("CELER_EXPECT", "CELER_ASSERT", "CELER_ENSURE"))
                    if c and not dbg and v in c.get("refs", []) + c.get("allrefs", []) \
                            and mentions_size(c):
                        continue
                    for sx in f.succ(cb):
                        if sx not in seen:
                            seen.add(sx)
                            work.append((sx, 0))
            cx.ob("C14.8-bin-bounded", "UniformGrid::find: the bin from the floating-point division is "
                  "bounded by the grid size before it is returned", ok and bool(fdefs) or (ok and not fdefs),
                  why_not or ("%d floating definition(s), each bounded" % len(fdefs)), short(rev["loc"]),
                  why="(value - front) / delta rounds up to size-1 for a value one ulp below the last "
                      "knot; the callers then read knot size (past the table) - the bound on the "
                      "result is only a debug assertion")


def mean_loss_bounded(db, cx):
    """C14.9: every value calc_mean_energy_loss can return is bounded by the particle energy by
    construction: the pre-step energy itself, `pre_step_energy - E(range - step)` from the inverse
    range table, or the linear estimate step*dE/dx - the latter only on the edge where that very
    estimate was compared with (a fraction of) the pre-step energy."""
    fs = db.get(C + "calc_mean_energy_loss")
    cx.require(fs, "anchor calc_mean_energy_loss not found")
    PE = C + "ParticleTrackView::energy"
    for f in fs:
        evars = set(d["var"] for (_b, _i, d) in f.events("def") if PE in d.get("calls", []))
        for (rb, ri, rev) in f.events("return"):
            kinds = []
            srcs = []
            if rev.get("calls"):
                srcs.append((rb, ri, rev))
            for v in local_refs(rev.get("refs", [])):
                if v in evars and not rev.get("calls"):
                    kinds.append(("energy", None))
                    continue
                for (db_, di_, d) in f.reaching_defs(v, (rb, ri)):
                    srcs.append((db_, di_, d))
            for (sb, si, d) in srcs:
                calls = d.get("calls", [])
                refs = set(local_refs(d.get("refs", [])))
                if any(c.endswith("InverseRangeCalculator::operator()") for c in calls) and refs & evars \
                        and "-" in (d.get("rhs") or d.get("t") or ""):
                    kinds.append(("range-table", None))
                elif any(c.endswith("XsCalculator::operator()") or c.endswith("EnergyLossCalculator::operator()")
                         for c in calls):
                    kinds.append(("linear", (sb, si, d)))
                elif PE in calls:
                    kinds.append(("energy", None))
                elif d.get("kind") == "decl" and not d.get("rhs"):
                    continue          # default-constructed, overwritten before use on other paths
                else:
                    kinds.append(("other", (sb, si, d)))
            ok = bool(kinds)
            why_not = ""
            for k, src in kinds:
                if k in ("energy", "range-table"):
                    continue
                if k == "other":
                    ok = False
                    why_not = "value of unknown provenance: %s" % (src[2].get("rhs") or src[2].get("t"))
                    continue
                sb, si, d = src
                var = d.get("var")
                guarded = False
                for br in f.branch_blocks(lambda c, _b: c.get("op") in (">=", ">", "<", "<=")):
                    c = f.blocks[br]["cond"]
                    l, r = set(local_refs(c.get("lrefs", []))), set(local_refs(c.get("rrefs", [])))
                    if var is None or not ((var in l and r & evars) or (var in r and l & evars)):
                        continue
                    small_first = (c["op"] in ("<", "<=")) == (var in l)
                    e_small = f.cond_polarity_edge(br, small_first)
                    # the estimate may reach the return only through the edge on which it is small:
                    # walk forward from its definition, stop at redefinitions, never take that edge
                    seen = set()
                    work = [(sb, si + 1)]
                    leak = False
                    while work and not leak:
                        cb, ci = work.pop()
                        evs = f.blocks[cb]["ev"]
                        stop = False
                        for k in range(ci, len(evs)):
                            if (cb, k) == (rb, ri):
                                leak = True
                                stop = True
                                break
                            e2 = evs[k]
                            if e2["e"] == "def" and e2.get("var") == var:
                                stop = True
                                break
                        if stop:
                            continue
                        for ix, sx in enumerate(f.blocks[cb]["succ"]):
                            if sx is None or (cb == br and ix == e_small):
                                continue
                            if sx not in seen:
                                seen.add(sx)
                                work.append((sx, 0))
                    if not leak and f.reach([f.blocks[br]["succ"][e_small]]) & {rb}:
                        guarded = True
                if not guarded:
                    ok = False
                    why_not = "the linear estimate `%s` reaches `return` without having been compared " \
                              "with the particle energy" % (d.get("rhs") or d.get("t"))
            cx.ob("C14.9-mean-loss-bounded", "calc_mean_energy_loss return @%s is bounded by the particle "
                  "energy by construction" % short(rev["loc"]).split(":")[-1], ok,
                  why_not or ", ".join(sorted(set(k for k, _s in kinds))), short(rev["loc"]),
                  why="step * dE/dx is not bounded by the energy (dE/dx rises with energy inside a "
                      "table and the range is extrapolated below it): unless that estimate itself is "
                      "tested against the energy, the mean loss can exceed what the particle has")
