"""C08 - field propagation stays consistent with the geometry (structural clauses)."""
from common import C, short, local_refs
from cfg import path_leaf

EXPLANATION = (
    "On the CFG of every FieldPropagator<Driver,Geo>::operator()(real_type) instantiation in the "
    "build: each write to the ODE position is paired with a geometry move to the same position; "
    "the final direction handed to the geometry comes from the integrated momentum, which the "
    "propagator only copies from the driver; every path round the substep loop redefines "
    "`remaining`; the geometry is moved off a boundary only where the returned boundary flag is "
    "cleared and onto it only where the flag is set; driver options are validated by every params "
    "class that owns them.")
NOT_DECIDED = ("distance in (0, step], helix accuracy, momentum conservation inside the steppers, "
               "chord / intersection tolerances (numeric)")

TECHNIQUE = ('CFG pairing (ODE position write <-> geometry move), reaching definitions for the final direction, loop-progress (every body path redefines the loop variables), provenance pairing of the (state, step) components returned by the field driver with a path-sensitive staleness walk; reaching-definition bound of the sub-step length; return-shape rule on the accept threshold; field-coverage of the stored driver options')

UNITS = [
    "src/celeritas/global/alongstep/AlongStepUniformMscAction.cc",
    "src/celeritas/global/alongstep/AlongStepRZMapFieldMscAction.cc",
    "src/celeritas/field/FieldDriverOptions.cc",
    "src/celeritas/field/RZMapFieldParams.cc",
]

FP = C + "FieldPropagator::operator()"
G = C + "OrangeTrackView::"
STATE = C + "FieldPropagator::state_"
GEO = C + "FieldPropagator::geo_"


def is_geo_call(ev, meth, nargs=None):
    if ev["e"] != "call" or ev["callee"] != G + meth:
        return False
    if nargs is not None and len(ev.get("args", [])) != nargs:
        return False
    rp = ev.get("recv", {}).get("path", {})
    return "f:" + GEO in rp.get("chain", [])


def writes_state_pos(ev):
    """write to state_ (whole) or state_.pos, incl. axpy(..., &state_.pos)"""
    if ev["e"] == "write":
        ch = ev.get("path", {}).get("chain", [])
        if "f:" + STATE in ch:
            rest = ch[ch.index("f:" + STATE) + 1:]
            flds = [x for x in rest if x.startswith("f:")]
            return flds == [] or flds == ["f:" + C + "OdeState::pos"]
    if ev["e"] == "call":
        for a in ev.get("args", []):
            p = a.get("path") or {}
            ch = p.get("chain", [])
            if a.get("mode") in ("ptr", "ref") and "f:" + STATE in ch:
                rest = [x for x in ch[ch.index("f:" + STATE) + 1:] if x.startswith("f:")]
                if rest in ([], ["f:" + C + "OdeState::pos"]):
                    return True
    return False


def run(db, cx):
    fs = [f for f in db.get(FP) if f.r["params"] and len(f.r["params"]) == 1]
    cx.floor("FieldPropagator::operator()(step) instantiations", len(fs), 2)
    for f in fs:
        tag = f.inst.split("FieldPropagator<")[-1].split(",")[0][-60:]
        # ------------------------------------------------ 1. ODE position <-> geometry
        n = 0
        for (b, i, ev) in list(f.events()):
            if not writes_state_pos(ev):
                continue
            n += 1
            evs = f.blocks[b]["ev"]
            ok = False
            d = ""
            rhs = ev.get("rhs", "")
            # (a) followed in the same block by move_internal(state_.pos | same rhs)
            for k in range(i + 1, len(evs)):
                e2 = evs[k]
                if is_geo_call(e2, "move_internal", 1):
                    at = e2["args"][0].get("t", "")
                    if at.replace("this->", "") in ("state_.pos",) or (rhs and at == rhs):
                        ok = True
                        d = "followed by geo_.move_internal(%s)" % at
                    break
                if writes_state_pos(e2):
                    break
            # (b) defined from the geometry position right after move_to_boundary
            if not ok and ev["e"] == "write" and G + "pos" in ev.get("calls", []) \
                    and "F:" + GEO in ev.get("refs", []):
                prev = [e2 for e2 in evs[:i] if is_geo_call(e2, "move_to_boundary")]
                if prev:
                    ok = True
                    d = "state_.pos = geo_.pos() after move_to_boundary()"
            cx.ob("C08.1-ode-geo-sync", "state_ position write @%s [%s]" % (short(ev["loc"]).split(":")[-1], tag),
                  ok, d or "no matching geometry move in the same block", short(ev["loc"]),
                  why="if the ODE position and the geometry position diverge, the next chord is "
                      "tested from the wrong point: boundaries are missed")
        cx.floor("state_ position writes [%s]" % tag, n, 4)
        # conversely: every geometry move uses the ODE position
        for (b, i, ev) in f.events():
            if is_geo_call(ev, "move_internal", 1):
                at = ev["args"][0].get("t", "").replace("this->", "")
                ch = [x for x in (ev["args"][0].get("path") or {}).get("chain", []) if x.startswith("f:")]
                ok = len(ch) >= 2 and ch[-1] == "f:" + C + "OdeState::pos" and (
                    ch[-2] == "f:" + STATE or ch[-2].endswith("DriverResult::state"))
                cx.ob("C08.1-ode-geo-sync", "geo_.move_internal argument @%s [%s]"
                      % (short(ev["loc"]).split(":")[-1], tag), ok, at, short(ev["loc"]),
                      why="the geometry may only be moved to the integrated position")

        # ------------------------------------------------ 2. final direction from momentum
        setdirs = [(b, i, ev) for (b, i, ev) in f.events() if is_geo_call(ev, "set_dir", 1)]
        finals = []
        for (b, i, ev) in setdirs:
            refs = local_refs(ev["args"][0].get("refs", []))
            if len(refs) == 1:
                v = next(iter(refs))
                defs = f.reaching_defs(v, (b, i))
                if defs and all(C + "make_unit_vector" in d[2].get("calls", [])
                                and "F:" + C + "OdeState::mom" in d[2].get("refs", [])
                                and "F:" + STATE in d[2].get("refs", []) for d in defs):
                    finals.append((b, i, ev))
        ok = bool(finals)
        path = None
        if ok:
            fl = [x[2]["loc"] for x in finals]
            okp, path = f.must_pass(lambda e: is_geo_call(e, "set_dir", 1) and e["loc"] in fl)
            ok = okp
            # no other set_dir may follow a final one
            for (b, i, ev) in finals:
                later = f.reach(f.succ(b))
                for (b2, i2, e2) in setdirs:
                    if e2["loc"] not in fl and (b2 in later or (b2 == b and i2 > i)):
                        ok = False
        cx.ob("C08.2-final-direction", "last set_dir on every path takes make_unit_vector(state_.mom) [%s]" % tag,
              ok, "%d set_dir call(s), %d final" % (len(setdirs), len(finals)), short(f.loc),
              path=f.path_locs(path),
              why="the direction reported to the geometry must be the integrated momentum "
                  "direction, not the last chord")
        momw = [ev for (_b, _i, ev) in f.events("write")
                if "f:" + STATE in ev.get("path", {}).get("chain", [])
                and [x for x in ev["path"]["chain"][ev["path"]["chain"].index("f:" + STATE) + 1:]
                     if x.startswith("f:")] in ([], ["f:" + C + "OdeState::mom"])]
        okm = bool(momw) and all(
            (any(r.endswith("DriverResult::state") for r in ev.get("refs", []))
             and ev.get("kind") in ("assign", "opassign") and not ev.get("calls")
             and len(local_refs(ev.get("refs", []))) == 1)
            for ev in momw)
        cx.ob("C08.2-final-direction", "state_.mom is only copied from the driver result [%s]" % tag,
              okm, str([ev.get("rhs") for ev in momw]), short(f.loc),
              why="rescaling the momentum in the propagator would change its magnitude")

        # ------------------------------------------------ 3. loop progress
        loop_ok = False
        d = "loop condition block not found"
        # do-while: the condition may be split by && into two blocks; find the block whose
        # terminator is the DoStmt and walk back to the first operand
        dos = [bid for bid, blk in f.blocks.items() if blk.get("tk") == "DoStmt" and blk.get("cond")
               and None not in blk["succ"] and bid in f.live_blocks()]
        if dos:
            do_b = dos[0]
            # operand blocks: predecessors chain with '&&' terminator
            cond_blocks = {do_b}
            for p in f.preds(do_b):
                if f.blocks[p].get("tk") == "BinaryOperator" and f.blocks[p].get("top") == "&&":
                    cond_blocks.add(p)
            first = [c for c in cond_blocks if f.blocks[c].get("tk") == "BinaryOperator"] or [do_b]
            head_succ = [s for s in f.blocks[do_b]["succ"] if s is not None]
            # body entry: the successor of the DoStmt block that can reach it again
            body = [s for s in head_succ if do_b in f.reach([s])]
            cond_text = f.blocks[do_b]["cond"].get("t", "")
            V = set()
            for cb in cond_blocks:
                cc = f.blocks[cb]["cond"]
                V |= local_refs(cc.get("allrefs", cc.get("refs", [])))
            reads_ok = len(V) >= 1
            if body:
                blocked = [bid for bid, blk in f.blocks.items()
                           if any(e["e"] == "def" and e.get("var") in V for e in blk["ev"])]
                r = f.reach(body, blocked_blocks=blocked)
                loop_ok = not (set(first) & r) and reads_ok
                d = "every path body->condition redefines a loop variable %s; condition `%s`" % (sorted(V), cond_text)
                if not loop_ok:
                    d = "a path through the loop body reaches the condition without redefining " \
                        "any variable the condition reads (%s)" % sorted(V)
        cx.ob("C08.3-loop-progress", "substep loop redefines `remaining` on every body path [%s]" % tag,
              loop_ok, d, short(f.loc),
              why="a body path that leaves `remaining` unchanged can spin forever on the same substep")
        acc_blocks = [b for (b, i, ev) in f.events("def") if ev.get("op") == "--"
                      and any(is_geo_call(e, "move_internal", 1) for e in f.blocks[b]["ev"])]
        okd = bool(acc_blocks) and all(
            any(is_geo_call(e, "move_internal", 1) for e in f.blocks[b]["ev"]) for b in acc_blocks)
        cx.ob("C08.3-loop-progress", "the accepting path decrements the substep budget [%s]" % tag, okd,
              "", short(f.loc), why="the looping cut-off relies on the budget being spent")

        # ------------------------------------------------ 4. flag <-> geometry state
        resvars = set()
        for (_b, _i, e) in f.events("return"):
            resvars |= local_refs(e.get("refs", []))
        cx.require(len(resvars) == 1, "FieldPropagator: cannot identify the returned result variable")
        resvar = next(iter(resvars))
        for (b, i, ev) in f.events():
            if is_geo_call(ev, "move_internal", 1):
                evs = f.blocks[b]["ev"]
                cleared = any(e["e"] == "write" and path_leaf(e.get("path")) == C + "Propagation::boundary"
                              and e.get("path", {}).get("root") == "l:" + resvar
                              and e.get("rhs") == "false" for e in evs)
                guarded = False
                for br in f.branch_blocks(lambda c, _b: "F:" + C + "Propagation::boundary" in c.get("refs", [])
                                          and resvar in c.get("refs", []) and "op" not in c):
                    if f.guarded_by_edge((b, i), br, f.cond_polarity_edge(br, False)):
                        guarded = True
                cx.ob("C08.4-flag-matches-geo", "move_internal @%s happens with result.boundary false [%s]"
                      % (short(ev["loc"]).split(":")[-1], tag), cleared or guarded,
                      "flag cleared in the same block: %s; under !result.boundary: %s" % (cleared, guarded),
                      short(ev["loc"]),
                      why="moving the geometry off the surface while still reporting 'on boundary' "
                          "makes the caller cross a boundary the track is not on")
            if is_geo_call(ev, "move_to_boundary", 0):
                guarded = False
                for br in f.branch_blocks(lambda c, _b: "F:" + C + "Propagation::boundary" in c.get("refs", [])
                                          and resvar in c.get("refs", []) and "op" not in c):
                    if f.guarded_by_edge((b, i), br, f.cond_polarity_edge(br, True)):
                        guarded = True
                cx.ob("C08.4-flag-matches-geo", "move_to_boundary only under result.boundary [%s]" % tag,
                      guarded, "", short(ev["loc"]),
                      why="the geometry must be on the surface exactly when the flag says so")

    # ---------------------------------------------------- 5. options validation reached
    VAL = C + "validate_input"
    for cls, fn in ((C + "AlongStepUniformMscAction", C + "AlongStepUniformMscAction::AlongStepUniformMscAction"),
                    (C + "RZMapFieldParams", C + "RZMapFieldParams::RZMapFieldParams")):
        fs2 = db.get(fn)
        cx.require(fs2, "anchor %s not found" % fn)
        ok = False
        for f in fs2:
            for (_b, _i, ev) in f.calls(VAL):
                if "FieldDriverOptions" in ev.get("sig", ""):
                    ok = True
            # lambdas inside the constructor
            for n in db.find("^" + fn.replace("(", r"\(").replace(")", r"\)") + r"::\(lambda"):
                for g in db.get(n):
                    for (_b, _i, ev) in g.calls(VAL):
                        if "FieldDriverOptions" in ev.get("sig", ""):
                            ok = True
        cx.ob("C08.5-options-validated", "%s validates its FieldDriverOptions" % cls.split("::")[-1],
              ok, "", short(fs2[0].loc),
              why="the propagator's guarantees are stated for validated option ranges only")

    # ------------------------------------------- 6. reported length = integrated length
    driver_length_coherent(db, cx)
    substep_bounded(db, cx)
    accept_threshold(db, cx)
    options_stored(db, cx)


DRS = "f:" + C + "DriverResult::state"
DRL = "f:" + C + "DriverResult::step"


def _last_defs(f, pos, match):
    """Events (b, i, ev) that are the nearest `match`ing event on some backward path from pos."""
    out = []
    seen = set()
    work = [(pos[0], pos[1])]
    while work:
        b, upto = work.pop()
        evs = f.blocks[b]["ev"]
        hit = None
        for k in range(min(upto, len(evs)) - 1, -1, -1):
            if match(evs[k]):
                hit = (b, k, evs[k])
                break
        if hit:
            if hit[:2] not in [o[:2] for o in out]:
                out.append(hit)
            continue
        for p in f.preds(b):
            if p not in seen:
                seen.add(p)
                work.append((p, 10 ** 9))
    return out


def _stale_at(f, var, sources, dst):
    """True if some entry->dst path redefines `var` after the last producer of the state
    (`sources`: positions of the stepper calls) on that path: the value read at dst is then not
    the one the state was produced with.  Forward walk from the entry, path-sensitive in local
    boolean flags that are only assigned the literals true/false (`succeeded`), so that a retry
    loop `do {...} while (!succeeded && --n > 0)` and an arm `if (!succeeded) { redo }` after it
    are understood."""
    sources = set(map(tuple, sources))
    seen = set()
    work = [(f.entry, 0, False, frozenset(), None)]
    while work:
        b, i, dirty, flags, forced = work.pop()
        fl = dict(flags)
        evs = f.blocks[b]["ev"]
        stop = False
        for k in range(i, len(evs)):
            if (b, k) == tuple(dst):
                if dirty:
                    return True
                stop = True
                break
            e = evs[k]
            if (b, k) in sources:
                dirty = False        # a new stepper call re-synchronises state and length
            elif e["e"] == "def" and e.get("var") == var:
                dirty = True
            if e["e"] == "def" and e.get("var") and (b, k) not in sources:
                if e.get("kind") in ("decl", "assign") and e.get("rhs") in ("true", "false"):
                    fl[e["var"]] = e["rhs"] == "true"
                else:
                    fl.pop(e["var"], None)
        if stop:
            continue
        raw = f.blocks[b]["succ"]
        c = f.blocks[b].get("cond")
        idxs = list(range(len(raw)))
        if forced is not None and len(raw) == 2:
            idxs = [forced]          # reached through a short-circuit edge: `a && b` is false
        elif c and c.get("var") in fl and len(raw) == 2:
            idxs = [f.cond_polarity_edge(b, fl[c["var"]])]
        for ix in idxs:
            sx = raw[ix]
            if sx is None:
                continue
            nforced = None
            if len(raw) == 2 and f.blocks[b].get("tk") == "BinaryOperator":
                other = raw[1 - ix]
                if other is not None and [x for x in f.blocks[other]["succ"] if x is not None] == [sx]:
                    # b is the first operand of `a && b` (ix == 1) / `a || b` (ix == 0) and this
                    # edge skips the second operand: the join block's condition has that value
                    nforced = ix
            key = (sx, dirty, frozenset(fl.items()), nforced)
            if key not in seen:
                seen.add(key)
                work.append((sx, 0, dirty, frozenset(fl.items()), nforced))
    return False


def substep_bounded(db, cx, rule="C08.7-substep-bounded"):
    """C08.7 (seeded change c05e): in FieldDriver::accurate_advance every sub-step length handed to
    integrate_step is bounded by the length that remains to be integrated: it is the requested
    `step` itself, an alternative guarded by `< step`, or min(., L - curve_length) with L a copy
    of `step` and curve_length the accumulated length.  clamp(v, lo, remaining) is not such a
    bound: for lo > remaining it returns lo and the state is integrated past the chord."""
    import re
    fs = [f for f in db.get(C + "FieldDriver::accurate_advance")]
    cx.require(fs, "anchor FieldDriver::accurate_advance not found")
    for f in fs:
        tag = f.inst.split("<", 1)[1][:40] if "<" in f.inst else ""
        step_par = f.r["params"][0]["n"]
        calls = [(b, i, e) for (b, i, e) in f.events("call") if e["callee"] == C + "FieldDriver::integrate_step"]
        cx.require(calls, "accurate_advance no longer calls integrate_step")
        # copies of the requested length, and the accumulated length
        copies = {step_par}
        for (_b, _i, e) in f.events("def"):
            if e.get("kind") == "decl" and (e.get("rhs") or "").strip() == step_par:
                copies.add(e["var"])
        acc = set(e["var"] for (_b, _i, e) in f.events("def") if e.get("op") == "+="
                  and any(r.endswith("DriverResult::step") for r in e.get("refs", [])))
        for (b, i, e) in calls:
            arg = e["args"][0]
            lr = sorted(local_refs(arg.get("refs", [])))
            if len(lr) != 1 or arg.get("t") != lr[0]:
                cx.ob(rule, "integrate_step length is a plain local [%s]" % tag, False,
                      arg.get("t"), short(e["loc"]))
                continue
            h = lr[0]
            rds = [d for (_b2, _i2, d) in f.reaching_defs(h, (b, i)) if d["e"] == "def"]
            for d in rds:
                rhs = re.sub(r"\s+", "", (d.get("rhs") or "").replace("celeritas::", "").replace("std::", "").replace("this->", ""))
                # a local that names the remaining length: substitute its (single) definition
                for v_ in sorted(local_refs(d.get("refs", []))):
                    if v_ in copies or v_ in acc or v_ == h:
                        continue
                    vd = [x for (_b3, _i3, x) in f.events("def") if x.get("var") == v_]
                    if len(vd) == 1 and re.match(r"^[A-Za-z_][A-Za-z_0-9]*\s*-\s*[A-Za-z_][A-Za-z_0-9]*$",
                                                 (vd[0].get("rhs") or "").strip()):
                        rhs = re.sub(r"\b%s\b" % re.escape(v_), re.sub(r"\s+", "", vd[0]["rhs"]), rhs)
                ok = False
                why = ""
                if rhs in copies:
                    ok = True
                else:
                    m = re.match(r"^min\((.*),([A-Za-z_][A-Za-z_0-9]*)-([A-Za-z_][A-Za-z_0-9]*)\)$", rhs)
                    m2 = re.match(r"^min\(([A-Za-z_][A-Za-z_0-9]*)-([A-Za-z_][A-Za-z_0-9]*),(.*)\)$", rhs)
                    if m and m.group(2) in copies and m.group(3) in acc:
                        ok = True
                    elif m2 and m2.group(1) in copies and m2.group(2) in acc:
                        ok = True
                    else:
                        mc = re.match(r"^\(*(.*)\)*\?([A-Za-z_][A-Za-z_0-9]*):([A-Za-z_][A-Za-z_0-9]*)$", rhs)
                        if mc:
                            cond, a_, b_ = mc.group(1), mc.group(2), mc.group(3)
                            okb = b_ in copies
                            oka = a_ in copies or any(("%s<%s" % (a_, c_)) in cond or ("%s<=%s" % (a_, c_)) in cond
                                                      for c_ in copies)
                            ok = oka and okb and "||" not in cond
                        if not ok:
                            why = "not `step`, not min(., %s - %s)" % ("|".join(sorted(copies)), "|".join(sorted(acc)) or "?")
                cx.ob(rule,
                      "sub-step `%s = %s` @%s is bounded by the remaining length [%s]" % (
                          h, (d.get("rhs") or "")[:70], short(d["loc"]).split(":", 1)[1], tag), ok, why,
                      short(d["loc"]),
                      why="the driver reports min(curve_length, step) as the length of the state it "
                          "returns; a sub-step longer than what remains integrates the state past the "
                          "requested chord, so the track moves further than its reported step")


def accept_threshold(db, cx):
    """C08.8 (seeded change c08e): the length below which the propagator commits the end state of
    a *whole* trial sub-step for a partial advance (`update_length <= minimum_substep()`) is the
    integrator's own resolution, `driver_.minimum_step()`, and nothing larger."""
    fs = [f for f in db.find(r"^celeritas::FieldPropagator::minimum_substep$") for f in db.get(f)]
    cx.require(fs, "anchor FieldPropagator::minimum_substep not found")
    for f in fs:
        tag = f.inst.split("<", 1)[1][:40] if "<" in f.inst else ""
        rets = [e for (_b, _i, e) in f.events("return")]
        ok = bool(rets)
        for e in rets:
            calls = [c for c in e.get("calls", [])]
            t = (e.get("t") or "").replace("this->", "").replace(" ", "")
            simple = len(calls) == 1 and calls[0].endswith("::minimum_step") and t.endswith(".minimum_step()") \
                and not any(ch in t for ch in "+*/,")
            bounded = any(c.endswith("::min") for c in calls) and any(c.endswith("::minimum_step") for c in calls) \
                and not any(c.endswith("::max") for c in calls)
            ok = ok and (simple or bounded)
        cx.ob("C08.8-accept-threshold", "minimum_substep() is the driver's minimum step [%s]" % tag, ok,
              "; ".join(e.get("t", "") for e in rets), short(f.loc),
              why="below this length the propagator accepts a boundary hit with the momentum of the "
                  "end of the full trial sub-step; a larger threshold (e.g. the bump distance) rotates "
                  "the direction by a sub-step that was not travelled: the end point leaves the helix")


def options_stored(db, cx):
    """C08.9 (seeded change c08f): the FieldDriverOptions that were validated are the ones the
    propagator is later built from: every params data record with a FieldDriverOptions member has
    that member assigned from the validated input options in the constructor that validates them."""
    n = 0
    for rname, rec in sorted(db.records.items()):
        if not rname.startswith(C) or "Data" not in rname:
            continue
        for fld in rec.get("fields", []):
            ty = (fld.get("ty") or "") + " " + (fld.get("cty") or "")
            if "FieldDriverOptions" not in ty:
                continue
            leaf = "f:%s::%s" % (rname, fld["n"])
            base = rname.replace("Data", "").rstrip(":")
            ctors = [f for nm in db.find("^" + base.replace("(", r"\(").replace(")", r"\)") + r"::[A-Za-z_0-9]+$")
                     for f in db.get(nm) if f.name.split("::")[-1] == base.split("::")[-1]
                     and f.has_call(C + "validate_input")]
            if not ctors:
                continue
            for f in ctors:
                vals = [e["args"][0] for (_b, _i, e) in f.events("call") if e["callee"] == C + "validate_input"
                        and e.get("args")]
                vref = set(r for a in vals for r in a.get("refs", []) if r.startswith("F:"))
                bodies = [f] + [g for nm2 in db.find("^" + f.name.replace("(", r"\(").replace(")", r"\)") + r"::\(lambda")
                                for g in db.get(nm2)]        # immediately invoked lambdas of the constructor
                ws = [e for g in bodies for (_b, _i, e) in g.events("write")
                      if (e.get("path") or {}).get("chain", [None])[-1] == leaf]
                ok = bool(ws) and all(set(r for r in e.get("refs", []) if r.startswith("F:")) & vref for e in ws)
                n += 1
                cx.ob("C08.9-options-stored", "%s stores the validated driver options in %s::%s" % (
                    base.split("::")[-1], rname.split("::")[-1], fld["n"]), ok,
                    "; ".join("%s = %s" % (e.get("lhs"), e.get("rhs")) for e in ws) or "never assigned", short(f.loc),
                    why="the propagator of this field is built from the stored options; if they stay "
                        "default-constructed the configured substep budget and chord / intersection "
                        "tolerances are silently ignored")
    cx.floor("params records that carry FieldDriverOptions", n, 1)


def driver_length_coherent(db, cx):
    """K4 (provenance pairing): on every path to a `return` of a FieldDriver method that hands
    back a (state, step) pair, the two components come from the same producer: one whole-record
    assignment / initialisation from a call, or two writes in one block where the length is the
    length argument of the stepper call that produced the state, or (adaptive integration) a
    length accumulated from every sub-integration that redefines the state."""
    names = [n for n in db.find(r"^celeritas::FieldDriver::(advance|accurate_advance|find_next_chord|"
                                r"integrate_step|one_good_step)$")]
    cx.floor("FieldDriver methods returning a (state, step) pair", len(names), 5)
    ninst = 0
    for n in sorted(names):
        for f in db.get(n):
            ninst += 1
            tag = f.inst.split("FieldDriver<")[-1].rsplit("::", 1)[0][-36:]
            for (rb, ri, rev) in f.events("return"):
                p = rev.get("path")
                if not p or not p["root"].startswith("l:"):
                    cx.ob("C08.6-driver-length", "%s return @%s [%s]" % (n.split("::")[-1],
                          short(rev["loc"]).split(":")[-1], tag), False,
                          "return value is not a local (state, step) record: %s" % rev.get("t"),
                          short(rev["loc"]))
                    continue
                root = p["root"]
                var = root[2:]
                prefix = list(p["chain"])

                def classify(ev):
                    """'state' | 'step' | 'both' | None for an event w.r.t. the returned record."""
                    if ev["e"] == "def" and ev.get("var") == var and ev.get("kind") in ("decl", "assign", "opassign"):
                        return "both"
                    if ev["e"] != "write" or not ev.get("path") or ev["path"]["root"] != root:
                        return None
                    ch = ev["path"]["chain"]
                    # normalise: a ChordSearch/Integration wrapper adds one `end` field
                    if ch and ch[-1] == DRS:
                        return "state"
                    if ch and ch[-1] == DRL:
                        return "step"
                    if all(c.startswith("f:") and c.endswith("::end") for c in ch):
                        return "both"
                    return None

                def producers(component):
                    return _last_defs(f, (rb, ri), lambda e: classify(e) in (component, "both"))

                def key(b, i, ev):
                    k = classify(ev)
                    if k == "both":
                        return [("whole", b, i)]
                    evs = f.blocks[b]["ev"]
                    other = "step" if k == "state" else "state"
                    partner = [e for e in evs if classify(e) == other]
                    if partner:
                        st = ev if k == "state" else partner[-1]
                        ln = ev if k == "step" else partner[-1]
                        lvars = local_refs(ln.get("refs", []))
                        srefs = set(st.get("refs", []))
                        sources = []        # where the state was produced (stepper call)
                        for v in local_refs(st.get("refs", [])):
                            for (db_, di_, d) in f.reaching_defs(v, (b, evs.index(st))):
                                srefs |= set(d.get("refs", []))
                                if d.get("calls") and d.get("refs"):
                                    sources.append((db_, di_))
                        if lvars and lvars <= srefs and not ln.get("calls"):
                            stale = [v for v in lvars
                                     if sources and _stale_at(f, v, sources, (b, evs.index(ln)))]
                            if stale:
                                return [("stale-length", b, evs.index(ln))]
                            return [("pair", b)]
                    if k == "step":
                        # accumulated length: A starts at literal 0 and is `+=`-ed with the step of
                        # every whole-record redefinition, in the block of that redefinition
                        for a in local_refs(ev.get("refs", [])):
                            defs = [(bb, ii, d) for (bb, ii, d) in f.events("def") if d.get("var") == a]
                            accs = [(bb, ii, d) for (bb, ii, d) in defs if d.get("op") == "+="
                                    and "F:" + C + "DriverResult::step" in d.get("refs", [])
                                    and var in d.get("refs", [])]
                            inits = [(bb, ii, d) for (bb, ii, d) in defs if d.get("kind") == "decl"]
                            others = [d for (bb, ii, d) in defs if (bb, ii, d) not in accs
                                      and (bb, ii, d) not in inits]
                            if not accs or others or not all(d.get("lit") == "0" for (_b, _i, d) in inits):
                                continue
                            keys = []
                            whole = [(bb, ii) for (bb, ii, e) in f.events() if classify(e) == "both"
                                     and (e.get("calls") and not all(c.endswith("::Integration") or
                                          c.endswith("::ChordSearch") or c.endswith("::DriverResult")
                                          for c in e.get("calls", [])))]
                            good = True
                            for (bb, ii) in whole:
                                if any(ab == bb and ai > ii for (ab, ai, _d) in accs):
                                    keys.append(("whole", bb, ii))
                                else:
                                    good = False
                            if good and keys:
                                return keys
                    return [("partial", b, i)]

                ks = set()
                kl = set()
                for (b, i, ev) in producers("state"):
                    ks |= set(key(b, i, ev))
                for (b, i, ev) in producers("step"):
                    kl |= set(key(b, i, ev))
                stale = [k_ for k_ in ks | kl if k_[0] == "stale-length"]
                ok = bool(ks) and ks == kl and not stale

                def where(keys):
                    out = []
                    for k_ in sorted(keys, key=str):
                        b = k_[1]
                        ev = f.blocks[b]["ev"][k_[2]] if len(k_) > 2 else None
                        out.append("%s@%s" % (k_[0], short(ev["loc"]).split(":", 1)[-1] if ev else "B%d" % b))
                    return ", ".join(out)
                cx.ob("C08.6-driver-length", "%s return @%s: state and step from the same producer [%s]"
                      % (n.split("::")[-1], short(rev["loc"]).split(":")[-1], tag), ok,
                      ("the length variable is redefined between the stepper call that produced the "
                       "state and the assignment of the step (%s): on that path the reported length is "
                       "not the integrated one" % where(stale)) if stale else
                      "state <- {%s}; step <- {%s}" % (where(ks), where(kl)), short(rev["loc"]),
                      why="the driver must report the length it actually integrated: a state advanced "
                          "by one length but labelled with another puts the end point off the field "
                          "line by the difference and lets the propagator count distance it never "
                          "travelled")
    cx.floor("FieldDriver method instantiations", ninst, 10)
