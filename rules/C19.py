"""C19 - geometry input JSON round trip: writer/reader agreement (structural)."""
import re
from common import C, short, local_refs, field_writers, trans_writes, accessor_summary
from cfg import path_leaf
from facts import AnalysisBroken
import witness

EXPLANATION = (
    "For every record with both to_json and from_json (discovered by signature): keys written are "
    "keys read; every data member is serialised and deserialised (audited exceptions listed); a "
    "key the writer may omit is optional (or equally conditional) for the reader and, where the "
    "omission condition is `field != D`, the reader's default on the absent edge is D; character "
    "tables (z-order, logic tokens) are mutual inverses on every enumerator; universe type tags "
    "written are accepted; transform arrays are discriminated by lengths that equal the storage "
    "extents of the transform classes (compile-time witness).")
NOT_DECIDED = "floating-point text formatting, identical navigation results"

TECHNIQUE = ('writer/reader agreement of JSON keys (string-literal events with their callee context), field coverage, omission-guard vs default comparison, enum<->char table inversion, static_assert witness for transform extents; symbolic interpretation (lib/polyinterp.py) of the transform reader arm and constructor initialisers against the storage order written by data(); provenance of the stored transform (import_transform only); audited table of post-read overrides')

UNITS = [
    "src/orange/OrangeInputIO.json.cc",
    "src/orange/detail/OrangeInputIOImpl.json.cc",
    "src/orange/OrangeTypes.cc",
    "src/geocel/BoundingBoxIO.json.cc",
    "src/orange/surf/SurfaceIO.cc",
    "src/orange/transform/TransformIO.cc",
    "src/orange/transform/Transformation.cc",
    "src/corecel/io/Label.cc",
]

JSON = "nlohmann::basic_json::"
# data members deliberately not serialised (one line of reason each)
NOT_SERIALISED = {
    "VolumeInput::obz": "oriented bounding zone: construction-time acceleration hint, rebuilt as null",
    "VolumeInput::label": "travels through the parent's `volume_labels` array (checked as a pair)",
}


def rec_of(f):
    ty = f.r["params"][1]["cty"]
    m = re.search(r"celeritas::([A-Za-z_]+)", ty)
    return m.group(1) if m else None


def key_events(f):
    """[(key, how, conditional, (b,i))] for json key literals in f."""
    out = []
    # blocks guarded by a non-constant branch
    cond_blocks = set()
    for bid, blk in f.blocks.items():
        if blk.get("cond") and len(blk["succ"]) == 2 and None not in blk["succ"]:
            cond_blocks.add(bid)
    dom = f.dominators()
    always = set()
    # blocks executed on every normal path = those that dominate the exit... approximate:
    # a block is unconditional if every path entry->exit passes it
    for bid in f.live_blocks():
        r = f.reach([f.entry], blocked_blocks=[bid])
        if f.exit not in r or bid == f.entry:
            always.add(bid)
    for (b, i, ev) in f.events("str"):
        ctx = ev.get("ctx", "")
        how = None
        if ctx == JSON + "operator[]":
            how = "index"
        elif ctx == JSON + "at":
            how = "at"
        elif ctx in (JSON + "find", JSON + "contains", JSON + "count"):
            how = "find"
        elif ctx in (JSON + "basic_json", JSON + "object") and ev.get("inlist"):
            how = "pair"
        elif ev.get("inlist") and not ctx:
            how = "alias"
        elif ev.get("inlist") and ctx.startswith("std::initializer_list"):
            how = "alias"
        if how is None:
            continue
        out.append((ev["s"], how, b not in always, (b, i), ev))
    # in a brace-initialised {key, value} pair only the first string on a line is the key
    seen_lines = set()
    res = []
    for item in out:
        if item[1] == "pair":
            line = ":".join(item[4]["loc"].split(":")[:2])
            if line in seen_lines:
                continue
            seen_lines.add(line)
        res.append(item)
    return res



def transform_direct(db, cx):
    """C19.5-transform-direct (seeded change c19e): the reader stores the transform object that
    `detail::import_transform` builds from the JSON array - the layout rule C19.5-transform-layout
    proves that object equal to what was written - and does not pass it through anything else."""
    n = 0
    allowed_tail = ("::import_transform", "::make_transform", "::slice", "::make_span")
    for nm in db.find(r"^celeritas::from_json$"):
        for f in db.get(nm):
            for (_b, _i, e) in f.events("call"):
                if e["callee"] != "std::vector::push_back" or \
                        "std::variant<celeritas::NoTransformation" not in e.get("inst", ""):
                    continue
                a = e["args"][0]
                calls = [c for c in a.get("calls", []) if c.startswith(C)]
                extra = [c for c in calls if not c.endswith(allowed_tail) and "::OpaqueId" not in c]

                def forwards(c):
                    """a helper that only forwards to import_transform (no writes, no other call)"""
                    gs = db.get(c)
                    if not gs:
                        return False
                    for g in gs:
                        if any(True for _x in g.events("write")):
                            return False
                        rc = [c2 for (_b2, _i2, e2) in g.events("call") for c2 in [e2["callee"]] if c2.startswith(C)]
                        if not rc or any(not c2.endswith("::import_transform") and "::OpaqueId" not in c2 for c2 in rc):
                            return False
                    return True
                if extra and all(forwards(c) for c in extra):
                    extra = []
                    calls = calls + [C + "detail::import_transform"]
                direct = any(c.endswith("::import_transform") or c.endswith("::make_transform") for c in calls)
                n += 1
                cx.ob("C19.5-transform-direct",
                      "daughter transform read @%s is the object built by import_transform" %
                      short(e["loc"]).split(":", 1)[1], direct and not extra,
                      "built by: %s" % (", ".join(c.split("::")[-1] for c in calls) or a.get("t", "")[:60]),
                      short(e["loc"]),
                      why="anything done to the matrix after it was read (re-orthonormalising, "
                          "re-normalising) is applied on the reading side only: reflections and "
                          "general rotations do not survive the round trip")
    cx.floor("daughter transforms pushed by the UnitInput reader", n, 2)


def background_overrides(db, cx):
    """C19.3-read-overrides (seeded change c19f): the reader canonicalises exactly two fields of a
    background volume after reading it - `logic` ("nowhere") and `bbox` (null), the values the
    construction API emits for such volumes and the writer omits - and nothing else; in
    particular not `flags`, which the writer stores and the navigator consumes."""
    AUDITED = {"logic": "background volumes are 'nowhere' by construction (UnitProto emits exactly this logic)",
               "bbox": "background volumes carry a null bounding box by construction"}
    n = 0
    for nm in db.find(r"^celeritas::from_json$"):
        for f in db.get(nm):
            ps = f.r.get("params", [])
            if len(ps) != 2 or "VolumeInput" not in (ps[1].get("cty") or ps[1].get("ty") or ""):
                continue
            vpar = ps[1]["n"]
            brs = f.branch_blocks(lambda c, _b: c.get("renum", "").endswith("ZOrder::background") and c.get("op") == "==")
            cx.require(brs, "from_json(VolumeInput): test for a background volume not found")
            for (b, i, e) in f.events("write"):
                pth = e.get("path") or {}
                if pth.get("root") != "p:" + vpar or not pth.get("chain"):
                    continue
                if not any(f.guarded_by_edge((b, i), br, f.cond_polarity_edge(br, True)) for br in brs):
                    continue
                fld = pth["chain"][0].split("::")[-1]
                n += 1
                cx.ob("C19.3-read-overrides", "background volume: reader overrides `%s` @%s" % (
                    fld, short(e["loc"]).split(":", 1)[1]), fld in AUDITED,
                    AUDITED.get(fld, "`%s = %s` replaces what was read; the writer stores this field" % (fld, e.get("rhs"))),
                    short(e["loc"]),
                    why="a field that the writer stores and the reader then replaces by a constant does "
                        "not survive the round trip (flags: the simple-safety bit of a background volume "
                        "with a cone or quadric face is lost, its safety becomes 0)")
    cx.floor("post-read overrides of background volumes", n, 2)

def run(db, cx):
    background_overrides(db, cx)
    transform_direct(db, cx)
    acc = accessor_summary(db)
    tos = {}
    froms = {}
    # the property is about the geometry input: only the ORANGE / geocel / label I/O
    in_scope = lambda f: f.loc.startswith(("src/orange/", "src/geocel/", "src/corecel/io/Label",
                                           "src/corecel/cont/ArrayIO"))
    for f in db.get(C + "to_json"):
        if not in_scope(f):
            continue
        if len(f.r["params"]) == 2 and "basic_json" in f.r["params"][0]["cty"]:
            tos.setdefault(rec_of(f), []).append(f)
    for f in db.get(C + "from_json"):
        if not in_scope(f):
            continue
        if len(f.r["params"]) == 2 and "basic_json" in f.r["params"][0]["cty"]:
            froms.setdefault(rec_of(f), []).append(f)
    pairs = sorted(k for k in tos if k in froms and k)
    cx.floor("to_json/from_json record pairs", len(pairs), 6)
    helpers = {}
    for n in db.find(r"^celeritas::(\(anon\)::)?(get_bbox)$"):
        for f in db.get(n):
            helpers[n] = f

    for rec in pairs:
        if rec in ("Array", "BoundingBox", "Label", "Quantity", "OpaqueId"):
            continue   # array-shaped values, no keys
        ft, ff = tos[rec][0], froms[rec][0]
        wkeys = [k for k in key_events(ft) if k[1] in ("index", "pair")]
        rk = key_events(ff)
        for h in helpers.values():
            if any(ev["callee"] == h.name for (_b, _i, ev) in ff.events("call")):
                rk += [(k, how, True, pos, ev) for (k, how, _c, pos, ev) in key_events(h)]
        rkeys = {}
        for (k, how, cond, pos, ev) in rk:
            rkeys.setdefault(k, []).append((how, cond))
        cx.count("keys written by to_json(%s)" % rec, len(wkeys))
        # --- R1 key agreement
        for (k, how, cond, pos, ev) in wkeys:
            if k == "_type":
                continue     # discriminator read by the parent's dispatcher (rule C19.5)
            if k.startswith("_") and k != "_format":
                continue     # provenance keys (_version ...) are optional metadata
            ok = k in rkeys
            cx.ob("C19.1-keys", "%s: key \"%s\" written by to_json is read by from_json" % (rec, k),
                  ok, "reader accesses: %s" % rkeys.get(k), short(ev["loc"]),
                  why="a key the reader does not know is silently dropped on the way back")
            # --- R3 optional discipline
            if ok and cond:
                modes = rkeys[k]
                opt = any(h in ("find", "alias") or (h == "at" and c) for (h, c) in modes)
                cx.ob("C19.3-optional-keys", "%s: key \"%s\" may be omitted by the writer and is "
                      "optional/conditional for the reader" % (rec, k), opt, str(modes), short(ev["loc"]),
                      why="a key the writer omits but the reader requires makes the written file "
                          "unreadable")
        # --- R2 field agreement
        r = db.records.get(C + rec)
        if r is None:
            continue
        flds = [x["n"] for x in r["fields"]]
        reads = set(x.split("::")[-1] for x in ft.r["reads"] if x.startswith(C + rec + "::"))
        for n_ in db.find("^" + re.escape(ft.name) + r"::\(lambda"):
            for g in db.get(n_):
                reads |= set(x.split("::")[-1] for x in g.r["reads"] if x.startswith(C + rec + "::"))
        tw = trans_writes(db, ff, acc, 1, lambda n: n.startswith("std::") is False)
        written = set(k.split("::")[-1] for k in tw if k.startswith(C + rec + "::"))
        for (_b, _i, ev) in ff.events("call"):
            # json get_to(value.f) / emplace into value.f
            for a in ev.get("args", []):
                p = a.get("path")
                if p and a.get("mode") in ("ref", "ptr"):
                    for x in p.get("chain", []):
                        if x.startswith("f:" + C + rec + "::"):
                            written.add(x.split("::")[-1])
            rp = ev.get("recv", {}).get("path")
            if rp and not ev.get("constm", True):
                for x in rp.get("chain", []):
                    if x.startswith("f:" + C + rec + "::"):
                        written.add(x.split("::")[-1])
        for x in flds:
            key = "%s::%s" % (rec, x)
            if key in NOT_SERIALISED:
                cx.ob("C19.2-fields", "%s is deliberately not serialised (audited)" % key, True,
                      NOT_SERIALISED[key], short(ft.loc))
                continue
            cx.ob("C19.2-fields", "to_json(%s) serialises %s" % (rec, x), x in reads, "",
                  short(ft.loc), why="a member that is not written cannot survive the round trip")
            cx.ob("C19.2-fields", "from_json(%s) restores %s" % (rec, x), x in written,
                  "restored: %s" % sorted(written), short(ff.loc),
                  why="a member that is not read back keeps its default instead of the stored value")

    # --- R3b: `field != D` omission mirrored by default D (keys discovered from the writer)
    n3 = 0
    for rec in pairs:
        if rec not in tos or rec not in froms:
            continue
        fv, rv = tos[rec][0], froms[rec][0]
        for (key, how, cond, pos, ev) in key_events(fv):
            if how not in ("index", "pair") or not cond:
                continue
            wc = None
            fld = None
            for br in fv.branch_blocks(lambda c, _b: c.get("op") == "!=" and any(
                    x.startswith("F:" + C + rec + "::") for x in c.get("lrefs", []))):
                if fv.guarded_by_edge(pos, br, fv.cond_polarity_edge(br, True)):
                    c = fv.blocks[br]["cond"]
                    fl = [x for x in c.get("lrefs", []) if x.startswith("F:" + C + rec + "::")]
                    if len(fl) == 1 and c.get("l", "").replace("value.", "") == fl[0].split("::")[-1]:
                        wc = c.get("r", "").replace("celeritas::", "")
                        fld = fl[0].split("::")[-1]
            if wc is None:
                continue
            n3 += 1
            rd = None
            srcs = [rv] + [h for h in helpers.values()
                           if any(e["callee"] == h.name for (_b, _i, e) in rv.events("call"))]
            for src in srcs:
                for (k, how2, cond2, pos2, ev2) in key_events(src):
                    if k != key or how2 != "find":
                        continue
                    for br in src.branch_blocks(lambda c, _b: c.get("op") in ("!=", "==") and any(
                            x.endswith("basic_json::end") for x in c.get("lcalls", []) + c.get("rcalls", []))):
                        if not src.dominates(pos2, (br, 10 ** 6)):
                            continue
                        c = src.blocks[br]["cond"]
                        absent = src.blocks[br]["succ"][src.cond_polarity_edge(br, c["op"] == "==")]
                        if absent is None:
                            continue
                        reg = src.reach([absent]) - src.reach(
                            [x for x in src.blocks[br]["succ"] if x is not None and x != absent])
                        for b in [absent] + sorted(reg):
                            for e in src.blocks[b]["ev"]:
                                if e["e"] == "write" and path_leaf(e.get("path")) == C + rec + "::" + fld:
                                    rd = rd or e.get("rhs", "").replace("celeritas::", "")
                                if e["e"] == "return" and src is not rv:
                                    rd = rd or e.get("t", "").replace("celeritas::", "")
            norm = lambda t: re.sub(r"\s|BoundingBox<>::|BBox::", "", t or "")
            ok = rd is not None and norm(wc) == norm(rd)
            cx.ob("C19.3-default-mirrors-omission", "%s.%s: writer omits when == %s, reader defaults "
                  "to %s" % (rec, fld, wc, rd), ok, "key \"%s\"" % key, short(ev["loc"]),
                  why="if the default differs from the omission value, every object with the common "
                      "value comes back changed")
    cx.floor("`field != default` omissions", n3, 3)

    # --- R3c: a key may be omitted only on a whole-field condition (added after seeded change c19)
    n3c = 0
    for rec in pairs:
        if rec not in tos:
            continue
        fv = tos[rec][0]
        pname = fv.r["params"][1]["n"]
        for (key, how, cond, pos, ev) in key_events(fv):
            if how not in ("index", "pair") or not cond:
                continue
            for br, blk in fv.blocks.items():
                c = blk.get("cond")
                if not c or len(blk["succ"]) != 2 or None in blk["succ"]:
                    continue
                if blk.get("tk") in ("CXXForRangeStmt", "ForStmt", "WhileStmt", "DoStmt"):
                    continue
                edge = None
                for e_ in (0, 1):
                    if fv.guarded_by_edge(pos, br, e_):
                        edge = e_
                if edge is None:
                    continue
                rfields = [x.split("::")[-1] for x in c.get("refs", []) if x.startswith("F:" + C + rec + "::")]
                if not rfields:
                    continue        # not a condition on the record (e.g. an iterator test)
                n3c += 1
                core = (c.get("core") or c.get("t") or "").replace(" ", "")
                whole = None
                for fl_ in set(rfields):
                    operand = "%s.%s" % (pname, fl_)
                    if c.get("op") == "!=" and c.get("l", "").replace(" ", "") == operand:
                        whole = "%s != %s" % (operand, c.get("r"))
                    elif not c.get("op") and core in (operand, operand + ".empty()", "!" + operand + ".empty()"):
                        whole = core
                    elif not c.get("op") and core == operand + ".operatorbool()":
                        whole = core
                cx.ob("C19.3-omission-guard", "%s: key \"%s\" is omitted only on a condition over the "
                      "whole field" % (rec, key), whole is not None,
                      "guard `%s`" % c.get("t"), short(ev["loc"]),
                      why="the reader can only restore one default for an absent key: if the writer "
                          "decides on a part of the field (one member, a weaker comparison), every "
                          "object that agrees with the default in that part but differs elsewhere is "
                          "omitted and read back as the default")
    cx.floor("conditional key writes guarded by a record field", n3c, 8)

    # --- R3d: no value of a previous loop iteration leaks into what is written (seeded change c19b)
    from cfg import stale_across_iterations
    nloops = 0
    for rec in sorted(tos):
        for fv in tos[rec]:
            from cfg import loops_of
            nloops += len(loops_of(fv))
            leaks = stale_across_iterations(fv)
            cx.ob("C19.3-per-element-values", "to_json(%s): every per-element value written inside a loop "
                  "is defined in the same iteration" % rec, not leaks,
                  "; ".join("`%s` used at %s may hold the value assigned at %s in an earlier iteration"
                            % (v, short(u["loc"]), short(d["loc"])) for v, u, d in leaks[:3]),
                  short(fv.loc),
                  why="an element that does not assign the variable is written with its predecessor's "
                      "value: the file is well-formed but describes another geometry")
    cx.floor("loops in the geometry writers", nloops, 3)

    # --- R1b: paired export_*/import_* helpers (zipped surfaces ...) agree on their keys
    nh = 0
    for n_exp in db.find(r"^celeritas::detail::export_[a-z_]+$"):
        suffix = n_exp.split("export_")[-1]
        n_imp = n_exp.replace("export_", "import_")
        if not db.get(n_imp):
            continue
        fe, fi = db.get(n_exp)[0], db.get(n_imp)[0]
        wk = set(k for (k, how, _c, _p, _e) in key_events(fe) if how in ("index", "pair"))
        rkk = set(k for (k, how, _c, _p, _e) in key_events(fi))
        if not wk and not rkk:
            continue
        nh += 1
        cx.ob("C19.1-keys", "helper pair export_%s/import_%s agree on keys" % (suffix, suffix),
              wk == rkk and bool(wk), "written %s, read %s" % (sorted(wk), sorted(rkk)), short(fe.loc),
              why="the zipped surface arrays are matched by key name")
    cx.floor("export/import helper pairs with keys", nh, 1)
    # label <-> string uses one separator on both sides
    pr = [f for f in db.get(C + "operator<<") if f.r["params"] and len(f.r["params"]) == 2
          and "celeritas::Label" in f.r["params"][1]["cty"]]
    fj = [f for f in db.get(C + "from_json") if f.r["params"] and "celeritas::Label" in f.r["params"][1]["cty"]]
    if pr and fj:
        uses = any("g:" + C + "Label::default_sep" in str(e) or "default_sep" in e.get("t", "")
                   for (_b, _i, e0) in pr[0].events("call") for e in e0.get("args", []))
        one_arg = any(e["callee"] == C + "Label::from_separator" and len(e.get("args", [])) == 1
                      for (_b, _i, e) in fj[0].events("call"))
        cx.ob("C19.4-tables", "Label printer and parser use the same (default) separator",
              uses and one_arg, "operator<< streams Label::default_sep: %s; from_json calls "
              "from_separator(str) with the default: %s" % (uses, one_arg), short(pr[0].loc),
              why="a label written with one separator and split at another loses its extension")

    # --- R4 tables: ZOrder char <-> enum
    en = db.enums.get(C + "ZOrder")
    cx.require(en, "enum ZOrder not found")
    to_c = {}
    to_z = {}
    for f in db.get(C + "to_char"):
        if not f.r["params"] or "ZOrder" not in f.r["params"][0]["cty"]:
            continue
        for bid, blk in f.blocks.items():
            lab = blk.get("label", "")
            if lab.startswith("case:"):
                for e in blk["ev"]:
                    if e["e"] == "return":
                        to_c[lab[5:].split("::")[-1]] = e.get("t")
    for f in db.get(C + "to_zorder"):
        for bid, blk in f.blocks.items():
            lab = blk.get("label", "")
            if lab.startswith("case:"):
                for e in blk["ev"]:
                    if e["e"] == "return" and e.get("enum"):
                        to_z[lab[5:]] = e["enum"].split("::")[-1]
    cx.floor("to_char(ZOrder) cases", len(to_c), 5)
    for e in en["enumerators"]:
        nme = e["n"]
        if nme in ("size_",):
            continue
        c = to_c.get(nme)
        ok = c is not None and to_z.get(c) == nme
        cx.ob("C19.4-tables", "to_zorder(to_char(ZOrder::%s)) == %s" % (nme, nme), ok,
              "to_char -> %s -> %s" % (c, to_z.get(c)), "src/orange/OrangeTypes.cc",
              why="a z-order that is written as one letter and parsed as another changes which "
                  "volume wins an overlap")
    # logic token printer/parser
    parse = {}
    for f in db.get(C + "detail::string_to_logic"):
        for bid, blk in f.blocks.items():
            lab = blk.get("label", "")
            if lab.startswith("case:"):
                for e in blk["ev"]:
                    if e["e"] == "call" and e["callee"].endswith("push_back") and e.get("args"):
                        en_ = e["args"][0].get("enum") or ""
                        m = re.search(r"logic::(\w+)", e["args"][0].get("t", ""))
                        tok = en_.split("::")[-1] if en_ else (m.group(1) if m else None)
                        if tok:
                            parse[lab[5:]] = tok
    cx.floor("string_to_logic token cases", len(parse), 4)
    src = ['#include "corecel/Macros.hh"', '#include "corecel/Types.hh"', '#include "orange/OrangeTypes.hh"',
           "using namespace celeritas;"]
    for ch, tok in sorted(parse.items()):
        src.append("static_assert(logic::to_char(logic::%s) == %s, \"W:tok-%s\");" % (tok, ch, tok))
    # every postfix token has a parser case
    for tok in ("ltrue", "lor", "land", "lnot"):
        cx.ob("C19.4-tables", "logic token %s has a parser case" % tok, tok in parse.values(),
              str(parse), "src/orange/detail/OrangeInputIOImpl.json.cc",
              why="a token the printer emits but the parser rejects makes written logic unreadable")
    # transform lengths
    arms = {}
    for f in db.get(C + "detail::import_transform"):
        for br in f.branch_blocks(lambda c, _b: c.get("op") == "==" and c.get("rlit") is not None
                                  and any(x.endswith("::size") for x in c.get("lcalls", []))):
            c = f.blocks[br]["cond"]
            te = f.cond_polarity_edge(br, True)
            tgt, other = f.blocks[br]["succ"][te], f.blocks[br]["succ"][1 - te]
            if tgt is None:
                continue
            # the arm: what is reachable on the true edge only
            region = f.reach([tgt]) - (f.reach([other]) if other is not None else set())
            for blk in sorted(region):
                for e in f.blocks[blk]["ev"]:
                    if e["e"] == "return":
                        for cal in e.get("calls", []):
                            m = re.match(r"celeritas::(NoTransformation|Translation|Transformation|SignedPermutation)::\1$", cal)
                            if m:
                                arms[m.group(1)] = int(c["rlit"])
    cx.floor("import_transform arms", len(arms), 3)
    for t, nlen in sorted(arms.items()):
        src.append("static_assert(%s::StorageSpan::extent == %d, \"W:extent-%s\");" % (t, nlen, t))
    src.insert(3, '#include "orange/transform/VariantTransform.hh"')
    src.append("static_assert(std::variant_size_v<VariantTransform> == %d, \"W:variant-arms\");" % len(arms))
    failed, other = witness.compile_witness("\n".join(src) + "\n", "src/orange/OrangeTypes.cc")
    if other:
        raise AnalysisBroken("C19 witness does not compile: %s" % other[:3])
    for ch, tok in sorted(parse.items()):
        cx.ob("C19.4-tables", "printer char of logic::%s equals the parser's %s" % (tok, ch),
              ("tok-" + tok) not in failed, "static_assert(to_char(%s) == %s)" % (tok, ch),
              "src/orange/OrangeTypes.hh",
              why="printer and parser must be mutual inverses on the postfix tokens")
    for t, nlen in sorted(arms.items()):
        cx.ob("C19.5-variants", "import_transform: length %d <-> %s::StorageSpan::extent" % (nlen, t),
              ("extent-" + t) not in failed, "", "src/orange/detail/OrangeInputIOImpl.json.cc",
              why="transforms are discriminated only by array length")
    cx.ob("C19.5-variants", "every alternative of VariantTransform has a reader arm",
          "variant-arms" not in failed, "%d arms" % len(arms),
          "src/orange/detail/OrangeInputIOImpl.json.cc",
          why="an alternative without an arm can be written but not read")
    transform_layout(db, cx, arms, set(t for t in arms if ("extent-" + t) in failed))

    # universe type tags
    written_tags = set()
    for rec in ("UnitInput", "RectArrayInput"):
        for f in tos.get(rec, []):
            evs = [(b, i, ev) for (b, i, ev) in f.events("str")]
            for k, (b, i, ev) in enumerate(evs):
                if ev["s"] == "_type" and k + 1 < len(evs):
                    written_tags.add((rec, evs[k + 1][2]["s"]))
    accepted = set()
    for f in froms.get("OrangeInput", []):
        for (_b, _i, ev) in f.events("str"):
            if ev.get("ctx", "").startswith("std::operator=="):
                accepted.add(ev["s"])
    cx.floor("universe type tags written", len(written_tags), 2)
    for rec, tag in sorted(written_tags):
        cx.ob("C19.5-variants", "universe tag \"%s\" written for %s is accepted by the reader" % (tag, rec),
              tag in accepted, "accepted: %s" % sorted(accepted), "src/orange/OrangeInputIO.json.cc",
              why="an unknown tag aborts reading the whole geometry")


def transform_layout(db, cx, arms, wrong_length=()):
    """C19.5-transform-layout (A6, lib/polyinterp.py): the writer emits T::data(), the contiguous
    storage of T's members in declaration order; the reader arm of import_transform for that
    length rebuilds T from the array.  With the array elements as symbols d0..dN-1, the arm is
    interpreted (whatever constructor it uses, member initialisers included) and the storage of
    the object it returns, flattened the way data() reads it, must be d0..dN-1 again."""
    from polyinterp import Poly, Interp, Return, as_poly
    from astutil import walk, strip
    rule = "C19.5-transform-layout"
    src = "src/orange/detail/OrangeInputIOImpl.json.cc"
    # writer: every visitor instance pushes the elements of data() in order
    lam = [f for nm in db.find(r"^celeritas::detail::export_transform::\(lambda") for f in db.get(nm)]
    cx.floor("export_transform visitor instances", len(lam), 3)
    for f in lam:
        t = f.inst.split("<")[-1].replace("const ", "").replace("&", "").replace(">", "").strip().split("::")[-1]
        dcalls = [ev for (_b, _i, ev) in f.events("call") if re.match(r"celeritas::\w+::data$", ev["callee"])]
        pushes = [ev for (_b, _i, ev) in f.events("call") if ev["callee"].endswith("basic_json::push_back")]
        loopvar = None
        for (_b, _i, ev) in f.events("def"):
            if "__range" in ev.get("var", "") and any(c.endswith("::data") for c in ev.get("calls", [])):
                loopvar = ev["var"]
        elems = set(ev["var"] for (_b, _i, ev) in f.events("def") if ev.get("rhs", "").startswith("*__begin"))
        ok = len(dcalls) == 1 and len(pushes) == 1 and loopvar is not None and \
            all(len(p.get("args", [])) == 1 and p["args"][0].get("refs")
                and set(p["args"][0]["refs"]) <= elems
                and not any(ch in p["args"][0].get("t", "") for ch in "+-*/") for p in pushes)
        cx.ob(rule, "export_transform<%s> writes exactly the elements of data(), in order" % t, ok,
              "data() calls=%d push_back=%s" % (len(dcalls), [p["args"][0].get("t") for p in pushes]),
              short(f.loc), why="the reader rebuilds the transform from this array alone")

    def syms(n):
        return [Poly.sym("d%d" % k) for k in range(n)]

    def flatten(v):
        out = []
        if isinstance(v, list):
            for x in v:
                out.extend(flatten(x))
        else:
            out.append(v)
        return out

    def ctor_members(tname, args):
        """members (declaration order) after T::T(args), from the written member initialisers"""
        cands = [f for f in db.get(C + "%s::%s" % (tname, tname)) if f.r.get("inits") is not None
                 and len(f.r["params"]) == len(args)]
        if len(args) == 1:
            want_span = isinstance(args[0], list) and not any(isinstance(x, list) for x in args[0]) \
                and len(args[0]) > 3
            c2 = [f for f in cands if ("Span<" in f.r["params"][0]["cty"]) == want_span]
            if tname == "Translation":
                # Translation(Real3 const&) and Translation(StorageSpan) both take 3 numbers
                c2 = [f for f in cands if "Span<" in f.r["params"][0]["cty"]] or cands
            cands = c2
        if not cands:
            raise OutOfVocabulary("no %s constructor with written initialisers for %d argument(s)"
                                  % (tname, len(args)))
        f = cands[0]
        it = Interp(f, {})
        for p, a in zip(f.r["params"], args):
            it.env[p["n"]] = a
        out = []
        for ini in f.r["inits"]:
            v = it.ev(ini["init"])
            if isinstance(v, tuple) and v[0] == "construct" and len(v[2]) == 1:
                v = v[2][0]
            out.append((ini["member"], v))
        return out, f

    from astutil import OutOfVocabulary
    fs = db.get(C + "detail::import_transform")
    cx.require(fs and fs[0].r.get("ast"), "import_transform AST not extracted")
    f = fs[0]
    # the if / else-if chain on data.size()
    chain = {}
    for n in walk(f.r["ast"]):
        if n.get("k") != "IfStmt":
            continue
        kids = [c for c in n["c"] if c is not None]
        cond = strip(kids[0])
        if cond.get("k") == "BinaryOperator" and cond.get("op") == "==":
            lit = [c for c in walk(cond["c"][1]) if "cval" in c or c.get("k") == "IntegerLiteral"]
            if lit and any(c.get("callee", "").endswith("::size") for c in walk(cond["c"][0])):
                chain[int(lit[0].get("cval", lit[0].get("val")))] = kids[1]
    done = 0
    for t, nlen in sorted(arms.items()):
        if nlen == 0:
            continue
        if t in wrong_length:
            done += 1     # reported by C19.5-variants: the arm's length is not the storage extent
            continue
        cx.require(nlen in chain, "import_transform: arm for length %d not found in the AST" % nlen)
        it = Interp(f, {C + "make_span": lambda a: a[0]})
        it.env["data"] = syms(nlen)
        try:
            try:
                it.run(chain[nlen])
                val = None
            except Return as r:
                val = r.v
            while isinstance(val, tuple) and val[0] == "construct" and val[1].endswith("variant::variant"):
                val = val[2][0]
            cx.require(isinstance(val, tuple) and val[0] == "construct"
                       and val[1] == C + "%s::%s" % (t, t),
                       "import_transform arm %d does not return a %s: %r" % (nlen, t, val))
            args = []
            for a in val[2]:
                while isinstance(a, tuple) and a[0] == "construct" and a[1].endswith("Span::Span") \
                        and len(a[2]) == 1:
                    a = a[2][0]
                args.append(a)
            members, ctor = ctor_members(t, args)
        except OutOfVocabulary as e:
            raise AnalysisBroken("C19.5-transform-layout: %s arm of import_transform is outside the "
                                 "interpreter's vocabulary: %s" % (t, e))
        flat = flatten([v for (_m, v) in members])
        want = syms(nlen)
        ok = len(flat) == nlen and all(as_poly(a) == b for a, b in zip(flat, want))
        bad = ["storage[%d] <- %r" % (k, a) for k, (a, b) in enumerate(zip(flat, want)) if not (as_poly(a) == b)]
        done += 1
        cx.ob(rule, "import_transform: the %d-number arm stores element k of the array at storage "
              "position k of the %s (inverse of data())" % (nlen, t), ok,
              "; ".join(bad[:4]) or "members %s via %s%s" % ([m for (m, _v) in members], t, ctor.r["sig"]),
              src, why="written with data() and read back with a different element order, the "
                       "transform changes (e.g. a transposed rotation)")
    cx.floor("transform arms interpreted", done, 2)
    # data() is the contiguous storage from the first member on, of the declared extent
    wsrc = ['#include "orange/transform/VariantTransform.hh"', "using namespace celeritas;"]
    for t, nlen in sorted(arms.items()):
        if nlen:
            wsrc.append("static_assert(sizeof(%s) == %d * sizeof(real_type), \"W:size-%s\");" % (t, nlen, t))
    failed, other = witness.compile_witness("\n".join(wsrc) + "\n", "src/orange/OrangeTypes.cc")
    if other:
        raise AnalysisBroken("C19 layout witness does not compile: %s" % other[:3])
    for t, nlen in sorted(arms.items()):
        if not nlen:
            continue
        cx.ob(rule, "%s is exactly %d reals of storage (no padding, no other member)" % (t, nlen),
              ("size-" + t) not in failed, "static_assert(sizeof(%s) == %d*sizeof(real_type))" % (t, nlen),
              "src/orange/transform/%s.hh" % t,
              why="data() hands out N consecutive reals starting at the first member")
        for g in db.get(C + "%s::data" % t):
            first = None
            for n in walk(g.r.get("ast") or {}):
                if n.get("k") == "MemberExpr" and first is None:
                    first = n.get("name")
            lits = [int(n.get("cval", n.get("val"))) for n in walk(g.r.get("ast") or {})
                    if n.get("k") == "IntegerLiteral" or "cval" in n]
            ctors = [c for c in db.get(C + "%s::%s" % (t, t)) if c.r.get("inits")]
            m0 = ctors[0].r["inits"][0]["member"] if ctors else None
            ok = first is not None and first == m0 and max(lits or [0]) == nlen and \
                all(v in (0, nlen) for v in lits)
            cx.ob(rule, "%s::data() is {&first member's first element, %d}" % (t, nlen), ok,
                  "member %s, literals %s" % (first, sorted(set(lits))), short(g.loc),
                  why="the written array is the storage in declaration order")
