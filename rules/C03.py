"""C03 - navigator typestate clauses (the geometric content is not decided)."""
from common import (C, short, field_writers, check_owners, local_refs, accessor_summary,
                    trans_writes, resolve_leaf)
from cfg import path_leaf
import effects

EXPLANATION = (
    "Typestate of OrangeTrackView decided on the CFG: every method that moves a level position "
    "re-establishes the on-surface state and invalidates or updates the cached next step on every "
    "path; cross_boundary flips the sense and resets the boundary flag on every path and falls "
    "back to the exterior volume with the failure flag on every failing edge; direction changes "
    "are written for all levels and invalidate the cached next step; find_next_step stores what "
    "it returns; the volume flags the tracker branches on are produced by the builder and read "
    "through VolumeView.")
NOT_DECIDED = ("that no boundary is skipped/invented, distances within tolerance, finite crossings "
               "(geometric, numeric)")

TECHNIQUE = ("typestate rules on the navigator's CFG: must-pass after every position/direction write, guard dominance on failure edges, cache write/return agreement; enum/flag writer-reader agreement")

UNITS = [
    "src/celeritas/geo/detail/BoundaryAction.cc",
    "src/celeritas/track/InitializeTracksAction.cc",
    "src/celeritas/track/ExtendFromSecondariesAction.cc",
    "src/celeritas/global/alongstep/AlongStepUniformMscAction.cc",
    "src/celeritas/global/alongstep/AlongStepGeneralLinearAction.cc",
    "src/orange/OrangeParams.cc",
    "src/orange/detail/UnitInserter.cc",
    "src/orange/orangeinp/UnitProto.cc",
]

OTV = C + "OrangeTrackView::"
D = C + "detail::"
O = C + "OrangeStateData::"


def call_pred(name, nargs=None):
    def p(ev):
        return ev["e"] == "call" and ev["callee"] == name and \
            (nargs is None or len(ev.get("args", [])) == nargs)
    return p


def run(db, cx):
    acc = accessor_summary(db)
    follow_geo = lambda n: n.startswith(OTV) or n.startswith(D + "LevelStateAccessor::")

    meths = [f for n in db.find(r"^celeritas::OrangeTrackView::[A-Za-z_=]+$") for f in db.get(n)]
    cx.floor("OrangeTrackView methods analysed", len(meths), 30)

    # ------------------------------------------------------------ 1. moving methods
    movers = []
    for f in meths:
        own = trans_writes(db, f, acc, 0)
        if O + "pos" in own:
            movers.append(f)
    cx.floor("methods that write a level position", len(movers), 5)
    known = {"move_internal", "move_to_boundary", "operator=", "cross_boundary"}
    for f in movers:
        short_name = f.name.split("::")[-1]
        tag = "%s%s" % (short_name, f.sig)
        if short_name not in known:
            cx.ob("C03.1-move-typestate", "new moving method %s is audited" % tag, False,
                  "a method writing OrangeStateData::pos that the rule table does not know",
                  short(f.loc), why="every position-moving method must re-establish the surface "
                  "state; add it to the table after reading it")
            continue
        if short_name == "cross_boundary":
            continue   # rule 2
        # last position write -> must pass a surface-state (re)definition
        pos_writes = [(b, i) for (b, i, ev) in f.events()
                      if (ev["e"] == "write" and resolve_leaf(path_leaf(ev.get("path")) or "", acc) == O + "pos")
                      or (ev["e"] == "call" and any(a.get("mode") in ("ptr", "ref") and a.get("path")
                                                    and resolve_leaf(path_leaf(a["path"]) or "", acc) == O + "pos"
                                                    for a in ev.get("args", [])))]
        is_detailed = "DetailedInitializer" in f.sig
        for what, pred, why in (
                ("re-establishes the on-surface state",
                 lambda e: call_pred(OTV + "clear_surface")(e) or call_pred(OTV + "surface", 2)(e)
                 or (is_detailed and False),
                 "a track still flagged 'on surface S' after moving off S evaluates senses with "
                 "the cached sense: boundaries are skipped or invented"),
                ("invalidates or updates the cached next step",
                 lambda e: call_pred(OTV + "clear_next")(e) or call_pred(OTV + "next_step", 1)(e),
                 "a stale next-step distance lets the next move overshoot the boundary")):
            ok_all = True
            path_bad = None
            if is_detailed and "surface state" in what:
                # self-assignment edge has nothing to copy: require the copy on the other edge
                brs = f.branch_blocks(lambda c, _b: c.get("op") == "!=" and "this" in c.get("lrefs", [])
                                      + c.get("rrefs", []) + c.get("refs", []))
                cx.require(brs, "DetailedInitializer: self-assignment test not found")
                tgt = f.blocks[brs[0]]["succ"][f.cond_polarity_edge(brs[0], True)]
                for need in (call_pred(OTV + "level", 1), call_pred(OTV + "surface", 2),
                             call_pred(OTV + "boundary", 1)):
                    okp, p_ = f.must_pass(need, start=(tgt, -1))
                    ok_all = ok_all and okp
                    path_bad = path_bad or p_
            else:
                for pw in pos_writes or [None]:
                    okp, p_ = f.must_pass(pred, start=pw)
                    ok_all = ok_all and okp
                    path_bad = path_bad or p_
            cx.ob("C03.1-move-typestate", "%s %s" % (tag, what), ok_all,
                  "%d position write(s); must-pass to every return" % len(pos_writes), short(f.loc),
                  path=f.path_locs(path_bad), why=why)
        if short_name == "operator=" and not is_detailed:
            okp, p_ = f.must_pass(lambda e: call_pred(OTV + "boundary", 1)(e)
                                  and e["args"][0].get("enum", "").endswith("BoundaryResult::exiting"))
            cx.ob("C03.1-move-typestate", "%s resets the boundary flag to exiting" % tag, okp, "",
                  short(f.loc), path=f.path_locs(p_),
                  why="a stale 'reentrant' flag makes the first step of a new track a no-op crossing")
        if short_name in ("move_internal", "move_to_boundary") and "double" in f.sig or short_name == "move_to_boundary":
            # all levels are moved: position write inside a loop over range(level()+1)
            in_loop = any(b in f.reach([s for s in f.succ(b)]) for (b, _i) in pos_writes)
            cx.ob("C03.1-move-typestate", "%s moves the position at every level" % tag, in_loop,
                  "position update lies inside the per-level loop", short(f.loc),
                  why="a level that is not moved places the track at different points in parent "
                      "and daughter universes")

    # ------------------------------------------------------------- 2. cross_boundary
    for f in db.get(OTV + "cross_boundary"):
        okp, p_ = f.must_pass(lambda e: call_pred(OTV + "boundary", 1)(e)
                              and e["args"][0].get("enum", "").endswith("BoundaryResult::exiting"))
        cx.ob("C03.2-cross-boundary", "boundary(exiting) on every path", okp, "", short(f.loc),
              path=f.path_locs(p_),
              why="leaving the reentrant flag set makes the following crossing a no-op: the "
                  "reported volume stays behind the real position")
        # sense flipped on the non-reentrant path
        brs = f.branch_blocks(lambda c, _b: c.get("renum", "").endswith("BoundaryResult::reentrant")
                              and c.get("op") == "==")
        cx.require(brs, "cross_boundary: reentrant test not found")
        tgt = f.blocks[brs[0]]["succ"][f.cond_polarity_edge(brs[0], False)]
        okp, p_ = f.must_pass(
            lambda e: e["e"] == "write" and resolve_leaf(path_leaf(e.get("path")) or "", acc) == O + "sense"
            and C + "flip_sense" in e.get("calls", []) and OTV + "sense" in e.get("calls", []),
            start=(tgt, -1))
        cx.ob("C03.2-cross-boundary", "sense := flip_sense(sense()) on the crossing path", okp, "",
              short(f.loc), path=f.path_locs(p_),
              why="without the flip the track re-enters the volume it just left")
        # failure edges
        vol_vars = set()
        for (_b, _i, e) in f.events("write"):
            if resolve_leaf(path_leaf(e.get("path")) or "", acc) == O + "vol":
                vol_vars |= local_refs(e.get("refs", []))
        fb = f.branch_blocks(lambda c, _b: c.get("neg") == 1 and len(local_refs(c.get("refs", []))) == 1
                             and local_refs(c.get("refs", [])) <= vol_vars)
        cx.floor("cross_boundary failure tests", len(fb), 2)
        for br in fb:
            tgt = f.blocks[br]["succ"][f.cond_polarity_edge(br, False)]
            ok1, _p1 = f.must_pass(lambda e: e["e"] == "write" and path_leaf(e.get("path")) == OTV[:-2] + "::failed_"
                                   and e.get("rhs") == "true", start=(tgt, -1))
            # before any use of `volume` it is redefined as the exterior volume
            ok2, _p2 = f.must_pass(
                lambda e: e["e"] == "def" and e.get("var") in vol_vars
                and "orange_exterior_volume" in e.get("rhs", ""), start=(tgt, -1),
                unless=None)
            cx.ob("C03.2-cross-boundary", "failed crossing @%s sets failed_ and the exterior volume"
                  % short(f.blocks[br].get("tloc", "")).split(":")[-1], ok1 and ok2,
                  "failed_: %s, volume := exterior: %s" % (ok1, ok2), short(f.blocks[br].get("tloc", f.loc)),
                  why="a failed crossing must not leave a stale or null volume id in the state")
        okp, p_ = f.must_pass(call_pred(OTV + "level", 1), start=(tgt, -1))
        cx.ob("C03.2-cross-boundary", "the new deepest level is stored", okp, "", short(f.loc),
              path=f.path_locs(p_))
    cx.require(db.get(OTV + "cross_boundary"), "anchor cross_boundary not found")

    # ---------------------------------------------------- 3. direction at all levels
    dir_writers = [f for f in meths if O + "dir" in trans_writes(db, f, acc, 0)
                   and f.name.split("::")[-1] in ("set_dir", "operator=")
                   and ("DetailedInitializer" in f.sig or f.name.endswith("set_dir"))]
    cx.floor("direction-changing methods", len(dir_writers), 2)
    for f in dir_writers:
        tag = f.name.split("::")[-1] + ("(Detailed)" if "Detailed" in f.sig else "")
        dw = [(b, i, ev) for (b, i, ev) in f.events("write")
              if resolve_leaf(path_leaf(ev.get("path")) or "", acc) == O + "dir"]
        loop_w = [(b, i) for (b, i, ev) in dw if b in f.reach(f.succ(b))]
        # the deepest level: written through make_lsa() with no argument, on every path
        def deepest(e):
            if e["e"] != "write" or resolve_leaf(path_leaf(e.get("path")) or "", acc) != O + "dir":
                return False
            ch = e.get("path", {}).get("chain", [])
            return "m:" + OTV + "make_lsa" in ch and e.get("lhs", "").replace("this->", "").startswith("make_lsa()")
        okp, p_ = f.must_pass(deepest)
        cx.ob("C03.3-direction", "%s writes the direction in the per-level loop and at the deepest "
              "level" % tag, bool(loop_w) and okp, "%d writes, %d in the loop, deepest on every path: %s"
              % (len(dw), len(loop_w), okp), short(f.loc), path=f.path_locs(p_),
              why="a level whose direction was not updated computes distances along the old "
                  "direction in that universe")
        okp, p_ = f.must_pass(call_pred(OTV + "clear_next"))
        cx.ob("C03.3-direction", "%s invalidates the cached next step" % tag, okp, "", short(f.loc),
              path=f.path_locs(p_), why="the cached distance belongs to the old direction")

    # -------------------------------------------- 4. find_next_step stores its result
    for f in db.get(OTV + "find_next_step_impl"):
        isect = f.r["params"][0]["n"]
        for callee, fld in ((OTV + "next_step", "distance"), (OTV + "next_surf", "surface")):
            def pr(e, c=callee, fl=fld):
                return call_pred(c, 1)(e) and "F:" + D + "Intersection::" + fl in e["args"][0].get("refs", []) \
                    and isect in e["args"][0].get("refs", [])
            okp, p_ = f.must_pass(pr)
            cx.ob("C03.4-next-step-cache", "find_next_step_impl stores isect.%s" % fld, okp, "",
                  short(f.loc), path=f.path_locs(p_),
                  why="move_to_boundary trusts the cache: it must hold what was returned")
        rd = [ev for (_b, _i, ev) in f.events("write")
              if path_leaf(ev.get("path")) == C + "Propagation::distance"]
        ok = len(rd) == 1 and "F:" + D + "Intersection::distance" in rd[0].get("refs", []) \
            and isect in rd[0].get("refs", [])
        cx.ob("C03.4-next-step-cache", "returned distance is the cached distance", ok,
              rd[0].get("rhs") if rd else "-", short(f.loc))
        # surface level stored whenever there is an intersection
        lv = [(b, i) for (b, i, ev) in f.calls(OTV + "next_surface_level") if len(ev.get("args", [])) == 1]
        g = False
        for (b, i) in lv:
            for br in f.branch_blocks(lambda c, _b: local_refs(c.get("refs", [])) == {isect}):
                if f.guarded_by_edge((b, i), br, f.cond_polarity_edge(br, True)):
                    # and on that edge it is must-pass
                    tgt = f.blocks[br]["succ"][f.cond_polarity_edge(br, True)]
                    g = f.must_pass(call_pred(OTV + "next_surface_level", 1), start=(tgt, -1))[0]
        cx.ob("C03.4-next-step-cache", "the level of the next surface is stored when a surface was found",
              g, "", short(f.loc))
    cx.require(db.get(OTV + "find_next_step_impl"), "anchor find_next_step_impl not found")
    # who may consume / overwrite the cache
    for nm, owners in ((OTV + "next_step", {OTV + "find_next_step_impl", OTV + "move_internal",
                                            OTV + "clear_next"}),
                       (OTV + "next_surf", {OTV + "find_next_step_impl"}),
                       (OTV + "clear_next", {OTV + "operator=", OTV + "move_to_boundary", OTV + "move_internal",
                                             OTV + "set_dir"})):
        nargs = 0 if nm.endswith("clear_next") else 1
        w = [(f, ev, "call") for f, ev in db.callers_of(nm) if len(ev.get("args", [])) == nargs]
        check_owners(cx, "C03.4-next-step-cache", nm.split("::")[-1] + " setter", w, owners,
                     "only the navigator's own methods may touch the next-step cache")

    # ----------------------------------------------------- 5. volume flag agreement
    en = db.enums.get(C + "VolumeRecord::Flags")
    cx.require(en, "enum VolumeRecord::Flags not found")
    flags = [e["n"] for e in en["enumerators"]]
    readers = {}
    producers = {}
    for f in db.all_funcs():
        for x in flags:
            key = "E:" + C + "VolumeRecord::" + x
            key2 = "E:" + C + "VolumeRecord::Flags::" + x
            if f.name.startswith(C + "VolumeView::"):
                for (_b, _i, ev) in f.events("return"):
                    if key in ev.get("refs", []) or key2 in ev.get("refs", []):
                        readers.setdefault(x, set()).add(f.name)
            for (_b, _i, ev) in f.events("write"):
                if path_leaf(ev.get("path", {})) and path_leaf(ev["path"]).endswith("::flags") \
                        and (key in ev.get("refs", []) or key2 in ev.get("refs", [])):
                    producers.setdefault(x, set()).add(f.name)
    cx.floor("volume flags read by the tracker", len(readers), 3)
    for x in flags:
        if not readers.get(x):
            continue    # set but never branched on (embedded_universe today): no obligation
        cx.ob("C03.5-volume-flags", "flag %s (read through VolumeView) is produced by the builder" % x,
              bool(producers.get(x)),
              "readers %s; producers %s" % (sorted(readers.get(x, [])), sorted(producers.get(x, []))),
              "src/orange/OrangeData.hh",
              why="a flag the tracker branches on but nobody sets (or vice versa) silently selects "
                  "the wrong intersection/safety algorithm")
