"""C03 - navigator typestate clauses (the geometric content is not decided)."""
from common import (C, short, field_writers, check_owners, local_refs, accessor_summary,
                    trans_writes, resolve_leaf)
from cfg import path_leaf
import effects

EXPLANATION = (
    "Typestate of OrangeTrackView decided on the CFG: every method that moves a level position "
    "re-establishes the on-surface state and invalidates or updates the cached next step on every "
    "path; cross_boundary flips the sense and resets the boundary flag on every path and falls "
    "back to the exterior volume with the failure flag on every failing edge; direction changes "
    "are written for all levels and invalidate the cached next step; find_next_step stores what "
    "it returns; the volume flags the tracker branches on are produced by the builder and read "
    "through VolumeView.")
NOT_DECIDED = ("that no boundary is skipped/invented, distances within tolerance, finite crossings "
               "(geometric, numeric)")

TECHNIQUE = ("typestate rules on the navigator's CFG: must-pass after every position/direction write, guard dominance on failure edges, cache write/read pairing; frame agreement: provenance of the values captured by tracker-visitor lambdas and of vectors carried through the per-level placement transforms; loop-range provenance of the per-level moves; dependence of the exiting sense on the running sense table")

UNITS = [
    "src/celeritas/geo/detail/BoundaryAction.cc",
    "src/celeritas/track/InitializeTracksAction.cc",
    "src/celeritas/track/ExtendFromSecondariesAction.cc",
    "src/celeritas/global/alongstep/AlongStepUniformMscAction.cc",
    "src/celeritas/global/alongstep/AlongStepGeneralLinearAction.cc",
    "src/orange/OrangeParams.cc",
    "src/orange/detail/UnitInserter.cc",
    "src/orange/orangeinp/UnitProto.cc",
    "src/orange/detail/DepthCalculator.cc",
]

OTV = C + "OrangeTrackView::"
D = C + "detail::"
O = C + "OrangeStateData::"


def call_pred(name, nargs=None):
    def p(ev):
        return ev["e"] == "call" and ev["callee"] == name and \
            (nargs is None or len(ev.get("args", [])) == nargs)
    return p



def complex_exit_sense(db, cx):
    """C03.8 (seeded change c03f): in SimpleUnitTracker::complex_intersect the sense reported with
    the exiting surface is the sense *just before that crossing* - taken from the loop's running
    sense table (which has already flipped the surfaces crossed earlier on the same ray, possibly
    the same surface) - and not the sense at the track's current position."""
    fs = db.get(C + "SimpleUnitTracker::complex_intersect")
    cx.require(fs, "anchor SimpleUnitTracker::complex_intersect not found")
    f = fs[0]
    ws = [(b, i, e) for (b, i, e) in f.events("write")
          if (e.get("path") or {}).get("chain", [None])[-1:] == ["f:" + C + "detail::Intersection::surface"]
          or (e.get("lhs") or "").endswith(".surface")]
    cx.require(ws, "complex_intersect no longer sets the surface of its result")
    SENSES = "F:" + C + "detail::SenseCalculator::result_type::senses"
    for (b, i, e) in ws:
        # collect, through local definitions, what the written value depends on
        seen, work = set(), list(local_refs(e.get("refs", [])))
        refs, calls = set(e.get("refs", [])), set(e.get("calls", []))
        while work:
            v = work.pop()
            if v in seen:
                continue
            seen.add(v)
            for (_b2, _i2, d) in f.reaching_defs(v, (b, i)):
                if d["e"] != "def":
                    continue
                refs |= set(d.get("refs", []))
                calls |= set(d.get("calls", []))
                work.extend(local_refs(d.get("refs", [])))
        from_table = SENSES in refs
        recomputed = any(c.endswith("CalcSense::CalcSense") or c.endswith("::current_sense") or
                         c.endswith("LocalSurfaceVisitor::operator()") for c in calls)
        cx.ob("C03.8-complex-exit-sense", "complex_intersect reports the running sense of the exiting face @%s"
              % short(e["loc"]).split(":", 1)[1], from_table and not recomputed,
              "depends on the loop's sense table: %s; recomputed at the current position: %s" % (from_table, recomputed),
              short(e["loc"]),
              why="when the exiting crossing is the second hit of a surface already crossed inside the "
                  "volume, the sense at the start position is the wrong side: cross_boundary finds no "
                  "neighbour and the track is lost")

def run(db, cx):
    complex_exit_sense(db, cx)
    acc = accessor_summary(db)
    follow_geo = lambda n: n.startswith(OTV) or n.startswith(D + "LevelStateAccessor::")

    meths = [f for n in db.find(r"^celeritas::OrangeTrackView::[A-Za-z_=]+$") for f in db.get(n)]
    cx.floor("OrangeTrackView methods analysed", len(meths), 30)

    # ------------------------------------------------------------ 1. moving methods
    movers = []
    for f in meths:
        own = trans_writes(db, f, acc, 0)
        if O + "pos" in own:
            movers.append(f)
    cx.floor("methods that write a level position", len(movers), 5)
    known = {"move_internal", "move_to_boundary", "operator=", "cross_boundary"}
    for f in movers:
        short_name = f.name.split("::")[-1]
        tag = "%s%s" % (short_name, f.sig)
        if short_name not in known:
            cx.ob("C03.1-move-typestate", "new moving method %s is audited" % tag, False,
                  "a method writing OrangeStateData::pos that the rule table does not know",
                  short(f.loc), why="every position-moving method must re-establish the surface "
                  "state; add it to the table after reading it")
            continue
        if short_name == "cross_boundary":
            continue   # rule 2
        # last position write -> must pass a surface-state (re)definition
        pos_writes = [(b, i) for (b, i, ev) in f.events()
                      if (ev["e"] == "write" and resolve_leaf(path_leaf(ev.get("path")) or "", acc) == O + "pos")
                      or (ev["e"] == "call" and any(a.get("mode") in ("ptr", "ref") and a.get("path")
                                                    and resolve_leaf(path_leaf(a["path"]) or "", acc) == O + "pos"
                                                    for a in ev.get("args", [])))]
        is_detailed = "DetailedInitializer" in f.sig
        for what, pred, why in (
                ("re-establishes the on-surface state",
                 lambda e: call_pred(OTV + "clear_surface")(e) or call_pred(OTV + "surface", 2)(e)
                 or (is_detailed and False),
                 "a track still flagged 'on surface S' after moving off S evaluates senses with "
                 "the cached sense: boundaries are skipped or invented"),
                ("invalidates or updates the cached next step",
                 lambda e: call_pred(OTV + "clear_next")(e) or call_pred(OTV + "next_step", 1)(e),
                 "a stale next-step distance lets the next move overshoot the boundary")):
            ok_all = True
            path_bad = None
            if is_detailed and "surface state" in what:
                # self-assignment edge has nothing to copy: require the copy on the other edge
                brs = f.branch_blocks(lambda c, _b: c.get("op") == "!=" and "this" in c.get("lrefs", [])
                                      + c.get("rrefs", []) + c.get("refs", []))
                cx.require(brs, "DetailedInitializer: self-assignment test not found")
                tgt = f.blocks[brs[0]]["succ"][f.cond_polarity_edge(brs[0], True)]
                for need in (call_pred(OTV + "level", 1), call_pred(OTV + "surface", 2),
                             call_pred(OTV + "boundary", 1)):
                    okp, p_ = f.must_pass(need, start=(tgt, -1))
                    ok_all = ok_all and okp
                    path_bad = path_bad or p_
            else:
                for pw in pos_writes or [None]:
                    okp, p_ = f.must_pass(pred, start=pw)
                    ok_all = ok_all and okp
                    path_bad = path_bad or p_
            cx.ob("C03.1-move-typestate", "%s %s" % (tag, what), ok_all,
                  "%d position write(s); must-pass to every return" % len(pos_writes), short(f.loc),
                  path=f.path_locs(path_bad), why=why)
        if short_name == "operator=" and not is_detailed:
            okp, p_ = f.must_pass(lambda e: call_pred(OTV + "boundary", 1)(e)
                                  and e["args"][0].get("enum", "").endswith("BoundaryResult::exiting"))
            cx.ob("C03.1-move-typestate", "%s resets the boundary flag to exiting" % tag, okp, "",
                  short(f.loc), path=f.path_locs(p_),
                  why="a stale 'reentrant' flag makes the first step of a new track a no-op crossing")
        if short_name in ("move_internal", "move_to_boundary") and "double" in f.sig or short_name == "move_to_boundary":
            # all levels are moved: position write inside a loop over range(level()+1)
            in_loop = any(b in f.reach([s for s in f.succ(b)]) for (b, _i) in pos_writes)
            cx.ob("C03.1-move-typestate", "%s moves the position at every level" % tag, in_loop,
                  "position update lies inside the per-level loop", short(f.loc),
                  why="a level that is not moved places the track at different points in parent "
                      "and daughter universes")
            # ... and that loop runs over range(level() + 1): every level down to the deepest
            # one (seeded change c03e stopped at the level of the surface being crossed)
            rngs = [e for (_b, _i, e) in f.events("def") if (e.get("var") or "").startswith("__range")
                    and C + "range" in e.get("calls", [])]
            defs = {}
            for (_b, _i, e) in f.events("def"):
                if e.get("var"):
                    defs.setdefault(e["var"], []).append(e)

            def all_calls(e, depth=0, seen=None):
                seen = seen if seen is not None else set()
                out = set(e.get("calls", []))
                if depth < 4:
                    for r in local_refs(e.get("refs", [])):
                        if r in seen:
                            continue
                        seen.add(r)
                        for d in defs.get(r, []):
                            out |= all_calls(d, depth + 1, seen)
                return out
            okr = bool(rngs)
            det = []
            for e in rngs:
                ac = all_calls(e)
                other = sorted(c.split("::")[-1] for c in ac if c.startswith(OTV) and
                               c.split("::")[-1] in ("next_surface_level", "surface_level", "next_level"))
                has_level = OTV + "level" in ac
                okr = okr and has_level and not other
                det.append("%s%s" % (e.get("rhs"), (" (bounded by %s)" % ", ".join(other)) if other else ""))
            cx.ob("C03.1-move-typestate", "%s moves every level down to the deepest one: range(level() + 1)" % tag,
                  okr, "; ".join(det), short(f.loc),
                  why="levels below the one that is moved keep a stale position; after a reflection "
                      "on a parent-level boundary (no crossing, so no re-initialisation) the daughter "
                      "trackers compute distances from the wrong point")

    # ------------------------------------------------------------- 2. cross_boundary
    for f in db.get(OTV + "cross_boundary"):
        okp, p_ = f.must_pass(lambda e: call_pred(OTV + "boundary", 1)(e)
                              and e["args"][0].get("enum", "").endswith("BoundaryResult::exiting"))
        cx.ob("C03.2-cross-boundary", "boundary(exiting) on every path", okp, "", short(f.loc),
              path=f.path_locs(p_),
              why="leaving the reentrant flag set makes the following crossing a no-op: the "
                  "reported volume stays behind the real position")
        # sense flipped on the non-reentrant path
        brs = f.branch_blocks(lambda c, _b: c.get("renum", "").endswith("BoundaryResult::reentrant")
                              and c.get("op") == "==")
        cx.require(brs, "cross_boundary: reentrant test not found")
        tgt = f.blocks[brs[0]]["succ"][f.cond_polarity_edge(brs[0], False)]
        okp, p_ = f.must_pass(
            lambda e: e["e"] == "write" and resolve_leaf(path_leaf(e.get("path")) or "", acc) == O + "sense"
            and C + "flip_sense" in e.get("calls", []) and OTV + "sense" in e.get("calls", []),
            start=(tgt, -1))
        cx.ob("C03.2-cross-boundary", "sense := flip_sense(sense()) on the crossing path", okp, "",
              short(f.loc), path=f.path_locs(p_),
              why="without the flip the track re-enters the volume it just left")
        # failure edges
        vol_vars = set()
        for (_b, _i, e) in f.events("write"):
            if resolve_leaf(path_leaf(e.get("path")) or "", acc) == O + "vol":
                vol_vars |= local_refs(e.get("refs", []))
        fb = f.branch_blocks(lambda c, _b: c.get("neg") == 1 and len(local_refs(c.get("refs", []))) == 1
                             and local_refs(c.get("refs", [])) <= vol_vars)
        cx.floor("cross_boundary failure tests", len(fb), 2)
        for br in fb:
            tgt = f.blocks[br]["succ"][f.cond_polarity_edge(br, False)]
            ok1, _p1 = f.must_pass(lambda e: e["e"] == "write" and path_leaf(e.get("path")) == OTV[:-2] + "::failed_"
                                   and e.get("rhs") == "true", start=(tgt, -1))
            # before any use of `volume` it is redefined as the exterior volume
            ok2, _p2 = f.must_pass(
                lambda e: e["e"] == "def" and e.get("var") in vol_vars
                and "orange_exterior_volume" in e.get("rhs", ""), start=(tgt, -1),
                unless=None)
            cx.ob("C03.2-cross-boundary", "failed crossing @%s sets failed_ and the exterior volume"
                  % short(f.blocks[br].get("tloc", "")).split(":")[-1], ok1 and ok2,
                  "failed_: %s, volume := exterior: %s" % (ok1, ok2), short(f.blocks[br].get("tloc", f.loc)),
                  why="a failed crossing must not leave a stale or null volume id in the state")
        okp, p_ = f.must_pass(call_pred(OTV + "level", 1), start=(tgt, -1))
        cx.ob("C03.2-cross-boundary", "the new deepest level is stored", okp, "", short(f.loc),
              path=f.path_locs(p_))
    cx.require(db.get(OTV + "cross_boundary"), "anchor cross_boundary not found")

    # ---------------------------------------------------- 3. direction at all levels
    dir_writers = [f for f in meths if O + "dir" in trans_writes(db, f, acc, 0)
                   and f.name.split("::")[-1] in ("set_dir", "operator=")
                   and ("DetailedInitializer" in f.sig or f.name.endswith("set_dir"))]
    cx.floor("direction-changing methods", len(dir_writers), 2)
    for f in dir_writers:
        tag = f.name.split("::")[-1] + ("(Detailed)" if "Detailed" in f.sig else "")
        dw = [(b, i, ev) for (b, i, ev) in f.events("write")
              if resolve_leaf(path_leaf(ev.get("path")) or "", acc) == O + "dir"]
        loop_w = [(b, i) for (b, i, ev) in dw if b in f.reach(f.succ(b))]
        # the deepest level: written through make_lsa() with no argument, on every path
        def deepest(e):
            if e["e"] != "write" or resolve_leaf(path_leaf(e.get("path")) or "", acc) != O + "dir":
                return False
            ch = e.get("path", {}).get("chain", [])
            return "m:" + OTV + "make_lsa" in ch and e.get("lhs", "").replace("this->", "").startswith("make_lsa()")
        okp, p_ = f.must_pass(deepest)
        cx.ob("C03.3-direction", "%s writes the direction in the per-level loop and at the deepest "
              "level" % tag, bool(loop_w) and okp, "%d writes, %d in the loop, deepest on every path: %s"
              % (len(dw), len(loop_w), okp), short(f.loc), path=f.path_locs(p_),
              why="a level whose direction was not updated computes distances along the old "
                  "direction in that universe")
        okp, p_ = f.must_pass(call_pred(OTV + "clear_next"))
        cx.ob("C03.3-direction", "%s invalidates the cached next step" % tag, okp, "", short(f.loc),
              path=f.path_locs(p_), why="the cached distance belongs to the old direction")

    # -------------------------------------------- 4. find_next_step stores its result
    for f in db.get(OTV + "find_next_step_impl"):
        isect = f.r["params"][0]["n"]
        for callee, fld in ((OTV + "next_step", "distance"), (OTV + "next_surf", "surface")):
            def pr(e, c=callee, fl=fld):
                return call_pred(c, 1)(e) and "F:" + D + "Intersection::" + fl in e["args"][0].get("refs", []) \
                    and isect in e["args"][0].get("refs", [])
            okp, p_ = f.must_pass(pr)
            cx.ob("C03.4-next-step-cache", "find_next_step_impl stores isect.%s" % fld, okp, "",
                  short(f.loc), path=f.path_locs(p_),
                  why="move_to_boundary trusts the cache: it must hold what was returned")
        rd = [ev for (_b, _i, ev) in f.events("write")
              if path_leaf(ev.get("path")) == C + "Propagation::distance"]
        ok = len(rd) == 1 and "F:" + D + "Intersection::distance" in rd[0].get("refs", []) \
            and isect in rd[0].get("refs", [])
        cx.ob("C03.4-next-step-cache", "returned distance is the cached distance", ok,
              rd[0].get("rhs") if rd else "-", short(f.loc))
        # surface level stored whenever there is an intersection
        lv = [(b, i) for (b, i, ev) in f.calls(OTV + "next_surface_level") if len(ev.get("args", [])) == 1]
        g = False
        for (b, i) in lv:
            for br in f.branch_blocks(lambda c, _b: local_refs(c.get("refs", [])) == {isect}):
                if f.guarded_by_edge((b, i), br, f.cond_polarity_edge(br, True)):
                    # and on that edge it is must-pass
                    tgt = f.blocks[br]["succ"][f.cond_polarity_edge(br, True)]
                    g = f.must_pass(call_pred(OTV + "next_surface_level", 1), start=(tgt, -1))[0]
        cx.ob("C03.4-next-step-cache", "the level of the next surface is stored when a surface was found",
              g, "", short(f.loc))
    cx.require(db.get(OTV + "find_next_step_impl"), "anchor find_next_step_impl not found")
    # who may consume / overwrite the cache
    for nm, owners in ((OTV + "next_step", {OTV + "find_next_step_impl", OTV + "move_internal",
                                            OTV + "clear_next"}),
                       (OTV + "next_surf", {OTV + "find_next_step_impl"}),
                       (OTV + "clear_next", {OTV + "operator=", OTV + "move_to_boundary", OTV + "move_internal",
                                             OTV + "set_dir"})):
        nargs = 0 if nm.endswith("clear_next") else 1
        w = [(f, ev, "call") for f, ev in db.callers_of(nm) if len(ev.get("args", [])) == nargs]
        check_owners(cx, "C03.4-next-step-cache", nm.split("::")[-1] + " setter", w, owners,
                     "only the navigator's own methods may touch the next-step cache")

    # ----------------------------------------------------- 5. volume flag agreement
    en = db.enums.get(C + "VolumeRecord::Flags")
    cx.require(en, "enum VolumeRecord::Flags not found")
    flags = [e["n"] for e in en["enumerators"]]
    readers = {}
    producers = {}
    for f in db.all_funcs():
        for x in flags:
            key = "E:" + C + "VolumeRecord::" + x
            key2 = "E:" + C + "VolumeRecord::Flags::" + x
            if f.name.startswith(C + "VolumeView::"):
                for (_b, _i, ev) in f.events("return"):
                    if key in ev.get("refs", []) or key2 in ev.get("refs", []):
                        readers.setdefault(x, set()).add(f.name)
            for (_b, _i, ev) in f.events("write"):
                if path_leaf(ev.get("path", {})) and path_leaf(ev["path"]).endswith("::flags") \
                        and (key in ev.get("refs", []) or key2 in ev.get("refs", [])):
                    producers.setdefault(x, set()).add(f.name)
    cx.floor("volume flags read by the tracker", len(readers), 3)
    for x in flags:
        if not readers.get(x):
            continue    # set but never branched on (embedded_universe today): no obligation
        cx.ob("C03.5-volume-flags", "flag %s (read through VolumeView) is produced by the builder" % x,
              bool(producers.get(x)),
              "readers %s; producers %s" % (sorted(readers.get(x, [])), sorted(producers.get(x, []))),
              "src/orange/OrangeData.hh",
              why="a flag the tracker branches on but nobody sets (or vice versa) silently selects "
                  "the wrong intersection/safety algorithm")

    frame_agreement(db, cx, meths)
    frame_carry(db, cx, meths)
    depth_covers_daughters(db, cx)


# ------------------------------------------------------------ 6. frame agreement
import re as _re

LSA = D + "LevelStateAccessor::"
FRAME_CALLS = {LSA + "pos", LSA + "dir", LSA + "vol", OTV + "pos", OTV + "dir",
               OTV + "make_local_state"}


def _norm(t):
    return (t or "").replace("this->", "").replace(" ", "")


def _level_key(f, pos, text, path, calls, refs):
    """Which nesting level a value belongs to: ('var', name, defs) for a local/param
    LevelStateAccessor, or ('level', <normalised level expression>)."""
    text_n = _norm(text)
    m = _re.search(r"make_local_state\((.*)\)$", text_n)
    if m and OTV + "make_local_state" in calls:
        return ("level", m.group(1))
    m = _re.search(r"make_lsa\((.*?)\)\.\w+\(\)$", text_n)
    if m and OTV + "make_lsa" in calls:
        return ("level", m.group(1) or "level()")
    if path and path["root"].startswith(("l:", "p:")) and path["chain"] and \
            path["chain"][0].startswith("m:" + LSA):
        var = path["root"][2:]
        return _var_key(f, pos, var)
    if (OTV + "pos" in calls or OTV + "dir" in calls) and not (set(calls) & {LSA + "pos", LSA + "dir"}):
        return ("level", "LevelId{0}")      # the view's own pos()/dir() are the global frame
    # a local holding e.g. `make_lsa(levelid).universe()`
    for v in local_refs(refs):
        if text_n == v:
            ks = set()
            for (_b, _i, d) in f.reaching_defs(v, pos):
                k = _level_key(f, (_b, _i), d.get("rhs"), _rhs_path(d), d.get("calls", []), d.get("refs", []))
                ks.add(k)
            if len(ks) == 1:
                return ks.pop()
    return None


def _rhs_path(w):
    """access path of a write's right-hand side `x.m()` (for _level_key)"""
    m = _re.match(r"^(\w+)\.(\w+)\(\)$", (w.get("rhs") or "").replace("this->", ""))
    if m and len(local_refs(w.get("refs", []))) == 1 and len(w.get("calls", [])) == 1:
        return {"root": "l:" + m.group(1), "chain": ["m:" + w["calls"][0]]}
    return None


def _reaching_field_writes(f, var, leaf, pos):
    """write events to field `leaf` of local `var` that may reach pos (backward walk; a write
    to the same field kills earlier ones on that path)"""
    out, seen = [], set()
    work = [(pos[0], pos[1])]
    first = True
    while work:
        b, upto = work.pop()
        if not first and b in seen:
            continue
        if not first:
            seen.add(b)
        first = False
        evs = f.blocks[b]["ev"]
        hit = None
        for k in range(min(upto, len(evs)) - 1, -1, -1):
            e = evs[k]
            if e["e"] == "write" and e.get("path", {}).get("root") == "l:" + var and \
                    path_leaf(e.get("path")) == leaf:
                hit = e
                break
        if hit is not None:
            out.append(hit)
            continue
        for p in f.preds(b):
            if p not in seen:
                work.append((p, 10 ** 9))
    return out


def _var_key(f, pos, var):
    defs = f.reaching_defs(var, pos)
    lv = set()
    for (_b, _i, d) in defs:
        m = _re.search(r"make_lsa\((.*)\)$", _norm(d.get("rhs")))
        if m and OTV + "make_lsa" in d.get("calls", []):
            lv.add(m.group(1) or "level()")
    if len(lv) == 1:
        return ("level", lv.pop(), var)
    return ("var", var)


def _same_level(a, b):
    if a is None or b is None:
        return False
    if a[0] == "var" or b[0] == "var":
        return a[0] == b[0] and a[1] == b[1]
    return a[1] == b[1]


def frame_agreement(db, cx, meths):
    """Every value handed to a universe's tracker (position, direction, volume, local state)
    comes from the same nesting level as the universe id the tracker is selected with."""
    TV = C + "TrackerVisitor::operator()"
    keyed = 0
    for f in meths:
        lambdas = {ev["loc"]: ev for (_b, _i, ev) in f.events("lambda")}
        for (b, i, ev) in f.calls(TV):
            a = ev.get("args", [])
            if len(a) != 2:
                continue
            u = a[1]
            ukey = _level_key(f, (b, i), u.get("t"), u.get("path"), u.get("calls", []), u.get("refs", []))
            if ukey is None:
                continue        # universe id not taken from a level state (initialisation walks)
            keyed += 1
            m = _re.search(r"\(lambda at [^:]*:(\d+):(\d+)\)", ev.get("sig", ""))
            lam = None
            if m:
                for loc, lev in lambdas.items():
                    if loc.endswith(":%s:%s" % (m.group(1), m.group(2))):
                        lam = lev
            if lam is None:
                cx.ob("C03.6-frame-agreement", "%s tracker call @%s" % (f.name.split("::")[-1],
                      short(ev["loc"]).split(":")[-1]), False,
                      "cannot find the lambda passed to the tracker visitor", short(ev["loc"]))
                continue
            bad = []
            seen_frame_value = False
            for c in lam.get("captures", []):
                ck = None
                if c.get("init") is not None:
                    if not (set(c.get("calls", [])) & FRAME_CALLS):
                        continue
                    ck = _level_key(f, (b, i), c["init"], c.get("path"), c.get("calls", []), c.get("refs", []))
                elif "LSA" in c.get("ty", "") or "LevelStateAccessor" in c.get("ty", ""):
                    ck = _var_key(f, (b, i), c["n"])
                elif c.get("ty", "").replace("const ", "").split("::")[-1].strip(" &") == "LocalState":
                    # a LocalState filled field by field: position, direction and volume that
                    # reach the call must each come from the level of the universe
                    for leaf in ("pos", "dir", "volume"):
                        for w in _reaching_field_writes(f, c["n"], C + "detail::LocalState::" + leaf, (b, i)):
                            if not w.get("calls") and not local_refs(w.get("refs", [])):
                                continue     # reset to an empty value ({}): frame-free
                            wk = _level_key(f, (b, i), w.get("rhs"), _rhs_path(w), w.get("calls", []),
                                            w.get("refs", []))
                            seen_frame_value = True
                            if not _same_level(wk, ukey):
                                bad.append("%s.%s = %s is %s" % (
                                    c["n"], leaf, w.get("rhs"),
                                    ("level %s" % wk[1]) if wk else "of no identifiable level"))
                    continue
                else:
                    continue
                seen_frame_value = True
                if not _same_level(ck, ukey):
                    bad.append("%s = %s is level %s" % (c["n"], c.get("init", "&" + c["n"]),
                                                         ck[1] if ck else "?"))
            # the body must not reach for the global-frame accessors either
            for g in db.get(lam.get("callee", "")):
                for (_b2, _i2, e2) in g.events("call"):
                    if e2["callee"] in (OTV + "pos", OTV + "dir") and ukey[1] != "LevelId{0}":
                        bad.append("lambda body reads the global-frame %s()" % e2["callee"].split("::")[-1])
            cx.ob("C03.6-frame-agreement", "%s: values handed to the tracker of universe `%s` are from "
                  "the same level [@%s]" % (f.name.split("::")[-1], _norm(u.get("t")),
                                           short(ev["loc"]).split(":")[-1]),
                  not bad, "; ".join(bad) if bad else
                  ("level %s" % ukey[1] if seen_frame_value else "no position/direction captured"),
                  short(ev["loc"]),
                  why="each universe has its own coordinate frame: a position or direction from "
                      "another level gives a wrong normal / distance / safety as soon as the daughter "
                      "is placed with a non-identity transform")
            # a vector returned by that tracker is in the frame of the same level: if it is then
            # rotated up inside a loop over levels, the loop must cover exactly the levels above
            nxt = f.blocks[b]["ev"][i + 1:i + 3]
            vdef = [e for e in nxt if e["e"] == "def" and TV in e.get("calls", [])]
            if not vdef or ukey[0] != "level":
                continue
            vec = vdef[0]["var"]
            ups = []
            for (_bl, _il, lev) in f.events("lambda"):
                if not any(c["n"] == vec and c.get("byref") for c in lev.get("captures", [])):
                    continue
                body_calls = [e2["callee"] for g in db.get(lev.get("callee", ""))
                              for (_x, _y, e2) in g.events("call")]
                if any(c.endswith("::rotate_up") or c.endswith("::transform_up") for c in body_calls):
                    holder = [d["var"] for (_x, _y, d) in f.events("def")
                              if d.get("kind") == "decl" and d.get("loc", "").rsplit(":", 2)[0] ==
                              lev["loc"].rsplit(":", 2)[0] and "lambda at" in d.get("ty", "")
                              and d["ty"].endswith(":%s)" % ":".join(lev["loc"].rsplit(":", 2)[1:]))]
                    ups += holder
            for (b2, i2, e2) in f.calls(C + "TransformVisitor::operator()"):
                a2 = e2.get("args", [])
                if len(a2) != 2 or not a2[0].get("path") or a2[0]["path"]["root"][2:] not in ups:
                    continue
                # follow the loop variable back to the range it iterates over
                frontier = set(local_refs(a2[1].get("refs", [])))
                rng = None
                for _ in range(5):
                    nxtf = set()
                    for v in frontier:
                        for (_x, _y, d) in f.reaching_defs(v, (b2, i2)):
                            if C + "range" in d.get("calls", []):
                                rng = d
                            nxtf |= set(local_refs(d.get("refs", [])))
                    if rng or not nxtf:
                        break
                    frontier = nxtf
                if rng is None:
                    cx.ob("C03.6-frame-agreement", "%s: up-rotation of `%s` [@%s]" % (
                        f.name.split("::")[-1], vec, short(e2["loc"]).split(":")[-1]), False,
                        "cannot relate the up-rotation to a loop over levels", short(e2["loc"]))
                    continue
                lv = [c.split("::")[-1] + "()" for c in rng.get("calls", [])
                      if c.startswith(OTV) and c.split("::")[-1] in ("level", "surface_level",
                                                                      "next_surface_level")]
                ok = lv == [ukey[1]] or (len(lv) == 1 and _norm(lv[0]) == ukey[1])
                cx.ob("C03.6-frame-agreement", "%s: `%s` (frame of level %s) is rotated up through "
                      "exactly the levels above it [@%s]" % (f.name.split("::")[-1], vec, ukey[1],
                                                            short(e2["loc"]).split(":")[-1]),
                      ok, "loop range: %s" % _norm(rng.get("rhs")), short(e2["loc"]),
                      why="rotating a vector of level k by the placement transforms of deeper "
                          "levels (or too few levels) leaves it in no frame at all: the inside/"
                          "outside decision of set_dir is then wrong whenever a daughter below "
                          "the surface is placed with a rotation")
    cx.floor("tracker calls selected by a level's universe id", keyed, 4)
    # make_local_state(level): the factory the callers above are keyed by
    n = 0
    for f in db.get(OTV + "make_local_state"):
        prm = [p_["n"] for p_ in f.r["params"]]
        if len(prm) != 1:
            continue
        rets = [(b, i) for (b, i, _e) in f.events("return")]
        loc = [d["var"] for (_b, _i, d) in f.events("def") if d.get("kind") == "decl"
               and d.get("ty", "").split("::")[-1] == "LocalState"]
        if not rets or not loc:
            continue
        bad = []
        for leaf in ("pos", "dir", "volume"):
            ws = _reaching_field_writes(f, loc[0], C + "detail::LocalState::" + leaf, rets[0])
            if not ws:
                bad.append("%s never written" % leaf)
            for w in ws:
                wk = _level_key(f, rets[0], w.get("rhs"), _rhs_path(w), w.get("calls", []), w.get("refs", []))
                if not (wk and wk[0] == "level" and _norm(wk[1]) == prm[0]):
                    bad.append("%s.%s = %s is %s" % (loc[0], leaf, w.get("rhs"),
                                                   ("level %s" % wk[1]) if wk else "of no identifiable level"))
        n += 1
        cx.ob("C03.6-frame-agreement", "make_local_state(%s): position, direction and volume are those "
              "of level `%s`" % (prm[0], prm[0]), not bad, "; ".join(bad), short(f.loc),
              why="every tracker call made with make_local_state(k) relies on the state being in the "
                  "frame of level k")
    cx.floor("make_local_state definitions", n, 1)


def frame_carry(db, cx, meths):
    """C03.6 (carried vectors): a position / direction / displacement that is carried down the
    levels - written at level `lev`, then sent through the placement transform of that level's
    daughter - is in frame `lev` only if the loop starts at level 0 (where the vector was
    formed), uses it before it is transformed, transforms it with the daughter of the same
    level, and writes the deepest level after the loop."""
    import re as _re2
    from cfg import loops_of
    n = 0
    for f in meths:
        lam_by_loc = {l["loc"]: l for (_b, _i, l) in f.events("lambda")}
        holders = {}
        for (_b, _i, d) in f.events("def"):
            m = _re2.search(r"\(lambda at [^:]*:(\d+):(\d+)\)", d.get("ty", ""))
            if m and d.get("kind") == "decl":
                for loc, l in lam_by_loc.items():
                    if loc.endswith(":%s:%s" % (m.group(1), m.group(2))):
                        holders[d["var"]] = l
        loops = loops_of(f)
        for (b, i, ev) in f.calls(C + "TransformVisitor::operator()"):
            a = ev.get("args", [])
            if len(a) != 2 or not a[0].get("path") or a[0]["path"]["root"][2:] not in holders:
                continue
            lam = holders[a[0]["path"]["root"][2:]]
            body_calls = [e2["callee"] for g in db.get(lam.get("callee", "")) for (_x, _y, e2) in g.events("call")]
            if not any(c.endswith("::transform_down") or c.endswith("::rotate_down") for c in body_calls):
                continue
            carried = [c["n"] for c in lam.get("captures", []) if c.get("byref")]
            if len(carried) != 1:
                continue
            v = carried[0]
            inl = [(h, body) for (h, body) in loops if b in body]
            if not inl:
                continue
            h, body = min(inl, key=lambda x: len(x[1]))
            n += 1
            problems = []
            # loop variable and its range
            lev = None
            rng = None
            for bb in body:
                for e2 in f.blocks[bb]["ev"]:
                    if e2["e"] == "def" and e2.get("kind") == "decl" and (e2.get("rhs") or "").startswith("* __begin"):
                        lev = e2["var"]
                        beg = e2["refs"][0]
                        for (_x, _y, d2) in f.events("def"):
                            if d2.get("var") == beg and d2.get("refs"):
                                for (_x2, _y2, d3) in f.events("def"):
                                    if d3.get("var") == d2["refs"][0]:
                                        rng = d3
            if lev is None or rng is None:
                n -= 1
                continue        # not the range-for-over-levels idiom (initialisation / crossing walks)
            else:
                t = _norm(rng.get("rhs"))
                m = _re2.match(r"^range\((.*)\)$", t)
                inner = m.group(1) if m else ""
                depth = 0
                top_commas = 0
                for ch in inner:
                    depth += ch in "({<"
                    depth -= ch in ")}>"
                    top_commas += (ch == "," and depth == 0)
                if not m:
                    problems.append("loop range `%s` is not range(...)" % t)
                elif top_commas and not _re2.match(r"^(celeritas::)?LevelId\{0\},", inner):
                    problems.append("the loop over levels starts at `%s`, but `%s` is formed at level 0"
                                    % (inner.split(",")[0], v))
            # the level's lsa, use-before-transform, same-level daughter
            lsas = [d2["var"] for bb in body for d2 in f.blocks[bb]["ev"]
                    if d2["e"] == "def" and d2.get("kind") == "decl" and lev is not None
                    and OTV + "make_lsa" in d2.get("calls", []) and lev in d2.get("refs", [])]
            if lev is not None and not (set(lsas) & set(a[1].get("refs", []))):
                problems.append("the transform is not the placement of this level's daughter (`%s`)" % a[1].get("t"))
            uses = []
            for bb in body:
                for k2, e2 in enumerate(f.blocks[bb]["ev"]):
                    p2 = e2.get("path") or {}
                    if e2["e"] == "write" and p2.get("root", "")[2:] in lsas and v in e2.get("refs", []):
                        uses.append((bb, k2))
                    if e2["e"] == "call" and e2["callee"] == C + "axpy":
                        ar = e2.get("args", [])
                        if any(v in x.get("refs", []) for x in ar) and any(
                                (x.get("path") or {}).get("root", "")[2:] in lsas for x in ar):
                            uses.append((bb, k2))
            if not uses:
                problems.append("`%s` is not written to this level's state inside the loop" % v)
            elif not any(f.dominates(u, (b, i)) for u in uses):
                problems.append("`%s` is transformed before it is used at this level" % v)
            # final (deepest) level after the loop
            final = False
            for (bb, k2, e2) in f.events():
                if bb in body:
                    continue
                p2 = e2.get("path") or {}
                refs_v = v in e2.get("refs", []) or any(v in x.get("refs", []) for x in e2.get("args", []))
                if not refs_v:
                    continue
                root = p2.get("root", "")
                deepest_local = [d2["var"] for (_x, _y, d2) in f.events("def") if d2.get("kind") == "decl"
                                 and OTV + "make_lsa" in d2.get("calls", []) and not local_refs(d2.get("refs", []))]
                if e2["e"] == "write" and (root[2:] in deepest_local or
                                           (root == "this" and p2.get("chain") and
                                            p2["chain"][0] == "m:" + OTV + "make_lsa")):
                    final = True
                if e2["e"] == "call" and e2["callee"] == C + "axpy" and any(
                        (x.get("path") or {}).get("root", "")[2:] in deepest_local for x in e2.get("args", [])):
                    final = True
            if not final:
                problems.append("the deepest level is not written from `%s` after the loop" % v)
            cx.ob("C03.6-frame-agreement", "%s: `%s` carried down the levels is used in the frame of each "
                  "level [@%s]" % (f.name.split("::")[-1] + f.sig.split(")")[0] + ")", v,
                                   short(ev["loc"]).split(":")[-1]), not problems,
                  "; ".join(problems) or "loop from level 0: use at level lev, then transform through "
                  "lev's daughter; deepest level after the loop", short(ev["loc"]),
                  why="a vector that is one placement transform behind (or ahead of) the level it is "
                      "written to puts the daughter-level coordinates at a ghost point: distances to "
                      "the daughter's boundaries are wrong by the size of the move")
    cx.floor("carried-vector level loops", n, 2)


def depth_covers_daughters(db, cx):
    """C03.7-depth-all-daughters: `scalars.max_depth` sizes the per-level navigation state
    (slot * max_depth + level) and the navigator descends as deep as the geometry really is.
    The depth of a universe is therefore 1 + the maximum over *all* its daughters: in both
    DepthCalculator overloads the recursive call sits in a loop over the record's daughter
    container, is folded with max into the value that is returned (+1), and the loop is not
    left early.  An under-reported depth lets one track's deep levels alias the next slot."""
    from cfg import loops_of
    DC = C + "detail::DepthCalculator::operator()"
    fs = [f for f in db.get(DC) if any(t in f.sig for t in ("UnitInput", "RectArrayInput"))]
    cx.floor("DepthCalculator overloads over universe records", len(fs), 2)
    for f in fs:
        rec = "UnitInput" if "UnitInput" in f.sig else "RectArrayInput"
        rc = [(b, i, ev) for (b, i, ev) in f.events("call") if ev["callee"] == DC
              and "OpaqueId" in ev.get("sig", "")]
        loops = loops_of(f)
        in_loop, over_daughters, early = False, False, []
        for (b, i, ev) in rc:
            for (h, body) in loops:
                if b not in body:
                    continue
                in_loop = True
                pre = [e for p_ in f.preds(h) if p_ not in body for e in f.blocks[p_]["ev"]]
                if any(e["e"] == "def" and "__range" in e.get("var", "") and
                       any(r.startswith("F:") and r.split("::")[-1] in ("daughters", "daughter_map")
                           for r in e.get("refs", [])) for e in pre):
                    over_daughters = True
                for bb in body:
                    if bb == h:
                        continue
                    for sx in f.succ(bb):
                        if sx is not None and sx not in body and not f.is_exceptional(sx):
                            early.append(bb)
        folds = [ev for (_b, _i, ev) in f.events("def")
                 if any(c.endswith("std::max") or c == C + "max" for c in ev.get("calls", []))
                 and DC in ev.get("calls", []) and ev.get("var") in local_refs(ev.get("refs", []))]
        rets = [ev for (_b, _i, ev) in f.events("return")]
        acc = folds[0]["var"] if folds else None
        ret_ok = bool(rets) and all(acc in local_refs(r.get("refs", [])) and
                                    _norm(r.get("t")).replace(acc or "?", "") in ("+1", "1+") for r in rets)
        ok = bool(rc) and in_loop and over_daughters and not early and bool(folds) and ret_ok
        cx.ob("C03.7-depth-all-daughters", "DepthCalculator(%s): depth = 1 + max over all daughters" % rec, ok,
              "recursive call in a loop: %s; loop over the daughter container: %s; early exits: %s; "
              "max-fold: %s; return: %s" % (in_loop, over_daughters, early or "none",
                                            acc or "none", [r.get("t") for r in rets]), short(f.loc),
              why="the per-level state is sized with this number: levels beyond it overwrite the "
                  "state of the next track slot (or the heap), and navigation silently changes")
