"""C07 - shared-mutable-state audit (lockset style) over everything reachable from the
per-stream entry points."""
import re
import shared
from common import C, short, local_refs
from cfg import path_leaf, path_fields

EXPLANATION = (
    "Audit of every piece of state that several streams can reach: each `mutable` data member, "
    "each non-const namespace-scope / static / function-local static object, and the non-const "
    "methods of the registries and *Params classes that CoreParams hands out. For every write "
    "(assignment, compound assignment, non-const method call, non-const reference/pointer "
    "argument) located in a function reachable from a per-stream entry point (step, begin_run, "
    "Stepper/CoreState/Transporter/Runner methods, process_steps) the access must be per-stream "
    "(StreamStore::state by StreamId), atomic/mutex typed, or dominated by an RAII lock in the "
    "same function or in every reachable caller; a member written under a lock must not be read "
    "outside it (double-checked locking).")
NOT_DECIDED = "that concurrent results equal serial results (an equality of executions)"

TECHNIQUE = ('lockset-style audit: every write to mutable members / non-const statics reachable from per-stream entry points must be lock-dominated, atomic or stream-indexed; double-checked-locking detection; reachability of registry mutators; element-only modification of the per-stream store vectors')

UNITS = [
    "src/celeritas/user/ActionDiagnostic.cc", "src/celeritas/user/StepDiagnostic.cc",
    "src/celeritas/user/SlotDiagnostic.cc", "src/celeritas/user/SimpleCalo.cc",
    "src/celeritas/user/StepCollector.cc", "src/celeritas/user/detail/StepGatherAction.cc",
    "src/celeritas/user/detail/StepParams.cc", "src/celeritas/user/detail/SimpleCaloImpl.cc",
    "src/celeritas/global/Stepper.cc", "src/celeritas/global/CoreState.cc",
    "src/celeritas/global/CoreParams.cc", "src/celeritas/global/ActionSequence.cc",
    "src/celeritas/global/KernelContextException.cc",
    "src/celeritas/track/ExtendFromPrimariesAction.cc", "src/celeritas/track/ExtendFromSecondariesAction.cc",
    "src/celeritas/track/InitializeTracksAction.cc", "src/celeritas/track/SortTracksAction.cc",
    "src/celeritas/track/StatusChecker.cc",
    "src/celeritas/phys/detail/PreStepAction.cc", "src/celeritas/geo/detail/BoundaryAction.cc",
    "src/celeritas/global/alongstep/AlongStepUniformMscAction.cc",
    "src/celeritas/em/model/KleinNishinaModel.cc",
    "src/corecel/sys/ActionRegistry.cc", "src/corecel/sys/KernelRegistry.cc", "src/corecel/sys/MemRegistry.cc",
    "src/corecel/sys/Environment.cc", "src/corecel/sys/Device.cc", "src/corecel/sys/ScopedMem.cc",
    "src/corecel/sys/MultiExceptionHandler.cc", "src/corecel/sys/ScopedSignalHandler.cc",
    "src/corecel/sys/ScopedMpiInit.cc", "src/corecel/sys/MpiCommunicator.cc",
    "src/corecel/io/Logger.cc", "src/corecel/io/OutputRegistry.cc",
    "src/corecel/data/AuxParamsRegistry.cc", "src/corecel/data/AuxStateVec.cc",
    "app/celer-sim/Runner.cc", "app/celer-sim/Transporter.cc", "app/celer-sim/celer-sim.cc",
]

SAFE_TYPE = re.compile(r"std::(mutex|recursive_mutex|shared_mutex|atomic|once_flag)|sig_atomic_t")
LOCK_TYPE = re.compile(r"std::(lock_guard|scoped_lock|unique_lock|shared_lock)")
PER_STREAM_CALLS = {C + "StreamStore::state"}
REGISTRIES = ["ActionRegistry", "AuxParamsRegistry", "OutputRegistry"]


def entry_nodes(db):
    out = []
    pats = [r"::step$", r"::begin_run$", r"::process_steps$",
            r"^celeritas::Stepper::(Stepper|operator\(\)|reseed|warm_up|kill_active)$",
            r"^celeritas::CoreState::(CoreState|reset|insert_primaries)$",
            r"^celeritas::app::Transporter::", r"^celeritas::app::Runner::(operator\(\)|get_transporter|num_events)$",
            r"^celeritas::ActionSequence::(begin_run|step)$"]
    for n in db.funcs:
        if any(re.search(p, n) for p in pats):
            for f in db.get(n):
                out.append(f)
    return out


def lock_defs(f):
    return [(b, i) for (b, i, ev) in f.events("def") if LOCK_TYPE.search(ev.get("ty", ""))]


def locked(f, pos):
    return any(f.dominates(l, pos) for l in lock_defs(f))



def streamstore_indexed(db, cx):
    """C07.5 (seeded change c07e): StreamStore::state(stream_id, size) is called by every stream on
    the one shared store without a lock; that is race-free only because each stream touches the
    element of its own stream id.  Inside the per-stream accessors every non-const use of the
    state vectors therefore goes through `[...]`; the vectors themselves are sized at construction."""
    n = 0
    for nm in db.find(r"^celeritas::StreamStore::(state|stateptr_impl)$"):
        for f in db.get(nm):
            # only the run-time accessors that take a stream id
            if not any("StreamId" in (p_.get("cty") or p_.get("ty") or "") or "OpaqueId<celeritas::Stream_" in
                       (p_.get("cty") or p_.get("ty") or "") for p_ in f.r["params"]):
                continue
            bad = []
            for (_b, _i, e) in f.events():
                if e["e"] == "call" and e.get("constm") is False:
                    if e["callee"].split("::")[-1] in ("operator[]", "at", "begin", "end", "data", "front", "back"):
                        continue        # element access: the element is judged by what is done to it
                    pth = (e.get("recv") or {}).get("path") or {}
                elif e["e"] == "write":
                    pth = e.get("path") or {}
                else:
                    continue
                root = pth.get("root", "")
                ch = pth.get("chain", [])
                on_vec = root == "call:" + C + "StreamStore::states_impl" or (
                    root == "this" and any(x in ("f:" + C + "StreamStore::host_states_",
                                                 "f:" + C + "StreamStore::device_states_") for x in ch))
                if on_vec and "[]" not in ch:
                    bad.append("%s @%s" % (e.get("callee", e.get("lhs", "?")).split("::")[-1],
                                           short(e["loc"]).split(":", 1)[1]))
            n += 1
            cx.ob("C07.5-streamstore-indexed",
                  "%s modifies only the element of its own stream" % f.inst.split("::")[-1][:60],
                  not bad, "whole-vector modification: %s" % ", ".join(bad) if bad else "", short(f.loc),
                  why="the per-stream stores of a diagnostic are reached by all streams concurrently "
                      "and without a lock; resizing or re-assigning the vector itself from a stream "
                      "races with the other streams' element accesses (lost tallies, heap corruption)")
    cx.floor("per-stream StreamStore accessors", n, 2)

def run(db, cx):
    streamstore_indexed(db, cx)
    entries = entry_nodes(db)
    cx.floor("per-stream entry points", len(entries), 30)
    R = db.reachable_from([f.node for f in entries])
    parent = dict(db._last_parent)
    cx.count("functions reachable from entry points", len(R))
    rfuncs = [f for f in db.funcs_of_nodes(R)]
    by_node = {f.node: f for f in rfuncs}
    rcg = db.reverse_callgraph()

    static_locals = {}
    for g_ in db.globals.values():
        if g_.get("local") and g_.get("func"):
            static_locals.setdefault(g_["func"], set()).add(g_["name"].split("::")[-1])

    def in_static_init(g, pos, callee_name):
        """call site is part of `static T x = callee(...)` (thread-safe magic static)"""
        names = static_locals.get(g.name, set())
        if not names:
            return False
        evs = g.blocks[pos[0]]["ev"]
        for k in range(pos[1] + 1, len(evs)):
            e = evs[k]
            if e["e"] == "def" and e.get("kind") == "decl":
                return e.get("var") in names and callee_name in e.get("calls", [])
        return False

    def callers_locked(f, depth=3, static_ok=True):
        """every reachable caller calls f from a lock-dominated position (or from the
        initialiser of a function-local static, which C++11 serialises)"""
        cs = [c for c in rcg.get(f.node, ()) if c in R]
        if not cs:
            return False
        for cn in cs:
            g = by_node.get(cn)
            if g is None:
                return False
            sites = [(b, i) for (b, i, ev) in g.events("call")
                     if ev.get("inst", ev["callee"]) + ev.get("sig", "") == f.node]
            if not sites:
                return False
            for p in sites:
                if not locked(g, p) and not (static_ok and in_static_init(g, p, f.name)):
                    if depth > 0 and callers_locked(g, depth - 1, static_ok):
                        continue
                    return False
        return True

    def chain(node):
        out = []
        cur = node
        k = 0
        while cur is not None and k < 30:
            out.append(cur.split("(")[0][-60:])
            cur = parent.get(cur)
            k += 1
        return list(reversed(out))

    # ---------------------------------------------------------------- 1. mutable members
    muts = []
    for n, r in sorted(db.records.items()):
        if not n.startswith(C):
            continue
        for fld in r["fields"]:
            if fld["mutable"]:
                muts.append((n, fld["n"], fld["ty"]))
    cx.floor("mutable data members", len(muts), 3)
    for cls, fld, ty in muts:
        q = cls + "::" + fld
        if SAFE_TYPE.search(ty):
            cx.ob("C07.1-mutable-members", "%s is a synchronisation primitive" % q, True, ty, cls)
            continue
        nacc = 0
        for f in rfuncs:
            lock_written = False
            unlocked_reads = []
            for (b, i, ev) in f.events():
                hit = None
                if ev["e"] == "write" and "f:" + q in ev.get("path", {}).get("chain", []):
                    hit = "write"
                elif ev["e"] == "call":
                    rp = ev.get("recv", {}).get("path", {})
                    if "f:" + q in rp.get("chain", []) and ev.get("constm") is False:
                        hit = "call " + ev["callee"].split("::")[-1]
                        if ev["callee"] in PER_STREAM_CALLS:
                            a = ev.get("args", [])
                            ok = bool(a) and not a[0].get("lit") and (
                                any(c_.endswith("::stream_id") for c_ in a[0].get("calls", []))
                                or any("stream" in r_.lower() for r_ in a[0].get("refs", [])))
                            nacc += 1
                            cx.ob("C07.1-mutable-members", "%s: per-stream access in %s" % (q, f.name),
                                  ok, "%s(%s, ...)" % (ev["callee"].split("::")[-1],
                                                       a[0].get("t") if a else ""), short(ev["loc"]),
                                  why="the per-stream store is safe only when indexed by the "
                                      "caller's own stream id")
                            continue
                    for a in ev.get("args", []):
                        if a.get("mode") in ("ptr", "ref") and "f:" + q in (a.get("path") or {}).get("chain", []):
                            hit = "passed by non-const ref to " + ev["callee"].split("::")[-1]
                if hit is None:
                    continue
                nacc += 1
                is_ctor = f.r.get("ctor") and f.r.get("cls") == cls
                ok = locked(f, (b, i)) or is_ctor
                if locked(f, (b, i)):
                    lock_written = True
                cx.ob("C07.1-mutable-members", "%s: %s in %s is lock-dominated" % (q, hit, f.name), ok,
                      "reachable via " + " -> ".join(chain(f.node)[-5:]), short(ev["loc"]),
                      why="a mutable member of a shared (const) object written from a per-stream "
                          "entry point without a lock is a data race between streams")
            if lock_written:
                # reads of the same member outside the lock (double-checked locking)
                for bid in f.live_blocks():
                    blk = f.blocks[bid]
                    c = blk.get("cond")
                    if c and "F:" + q in c.get("allrefs", c.get("refs", [])):
                        if not locked(f, (bid, 10 ** 6)):
                            unlocked_reads.append(short(blk.get("tloc", "?")))
                cx.ob("C07.1-double-checked-locking", "%s is not read outside the lock in %s" % (q, f.name),
                      not unlocked_reads, "unsynchronised test of the member at %s while another "
                      "stream may be assigning it under the lock" % unlocked_reads if unlocked_reads
                      else "", short(f.loc),
                      why="double-checked locking on a non-atomic object: the unlocked read races "
                          "with the locked write (C++ memory model), and a stream can observe a "
                          "partially assigned store")
        cx.count("accesses to %s from entry points" % q, nacc)

    # ---------------------------------------------------------------- 2. globals / statics
    gl = [g for g in db.globals.values() if not g["const"] and not g["constexpr"] and not g["tls"]
          and g["name"].startswith(("celeritas", "(anon)"))]
    cx.floor("non-const globals / statics", len(gl), 8)
    singleton_types = {}
    for g in gl:
        ok_type = bool(SAFE_TYPE.search(g["ty"]))
        name = g["name"]
        root = "g:" + name
        sites = []
        for f in rfuncs:
            for (b, i, ev) in f.events():
                if ev["e"] == "def" and ev.get("var") == name.split("::")[-1] and ev.get("kind") == "decl":
                    continue
                if ev["e"] == "write" and ev.get("path", {}).get("root") == root:
                    sites.append((f, b, i, ev, "write"))
                elif ev["e"] == "call":
                    rp = ev.get("recv", {}).get("path", {})
                    if rp.get("root") == root and ev.get("constm") is False:
                        sites.append((f, b, i, ev, "non-const call " + ev["callee"].split("::")[-1]))
                    for a in ev.get("args", []):
                        if a.get("mode") in ("ptr", "ref") and (a.get("path") or {}).get("root") == root:
                            sites.append((f, b, i, ev, "passed to " + ev["callee"].split("::")[-1]))
        m = re.match(r"(celeritas::[A-Za-z_:]+)$", g["ty"])
        if m and not ok_type and not g["ty"].endswith("]"):
            singleton_types[m.group(1)] = name
        if ok_type:
            cx.ob("C07.2-globals", "%s is a synchronisation primitive / atomic" % name, True, g["ty"],
                  short(g["loc"]))
            continue
        if not sites:
            cx.ob("C07.2-globals", "%s is not written from any per-stream entry point" % name, True,
                  "type %s" % g["ty"][:60], short(g["loc"]))
            continue
        for (f, b, i, ev, how) in sites:
            # a function-local static initialiser only serialises *its own* object: it does
            # not protect a third global, so that exemption is off here
            ok = locked(f, (b, i)) or callers_locked(f, static_ok=False)
            cx.ob("C07.2-globals", "%s: %s in %s is lock-protected" % (name, how, f.name), ok,
                  "reachable via " + " -> ".join(chain(f.node)[-5:]), short(ev["loc"]),
                  why="an unsynchronised write to a process-wide object from per-stream code is a "
                      "data race")
    # singleton classes: their non-const methods reachable from entry points must lock
    for ty, gname in sorted(singleton_types.items()):
        for f in rfuncs:
            if f.r.get("cls") != ty or f.r.get("const", True) or f.r.get("ctor"):
                continue
            ws = [(b, i, ev) for (b, i, ev) in f.events("write")
                  if ev.get("path", {}).get("root") == "this"]
            cs = [(b, i, ev) for (b, i, ev) in f.events("call")
                  if ev.get("recv", {}).get("path", {}).get("root") == "this"
                  and ev.get("recv", {}).get("path", {}).get("chain") and ev.get("constm") is False]
            if not ws and not cs:
                continue
            okl = all(locked(f, (b, i)) for (b, i, _e) in ws + cs) or callers_locked(f)
            cx.ob("C07.2-globals", "singleton %s: %s mutates under a lock" % (ty.split("::")[-1], f.name),
                  okl, "%d member write(s)/mutating call(s); object `%s`; reachable via %s"
                  % (len(ws) + len(cs), gname, " -> ".join(chain(f.node)[-4:])), short(f.loc),
                  why="a process-wide singleton mutated from several streams needs internal or "
                      "caller-side locking")

    # ---------------------------------------------------------------- 3. registries / params
    bad = []
    audited = 0
    for f in rfuncs:
        cls = f.r.get("cls") or ""
        base = cls.split("::")[-1]
        if f.r.get("const", True) or f.r.get("ctor") or f.r.get("static") or f.name.split("::")[-1].startswith("~"):
            continue
        if base in REGISTRIES or (base.endswith("Params") and cls.startswith(C)):
            audited += 1
            # mutates something of its own?
            ws = [ev for (_b, _i, ev) in f.events("write") if ev.get("path", {}).get("root") == "this"]
            cs = [ev for (_b, _i, ev) in f.events("call")
                  if ev.get("recv", {}).get("path", {}).get("root") == "this"
                  and ev.get("recv", {}).get("path", {}).get("chain") and ev.get("constm") is False]
            if ws or cs:
                bad.append((f, (ws + cs)[0]))
    for f, ev in bad:
        cx.ob("C07.3-shared-params", "%s (non-const) is not reachable from a per-stream entry point" % f.name,
              False, "reachable via " + " -> ".join(chain(f.node)[-6:]), short(ev.get("loc", f.loc)),
              why="params and registries are shared by all streams; CoreParams hands out non-const "
                  "pointers to them, so the language does not stop a step from mutating them")
    cx.ob("C07.3-shared-params", "no mutating method of a registry or *Params class is reachable "
          "from the per-stream entry points", not bad,
          "%d non-const registry/params methods in the reachable set, none mutating" % audited
          if not bad else "%d offending method(s)" % len(bad), "CoreParams")

    # 4. per-stream staging state is per event: what a stream stages for one event must not leak
    # into the next one (otherwise results depend on which stream ran which events before)
    shared.primaries_handoff(db, cx, "C07.4-stream-staging")
    # a stream that is re-used after an aborted event must give the next event the state a
    # fresh stream would: reset() restores every slot and counter on every path
    shared.reset_completeness(db, cx, "C07.4-stream-reset")

    # 5. begin_run is non-const by design and is invoked on the *shared* action object once per
    # stream (from every Stepper constructor): whatever it writes into the action must be
    # written under a lock
    nbr = 0
    for n_ in sorted(db.find(r"::begin_run(_impl)?$")):
        for f in db.get(n_):
            if f.name.startswith(C + "ActionSequence") or f.name.startswith(C + "ActionGroups"):
                continue
            sites = []
            for (b, i, ev) in f.events():
                p = None
                if ev["e"] == "write":
                    p = ev.get("path")
                elif ev["e"] == "call" and not ev.get("constm", True):
                    p = ev.get("recv", {}).get("path")
                if p and p.get("root") == "this" and p.get("chain") and p["chain"][0].startswith("f:"):
                    sites.append((b, i, ev, p["chain"][0][2:]))
            if not sites:
                continue
            nbr += 1
            unlocked = [(b, i, ev, fld) for (b, i, ev, fld) in sites if not locked(f, (b, i))]
            flds = sorted(set(x[3].split("::")[-1] for x in unlocked))
            cx.ob("C07.1-begin-run-writes", "%s writes its members under a lock" % f.name.replace(C, ""),
                  not unlocked, ("unsynchronised: %s at %s" % (", ".join(flds), ", ".join(
                      sorted(set(short(x[2]["loc"]) for x in unlocked))[:4]))) if unlocked else
                  "%d member write(s), all lock-dominated" % len(sites), short(f.loc),
                  why="begin_run runs once per stream on the one action object all streams share; "
                      "streams are constructed concurrently (celer-sim builds transporters inside "
                      "its OpenMP loop) while earlier streams may already be stepping and reading it")
    cx.floor("begin_run implementations that write members", nbr, 2)
