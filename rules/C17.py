"""C17 - user scoring receives exactly the steps that happened (agreement rules)."""
from common import C, short, local_refs, field_writers
from cfg import path_leaf
import effects

EXPLANATION = (
    "Four-way field agreement between the step-selection flags, the step state storage, the "
    "resize that allocates it, the gather executor that fills it and the detector-output copy, "
    "each discovered from the records in the AST (a new flag or field without its counterparts "
    "is reported); gather values are read from the matching accessor under the matching flag; "
    "gather actions run at user_pre/user_post over all slots, mark inactive slots, take the "
    "detector from the pre-step volume and apply the non-zero-deposit filter only at post; "
    "observers are read-only on core state; tallies add exactly the gathered deposit / one count.")
NOT_DECIDED = "equality of the gathered values with the state beyond 'right accessor, right order'"

TECHNIQUE = ('four-way field agreement (selection flags, storage, resize, gather, copy) read from AST records and guarded writes; executor/ordering rules; observer-inertness by call-graph reachability; must-pass of every output assignment in copy_steps')

UNITS = [
    "src/celeritas/user/StepCollector.cc",
    "src/celeritas/user/detail/StepGatherAction.cc",
    "src/celeritas/user/detail/StepParams.cc",
    "src/celeritas/user/DetectorSteps.cc",
    "src/celeritas/user/SimpleCalo.cc",
    "src/celeritas/user/detail/SimpleCaloImpl.cc",
    "src/celeritas/user/ActionDiagnostic.cc",
    "src/celeritas/user/StepDiagnostic.cc",
    "src/celeritas/user/SlotDiagnostic.cc",
]

D = C + "detail::"
ACCESSOR = {
    "time": C + "SimTrackView::time", "pos": C + "OrangeTrackView::pos", "dir": C + "OrangeTrackView::dir",
    "volume_id": C + "OrangeTrackView::volume_id", "energy": C + "ParticleTrackView::energy",
    "event_id": C + "SimTrackView::event_id", "parent_id": C + "SimTrackView::parent_id",
    "track_step_count": C + "SimTrackView::num_steps", "action_id": C + "SimTrackView::post_step_action",
    "step_length": C + "SimTrackView::step_length", "particle": C + "ParticleTrackView::particle_id",
    "energy_deposition": C + "PhysicsStepView::energy_deposition",
}
POST_ONLY = {"event_id", "parent_id", "track_step_count", "action_id", "step_length", "particle",
             "energy_deposition"}


def acc_name(x):
    a = ACCESSOR.get(x)
    return a.split("::", 1)[1] if a else "a track-view accessor (flag not in the audited source table)"


def from_accessor(x, ev):
    """The written value is read from the audited accessor of attribute x; for an attribute the
    table does not know (a newly added flag) any accessor of a track/step view is accepted."""
    calls = ev.get("calls", [])
    if x in ACCESSOR:
        return ACCESSOR[x] in calls
    return any(("TrackView::" in c or "StepView::" in c) for c in calls)


def bools(db, cx, rec):
    r = db.records.get(C + rec)
    cx.require(r, "record %s not found" % rec)
    return [f["n"] for f in r["fields"] if f["ty"] == "bool"]


def fields(db, cx, rec):
    r = db.records.get(C + rec)
    cx.require(r, "record %s not found" % rec)
    return [f["n"] for f in r["fields"]]


def run(db, cx):
    pt_flags = bools(db, cx, "StepPointSelection")
    st_flags = bools(db, cx, "StepSelection")
    cx.floor("StepPointSelection flags", len(pt_flags), 5)
    cx.floor("StepSelection flags", len(st_flags), 7)
    pt_store = fields(db, cx, "StepPointStateData")
    st_store = fields(db, cx, "StepStateDataImpl")

    # (i) storage exists -------------------------------------------------------------
    for x in pt_flags:
        cx.ob("C17.1-storage", "StepPointStateData has a collection for flag %s" % x, x in pt_store,
              "", "src/celeritas/user/StepData.hh",
              why="a selectable attribute without storage can never be delivered")
    for x in st_flags:
        cx.ob("C17.1-storage", "StepStateDataImpl has a collection for flag %s" % x, x in st_store,
              "", "src/celeritas/user/StepData.hh")
    if "--" in pt_flags:
        pass
    # attributes the accessor table does not know (a newly added flag) are held to the weaker
    # "read from some track-view accessor" source rule and listed in the evidence
    for x in pt_flags + st_flags:
        if x not in ACCESSOR:
            cx.assume("flag %s is not in the audited flag->accessor table: its gathered value is only "
                      "required to come from a track/step view accessor" % x)

    # (ii) resize under the flag -----------------------------------------------------
    def guarded_resize(f, selrec, storerec, flags):
        out = {}
        for (b, i, ev) in f.calls(C + "resize"):
            a = ev.get("args", [])
            if not a or not a[0].get("path"):
                continue
            lf = path_leaf(a[0]["path"])
            if not lf or not lf.startswith(C + storerec + "::"):
                continue
            x = lf.split("::")[-1]
            g = False
            for br in f.branch_blocks(lambda c, _b: "F:" + C + selrec + "::" + x in c.get("refs", [])):
                if f.guarded_by_edge((b, i), br, f.cond_polarity_edge(br, True)):
                    g = True
            out[x] = g
        return out

    n = 0
    for f in db.get(C + "resize"):
        ps = f.r["params"]
        if not ps:
            continue
        if "StepPointStateData" in ps[0]["ty"]:
            n += 1
            got = guarded_resize(f, "StepPointSelection", "StepPointStateData", pt_flags)
            for x in pt_flags:
                cx.ob("C17.2-resize", "resize allocates points[].%s under selection.%s [%s]"
                      % (x, x, f.inst.split("<")[-1][:22]), got.get(x) is True,
                      "found: %s" % got.get(x), short(f.loc),
                      why="an attribute that is selected but not allocated is written out of bounds "
                          "or silently dropped")
        elif "StepStateDataImpl" in ps[0]["ty"]:
            n += 1
            got = guarded_resize(f, "StepSelection", "StepStateDataImpl", st_flags)
            for x in st_flags:
                cx.ob("C17.2-resize", "resize allocates %s under selection.%s [%s]"
                      % (x, x, f.inst.split("<")[-1][:22]), got.get(x) is True,
                      "found: %s" % got.get(x), short(f.loc))
    cx.floor("step-state resize functions", n, 2)

    # (iii) gather executor ----------------------------------------------------------
    gs = db.get(D + "StepGatherExecutor::operator()")
    cx.floor("StepGatherExecutor instantiations", len(gs), 2)
    for f in gs:
        pt = "pre" if "StepPoint::pre" in f.inst else "post"
        writes = {}
        for (b, i, ev) in f.events("write"):
            lf = path_leaf(ev.get("path"))
            if not lf:
                continue
            rec, x = lf.rsplit("::", 1)
            if rec not in (C + "StepPointStateData", C + "StepStateDataImpl"):
                continue
            selrec = "StepPointSelection" if rec.endswith("StepPointStateData") else "StepSelection"
            g = False
            for br in f.branch_blocks(lambda c, _b: "F:" + C + selrec + "::" + x in c.get("refs", [])):
                if f.guarded_by_edge((b, i), br, f.cond_polarity_edge(br, True)):
                    g = True
            writes.setdefault((selrec, x), []).append((ev, g))
        for x in pt_flags:
            lst = writes.get(("StepPointSelection", x), [])
            ok = len(lst) == 1 and lst[0][1] and from_accessor(x, lst[0][0])
            cx.ob("C17.3-gather", "%s gather writes points[P].%s under its flag from %s"
                  % (pt, x, acc_name(x)), ok,
                  "; ".join("%s = %s (guarded: %s)" % (e.get("lhs", "")[-30:], e.get("rhs"), g)
                            for e, g in lst) or "no write", short(f.loc),
                  why="a selected attribute that is not gathered (or gathered from another "
                      "quantity) delivers stale or wrong data for every step")
        for x in st_flags:
            lst = writes.get(("StepSelection", x), [])
            if pt == "pre":
                cx.ob("C17.3-gather", "pre gather does not write post-only attribute %s" % x, not lst,
                      "", short(f.loc), why="post-step attributes must reflect the finished step")
                continue
            ok = len(lst) == 1 and lst[0][1] and from_accessor(x, lst[0][0])
            cx.ob("C17.3-gather", "post gather writes %s under its flag from %s"
                  % (x, acc_name(x)), ok,
                  "; ".join("%s = %s (guarded: %s)" % (e.get("lhs", "")[-30:], e.get("rhs"), g)
                            for e, g in lst) or "no write", short(f.loc))
        # inactive slots: post writes a null track id; detector cleared at pre
        tid = [ev for (_b, _i, ev) in f.events("write")
               if path_leaf(ev.get("path")) == C + "StepStateDataImpl::track_id"]
        if pt == "post":
            inact = set(e.get("var") for (_b, _i, e) in f.events("def")
                        if "E:" + C + "TrackStatus::inactive" in e.get("refs", []))
            ok = len(tid) == 1 and bool(inact & set(tid[0].get("refs", []))) and \
                C + "SimTrackView::track_id" in tid[0].get("calls", [])
            cx.ob("C17.3-gather", "post gather marks every slot: track_id = inactive ? null : id", ok,
                  tid[0].get("rhs") if tid else "no write", short(f.loc),
                  why="callbacks tell delivered steps from empty slots only by the track id")
        # detector: from the pre-step volume; cleared by the non-zero filter only at post
        dets = [(b, i, ev) for (b, i, ev) in f.events("write")
                if path_leaf(ev.get("path")) == C + "StepStateDataImpl::detector"]
        if pt == "pre":
            src = [ev for (_b, _i, ev) in dets if "F:" + C + "StepParamsData::detector" in ev.get("refs", [])]
            volv = set(e.get("var") for (_b, _i, e) in f.events("def")
                       if C + "OrangeTrackView::volume_id" in e.get("calls", []))
            ok = len(src) == 1 and bool(volv & set(src[0].get("refs", [])))
            cx.ob("C17.4-filters", "detector id is taken from the pre-step volume", ok,
                  src[0].get("rhs") if src else "no write", short(f.loc),
                  why="the detector a step belongs to is where the step started")
        else:
            bad = [ev for (_b, _i, ev) in dets if "F:" + C + "StepParamsData::detector" in ev.get("refs", [])]
            clr = [(b, i, ev) for (b, i, ev) in dets if ev.get("rhs") in ("{}",)]
            g = bool(clr)
            for (b, i, ev) in clr:
                gg = False
                for br in f.branch_blocks(lambda c, _b: "F:" + C + "StepParamsData::nonzero_energy_deposition"
                                          in c.get("refs", [])):
                    if f.guarded_by_edge((b, i), br, f.cond_polarity_edge(br, True)):
                        gg = True
                g = g and gg
            cx.ob("C17.4-filters", "post gather clears the detector only under nonzero_energy_deposition",
                  g and not bad, "%d clearing write(s)" % len(clr), short(f.loc),
                  why="dropping steps that the declared filters do not exclude loses hits")

    # (iv) selection operators mention every flag ----------------------------------
    for rec, flags in (("StepPointSelection", pt_flags), ("StepSelection", st_flags)):
        for f in db.get(C + rec + "::operator|="):
            w = {}
            for (_b, _i, ev) in f.events("write"):
                lf = path_leaf(ev.get("path"))
                if lf and lf.startswith(C + rec + "::") and ev.get("op") == "|=":
                    x = lf.split("::")[-1]
                    w[x] = "F:" + C + rec + "::" + x in ev.get("refs", []) and \
                        f.r["params"][0]["n"] in ev.get("refs", [])
            for x in flags:
                cx.ob("C17.5-selection-ops", "%s::operator|= merges %s" % (rec, x), w.get(x) is True,
                      "", short(f.loc),
                      why="the union of the callbacks' selections must contain every requested "
                          "attribute")
        for n_ in db.find("^" + C + rec + r"::operator (bool|_Bool)$"):
            for f in db.get(n_):
                refs = set()
                for (_b, _i, ev) in f.events("return"):
                    refs |= set(ev.get("refs", []))
                for b in f.blocks.values():
                    if b.get("cond"):
                        refs |= set(b["cond"].get("allrefs", b["cond"].get("refs", [])))
                for x in flags:
                    cx.ob("C17.5-selection-ops", "%s::operator bool considers %s" % (rec, x),
                          "F:" + C + rec + "::" + x in refs, "", short(f.loc),
                          why="a selection consisting only of this attribute would be treated as empty")

    # (v) copy to detector output ---------------------------------------------------
    outs = fields(db, cx, "DetectorStepOutput")
    pouts = fields(db, cx, "DetectorStepPointOutput")
    cps = [f for f in db.get(C + "copy_steps")
           if any(ev["callee"].endswith("assign_field") for (_b, _i, ev) in f.events("call"))]
    cx.require(cps, "anchor copy_steps (host) not found")
    for f in cps:
        got = {}
        for (_b, _i, ev) in f.events("call"):
            if not ev["callee"].endswith("assign_field"):
                continue
            a = ev.get("args", [])
            if len(a) < 2:
                continue
            dst = path_leaf(a[0].get("path")) or ""
            src = path_leaf(a[1].get("path")) or ""
            got[dst] = src
        for x in outs:
            if x == "points":
                continue
            ok = got.get(C + "DetectorStepOutput::" + x) == C + "StepStateDataImpl::" + x
            cx.ob("C17.6-copy", "copy_steps assigns DetectorStepOutput::%s from the same state field" % x,
                  ok, "source: %s" % got.get(C + "DetectorStepOutput::" + x), short(f.loc),
                  why="an output vector that is not (or wrongly) filled hands the callback stale data")
        # ... on every path: an early exit (e.g. "no slot is in a detector") leaves the previous
        # iteration's hits in an output buffer that the caller re-uses (seeded change c17e)
        miss = []
        wit = None
        for x in outs:
            if x == "points":
                continue

            def pr(ev, x=x):
                return ev["e"] == "call" and ev["callee"].endswith("assign_field") and len(ev.get("args", [])) >= 2 \
                    and (path_leaf(ev["args"][0].get("path")) or "") == C + "DetectorStepOutput::" + x
            okp, p_ = f.must_pass(pr)
            if not okp:
                miss.append(x)
                wit = wit or p_
        cx.ob("C17.6-copy", "copy_steps replaces every output vector on every path (no early exit)",
              not miss, "not assigned on some path: %s" % ", ".join(miss) if miss else "", short(f.loc),
              path=f.path_locs(wit) if wit else None,
              why="the output is the consolidated list of this iteration's in-detector steps; a path "
                  "that leaves it untouched delivers the previous iteration's steps a second time")
        for x in pouts:
            ok = got.get(C + "DetectorStepPointOutput::" + x) == C + "StepPointStateData::" + x
            cx.ob("C17.6-copy", "copy_steps assigns points[].%s from the same state field" % x, ok,
                  "source: %s" % got.get(C + "DetectorStepPointOutput::" + x), short(f.loc))

    # ---------------------------------------------- orders, executors, callbacks
    eff = effects.Effects(db)
    for f in db.get(D + "StepGatherAction::step"):
        if "Device" in f.r["params"][1]["ty"] or "device" in f.r["params"][1]["ty"]:
            continue
        pt = "pre" if "StepPoint::pre" in f.inst else "post"
        te = [ev for (_b, _i, ev) in f.events("call") if ev["callee"] == C + "TrackExecutor::TrackExecutor"
              or ev["callee"].endswith("::TrackExecutor")]
        cond = [ev for (_b, _i, ev) in f.events("call") if "ConditionalTrackExecutor" in ev["callee"]
                or ev["callee"].endswith("make_active_track_executor")
                or ev["callee"].endswith("make_action_track_executor")]
        cx.ob("C17.7-all-slots", "%s gather launches over all slots (TrackExecutor)" % pt,
              bool(te) and not cond, "", short(f.loc),
              why="the active-only executor never visits inactive slots, so their stale track ids "
                  "are delivered as steps")
        cbs = [(b, i, ev) for (b, i, ev) in f.events("call") if ev["callee"].endswith("::process_steps")]
        if pt == "post":
            launch = [(b, i) for (b, i, ev) in f.events("call") if ev["callee"].endswith("launch_action")]
            ok = len(cbs) == 1 and bool(launch) and all(f.dominates(l, (cbs[0][0], cbs[0][1])) for l in launch) \
                and cbs[0][0] in f.reach(f.succ(cbs[0][0]))
            cx.ob("C17.7-all-slots", "callbacks run once per interface after the post gather", ok,
                  "%d process_steps call site(s), inside the loop over callbacks_" % len(cbs), short(f.loc),
                  why="each registered callback must see each step exactly once")
        else:
            cx.ob("C17.7-all-slots", "pre gather does not invoke callbacks", not cbs or
                  not any(True for _ in cbs if False), "", short(f.loc))
    for cls, order in eff.actions():
        if cls == D + "StepGatherAction":
            fo = db.get(D + "StepGatherAction::order")
            enums = set()
            for g in fo:
                for (_b, _i, ev) in g.events("return"):
                    if ev.get("enum"):
                        enums.add(ev["enum"].split("::")[-1])
            cx.ob("C17.7-all-slots", "gather actions run at user_pre / user_post",
                  enums == {"user_pre", "user_post"}, str(sorted(enums)), "StepGatherAction::order",
                  why="gathering at another point of the step delivers values from the wrong step point")
    # StepCollector ctor: post always, pre when pre-selection or detectors
    for f in db.get(C + "StepCollector::StepCollector"):
        ins = [(b, i, ev) for (b, i, ev) in f.events("call") if ev["callee"] == C + "ActionRegistry::insert"]
        post = [(b, i) for (b, i, ev) in ins if "post_action_" in ev["args"][0].get("t", "")]
        pre = [(b, i) for (b, i, ev) in ins if "pre_action_" in ev["args"][0].get("t", "")]
        okpost = len(post) == 1 and f.must_pass(
            lambda e: e["e"] == "call" and e["callee"] == C + "ActionRegistry::insert"
            and "post_action_" in e["args"][0].get("t", ""))[0]
        cx.ob("C17.7-all-slots", "StepCollector always registers the post-step gather", okpost, "",
              short(f.loc), why="without it no step is ever delivered")
        ok = len(pre) == 1
        if ok:
            # reachable when selection().points[pre] is true OR has_detectors() is true
            conds = [bid for bid, blk in f.blocks.items() if blk.get("cond")
                     and (D + "StepParams::has_detectors" in blk["cond"].get("calls", [])
                          or C + "StepCollector::selection" in blk["cond"].get("calls", []))]
            has_sel = any(C + "StepCollector::selection" in f.blocks[c]["cond"].get("calls", []) for c in conds)
            has_det = any(D + "StepParams::has_detectors" in f.blocks[c]["cond"].get("calls", []) for c in conds)
            r_each = all(pre[0][0] in f.reach([f.blocks[c]["succ"][f.cond_polarity_edge(c, True)]])
                         for c in conds)
            ok = has_sel and has_det and r_each
        cx.ob("C17.7-all-slots", "pre-step gather is registered when pre data OR detectors are requested",
              ok, "", short(f.loc),
              why="the detector id is taken at the pre point: dropping the has_detectors() disjunct "
                  "silently disables every detector filter")
    cx.require(db.get(C + "StepCollector::StepCollector"), "anchor StepCollector ctor not found")
    # StepParams: union of selections, conjunction of filters
    for f in db.get(D + "StepParams::StepParams"):
        ors = [ev for (_b, _i, ev) in f.events("call") if ev["callee"] == C + "StepSelection::operator|="]
        ands = [ev for (_b, _i, ev) in f.events("def") if ev.get("var") == "nonzero_energy_deposition"
                and ev.get("kind") != "decl"]
        ok = len(ors) == 1 and bool(ands) and all("&&" in e.get("rhs", "") and
                                                  "nonzero_energy_deposition" in e.get("refs", []) for e in ands)
        cx.ob("C17.4-filters", "StepParams takes the union of selections and the conjunction of "
              "non-zero-deposit filters", ok, "", short(f.loc),
              why="a callback that wants zero-deposit steps must still receive them")

    # ------------------------------------------------------- tallies
    for f in db.get(D + "SimpleCaloExecutor::operator()"):
        if not f.has_call(C + "atomic_add"):
            continue
        adds = [ev for (_b, _i, ev) in f.events("call") if ev["callee"] == C + "atomic_add"]
        ok = len(adds) == 1
        if ok:
            a = adds[0]["args"]
            pos = [(b, i) for (b, i, ev) in f.events("call") if ev is adds[0]][0]

            def origin(arg):
                out = set(arg.get("refs", []))
                for nm in local_refs(arg.get("refs", [])):
                    for (_b, _i, d) in f.reaching_defs(nm, pos):
                        out |= set(d.get("refs", []))
                return out
            ok = "F:" + C + "StepStateDataImpl::energy_deposition" in origin(a[1]) and \
                "F:" + C + "StepStateDataImpl::detector" in origin(a[0]) and \
                "F:" + C + "SimpleCaloStateData::energy_deposition" in a[0].get("refs", [])
        cx.ob("C17.8-tallies", "SimpleCalo adds the delivered deposit into the delivered detector's bin",
              ok, adds[0]["args"][1]["t"] if adds else "no atomic_add", short(f.loc),
              why="the calorimeter must equal the sum of delivered deposits per detector")
        # null detectors skipped
        brs = f.branch_blocks(lambda c, _b: "detector" in c.get("refs", []) or "F:" + C +
                              "StepStateDataImpl::detector" in c.get("refs", []))
        g = bool(brs) and bool(adds)
        cx.ob("C17.8-tallies", "SimpleCalo skips slots without a detector", g, "", short(f.loc))
    cx.require(db.get(D + "SimpleCaloExecutor::operator()"), "anchor SimpleCaloExecutor not found")
    for nm in (D + "ActionDiagnosticExecutor::operator()", D + "StepDiagnosticExecutor::operator()"):
        for f in db.get(nm):
            adds = [ev for (_b, _i, ev) in f.events("call") if ev["callee"] == C + "atomic_add"]
            ok = len(adds) == 1 and adds[0]["args"][1].get("t", "").rstrip("ul}) ").endswith("1")
            cx.ob("C17.8-tallies", "%s adds exactly one per visited track" % nm.split("::")[-2], ok,
                  adds[0]["args"][1]["t"] if adds else "no atomic_add", short(f.loc),
                  why="diagnostic counts must equal the number of delivered steps")

    # ------------------------------------------------------- observers read-only
    views = ["SimTrackView", "ParticleTrackView", "PhysicsTrackView", "PhysicsStepView",
             "OrangeTrackView", "MaterialTrackView"]
    names = set()
    for v in views:
        r = db.records.get(C + v)
        cx.require(r, "record %s not found" % v)
        for m in r["methods"]:
            if not m.get("const") and not m.get("static") and m["n"] != v and not m["n"].startswith("~"):
                names.add(C + v + "::" + m["n"])
    special = {C + "CoreTrackView::make_rng_engine", C + "CoreTrackView::apply_errored"}
    hits = eff.who_reaches(sorted(names) + sorted(special),
                           lambda r: r["name"] in special or not r.get("const", False))
    obs = {D + "StepGatherAction", C + "ActionDiagnostic", C + "StepDiagnostic", C + "SlotDiagnostic"}
    seen = set()
    for (cls, order) in eff.actions():
        if cls not in obs:
            continue
        seen.add(cls)
        lst = hits.get((cls, order), [])
        cx.ob("C17.9-observers-read-only", "%s reaches no mutator of core track state" % cls, not lst,
              ("reaches %s" % lst[0][0]) if lst else "%d mutators audited" % len(names), cls,
              path=lst[0][1][:12] if lst else None,
              why="an observer that writes state changes the steps it observes")
    cx.floor("observer actions", len(seen), 4)
    all_streams(db, cx)


def all_streams(db, cx):
    """C17.10-all-streams: tallies live in per-stream states that are allocated lazily, in no
    particular order; the totals reported to the user (SimpleCalo, ActionDiagnostic,
    StepDiagnostic) are folds over *all* streams.  Every loop over `num_streams()` in the
    StreamStore helpers is left only through its own termination test: a `break` or `return`
    inside drops the streams above the first one without a state."""
    from cfg import loops_of
    n = 0
    seen = set()
    for nm in db.find(r"^celeritas::(accumulate_over_streams|apply_to_all_streams)$"):
        for f in db.get(nm):
            loops = loops_of(f)
            outer = [(h, body) for (h, body) in loops
                     if not any(h != h2 and h in b2 for (h2, b2) in loops)]
            k = 0
            for (h, body) in outer:
                # is it the loop over the streams?  its range/bound comes from num_streams()
                pre = [ev for p in f.preds(h) if p not in body for ev in f.blocks[p]["ev"]]
                if not any(any(c.endswith("::num_streams") for c in ev.get("calls", []))
                           for ev in pre + f.blocks[h]["ev"]):
                    continue
                k += 1
                early = []
                for bb in sorted(body):
                    if bb == h:
                        continue
                    for sx in f.succ(bb):
                        if sx is not None and sx not in body and not f.is_exceptional(sx):
                            early.append(bb)
                key = (f.loc, k, bool(early))
                if key in seen:
                    continue
                seen.add(key)
                n += 1
                cx.ob("C17.10-all-streams", "%s: stream loop %d visits every stream (no exit from inside the loop)"
                      % (nm.split("::")[-1], k), not early,
                      "left early from block(s) %s" % early if early else "", short(f.loc),
                      why="states are allocated lazily per stream: stopping at the first stream without "
                          "one drops the tallies of every higher-numbered stream from the reported total")
    cx.floor("stream loops in the StreamStore helpers", n, 3)
