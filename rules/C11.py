"""C11 - the reported safety distance is conservative (structural clauses)."""
from common import C, short, local_refs, accessor_summary
from cfg import path_leaf
from facts import AnalysisBroken
import witness

EXPLANATION = (
    "Compile-time witness: every surface type whose simple_safety() is true belongs to the set "
    "for which the normal-ray construction is exact (planes, spheres, circular cylinders), "
    "enumerated from the SurfaceType enum so that an unclassified new type is an error. CFG rules: "
    "the per-surface and per-volume zero-safety guards dominate the computation; the volume flag "
    "is the AND over all faces; the volume safety is the minimum over all faces starting from "
    "+inf; the track-level safety is the minimum over all levels 0..level; the MSC displacement "
    "uses exactly that safety.")
NOT_DECIDED = ('arithmetic of calc_normal/calc_intersections for the admitted surfaces; tolerances. One known finding (degenerate +infinity return at a sphere centre / cylinder axis) is listed in known_findings.json')

TECHNIQUE = ('compile-time static_assert witness over the surface-type traits; CFG guard dominance and reaching-definition shape (running min from +inf inside the loop) for the safety reductions')

UNITS = [
    "src/orange/OrangeParams.cc",
    "src/orange/detail/UnitInserter.cc",
    "src/celeritas/global/alongstep/AlongStepUniformMscAction.cc",
    "src/celeritas/geo/detail/BoundaryAction.cc",
]

D = C + "detail::"
ADMISSIBLE = ["PlaneAligned<T>", "Plane", "SphereCentered", "Sphere", "CylCentered<T>",
              "CylAligned<T>"]


def run(db, cx):
    # ------------------------------------------------------------------ 1. witness
    en = db.enums.get(C + "SurfaceType")
    cx.require(en, "enum SurfaceType not found")
    sts = [e["n"] for e in en["enumerators"] if e["n"] != "size_"]
    cx.floor("SurfaceType enumerators", len(sts), 18)
    src = ['#include "corecel/Macros.hh"', '#include "corecel/Types.hh"',
           '#include "orange/surf/SurfaceTypeTraits.hh"', '#include "orange/surf/detail/AllSurfaces.hh"',
           "using namespace celeritas;",
           "template<class S> struct Adm { static constexpr bool value = false; };",
           "template<Axis T> struct Adm<PlaneAligned<T>> { static constexpr bool value = true; };",
           "template<> struct Adm<Plane> { static constexpr bool value = true; };",
           "template<> struct Adm<SphereCentered> { static constexpr bool value = true; };",
           "template<> struct Adm<Sphere> { static constexpr bool value = true; };",
           "template<Axis T> struct Adm<CylCentered<T>> { static constexpr bool value = true; };",
           "template<Axis T> struct Adm<CylAligned<T>> { static constexpr bool value = true; };"]
    for st in sts:
        src.append("static_assert(!SurfaceTypeTraits<SurfaceType::%s>::type::simple_safety() || "
                   "Adm<SurfaceTypeTraits<SurfaceType::%s>::type>::value, \"W:%s\");" % (st, st, st))
        src.append("static_assert(SurfaceTypeTraits<SurfaceType::%s>::type::surface_type() == "
                   "SurfaceType::%s, \"W:type-%s\");" % (st, st, st))
    failed, other = witness.compile_witness("\n".join(src) + "\n", "src/orange/OrangeParams.cc")
    if other:
        raise AnalysisBroken("witness unit does not compile (new surface type without traits?): %s"
                             % other[:3])
    for st in sts:
        cx.ob("C11.1-admissible-surfaces", "SurfaceType::%s: simple_safety() implies an admissible "
              "surface class" % st, st not in failed,
              "static_assert(!S::simple_safety() || S in {%s})" % ", ".join(ADMISSIBLE),
              "src/orange/surf/SurfaceTypeTraits.hh",
              why="the normal-ray construction over-estimates the distance to cones, general "
                  "quadrics and involutes: a sphere of that radius would leave the volume")
        cx.ob("C11.1-admissible-surfaces", "SurfaceTypeTraits<%s>::type::surface_type() == %s" % (st, st),
              ("type-" + st) not in failed, "", "src/orange/surf/SurfaceTypeTraits.hh")

    # ------------------------------------------------------- 2. per-surface guard
    fs = db.get(D + "CalcSafetyDistance::operator()")
    cx.floor("CalcSafetyDistance instantiations", len(fs), 10)
    ret_audit = {}
    for f in fs:
        tag = f.inst.split("<")[-1][:40]
        brs = f.branch_blocks(lambda c, _b: any(x.endswith("::simple_safety") for x in c.get("calls", [])))
        if not brs:
            # `if (!S::simple_safety())` folds to a constant: one edge is pruned
            consts = [bid for bid, blk in f.blocks.items() if blk.get("cond")
                      and "simple_safety" in blk["cond"].get("t", "")]
            brs = consts
        ok = False
        d = "no simple_safety() guard"
        for br in brs:
            blk = f.blocks[br]
            c = blk["cond"]
            succ = blk["succ"]
            # edge where simple_safety() is false must return literal 0 before anything else
            e_false = f.cond_polarity_edge(br, False)
            tgt = succ[e_false]
            if tgt is None:
                ok = True      # statically true for this surface: guard edge pruned
                d = "simple_safety() is constant true: zero-return edge pruned"
                continue
            okp, _p = f.must_pass(lambda e: e["e"] == "return" and e.get("lit") in ("0", "0.0"),
                                  start=(tgt, -1))
            calc = [(b, i) for (b, i, ev) in f.events("call")
                    if ev["callee"].endswith("::calc_normal") or ev["callee"].endswith("::calc_intersections")]
            guarded = all(succ[1 - e_false] is None or f.guarded_by_edge(p, br, 1 - e_false) for p in calc)
            ok = okp and guarded
            d = "!simple_safety() edge returns 0: %s; computation behind the other edge: %s" % (okp, guarded)
        cx.ob("C11.2-surface-guard", "CalcSafetyDistance<%s> returns 0 unless simple_safety()" % tag,
              ok, d, short(f.loc),
              why="computing a 'safety' for a non-admissible surface over-estimates it")
        # every value the functor can return is conservative by construction: literal 0, or the
        # nearest intersection along the normal ray (the only computed value)
        for (b, i, ev) in f.events("return"):
            lit0 = ev.get("lit") in ("0", "0.0")
            nearest = any(x.endswith("::min_element") or x.endswith("::min") for x in ev.get("calls", []))
            if nearest:
                # the minimum is taken over the result of calc_intersections
                src = False
                for v in local_refs(ev.get("refs", [])):
                    for (_b, _i, dd) in f.reaching_defs(v, (b, i)):
                        if any(x.endswith("::calc_intersections") for x in dd.get("calls", [])):
                            src = True
                nearest = src
            key = " ".join((ev.get("t") or "").split())
            r = ret_audit.setdefault(key, {"ok": True, "n": 0, "loc": short(ev["loc"]), "tags": []})
            r["ok"] = r["ok"] and (lit0 or nearest)
            r["n"] += 1
            r["tags"].append(tag)
    for key, r in sorted(ret_audit.items()):
        cx.ob("C11.2-safety-returns", "CalcSafetyDistance returns `%s`: 0 or the nearest intersection "
              "along the normal" % key, r["ok"], "%d return statements in %d instantiations" % (
                  r["n"], len(set(r["tags"]))), r["loc"],
              why="any other value (a constant such as infinity for the degenerate case) is not "
                  "bounded by the distance to the surface")

    # ---------------------------------------------------- 3. volume flag = AND over faces
    for f in db.get(D + "UnitInserter::insert_volume"):
        accs = set(ev.get("var") for (_b, _i, ev) in f.events("def")
                   if "SimpleSafetyGetter" in ev.get("rhs", "") or any("SimpleSafetyGetter" in c_
                                                                       for c_ in ev.get("calls", [])))
        cx.require(len(accs) == 1, "UnitInserter::insert_volume: simple-safety accumulator not found")
        accv = next(iter(accs))
        folds = [(b, i, ev) for (b, i, ev) in f.events("def") if ev.get("var") == accv]
        init = [ev for (_b, _i, ev) in folds if ev.get("kind") == "decl"]
        upd = [(b, i, ev) for (b, i, ev) in folds if ev.get("kind") != "decl"]
        ok_init = len(init) == 1 and (init[0].get("rhs") in ("true",) or
                                      "supports_simple_safety" in init[0].get("rhs", ""))
        ok_upd = len(upd) >= 1 and all(
            accv in ev.get("refs", []) and "&&" in ev.get("rhs", "")
            and any("SimpleSafetyGetter" in c for c in ev.get("calls", []) + [ev.get("rhs", "")])
            for (_b, _i, ev) in upd)
        in_loop = all(b in f.reach(f.succ(b)) for (b, _i, _e) in upd)
        cx.ob("C11.3-volume-flag", "simple_safety accumulator is &&-folded over every face", ok_init
              and ok_upd and in_loop, "init `%s`; update `%s`; inside the face loop: %s" %
              (init[0].get("rhs") if init else "?", upd[0][2].get("rhs") if upd else "?", in_loop),
              short(f.loc),
              why="with || (or a fold outside the loop) one simple face marks the whole volume "
                  "simple and the other faces are ignored by the safety")
        sets = [(b, i, ev) for (b, i, ev) in f.events("write")
                if path_leaf(ev.get("path")) == C + "VolumeRecord::flags"
                and any(r.endswith("Flags::simple_safety") or r.endswith("VolumeRecord::simple_safety")
                        for r in ev.get("refs", [])) and ev.get("op") == "|="]
        ok = bool(sets)
        for (b, i, ev) in sets:
            g = False
            for br in f.branch_blocks(lambda c, _b: local_refs(c.get("refs", [])) == {accv}):
                if f.guarded_by_edge((b, i), br, f.cond_polarity_edge(br, True)):
                    g = True
            ok = ok and g
        cx.ob("C11.3-volume-flag", "flag bit is set only when the accumulator is true", ok,
              "%d site(s)" % len(sets), short(f.loc))
    cx.require(db.get(D + "UnitInserter::insert_volume"), "anchor insert_volume not found")
    for f in db.find(r"SimpleSafetyGetter::operator\(\)"):
        for g in db.get(f):
            rets = [ev for (_b, _i, ev) in g.events("return")]
            ok = len(rets) == 1 and any(c.endswith("::simple_safety") for c in rets[0].get("calls", []))
            cx.ob("C11.3-volume-flag", "SimpleSafetyGetter returns S::simple_safety() [%s]"
                  % g.inst.split("<")[-1][:30], ok, rets[0].get("t", "") if rets else "", short(g.loc))

    # ------------------------------------------------------------- 4. per-volume guard
    for name, guard in ((C + "SimpleUnitTracker::safety", True), (C + "RectArrayTracker::safety", False)):
        fs = db.get(name)
        cx.require(fs, "anchor %s not found" % name)
        for f in fs:
            if guard:
                brs = f.branch_blocks(lambda c, _b: C + "VolumeView::simple_safety" in c.get("calls", []))
                cx.require(brs, "%s: simple_safety() test not found" % name)
                br = brs[0]
                tgt = f.blocks[br]["succ"][f.cond_polarity_edge(br, False)]
                okp, _p = f.must_pass(lambda e: e["e"] == "return" and e.get("lit") in ("0", "0.0"),
                                      start=(tgt, -1))
                cx.ob("C11.4-volume-guard", "%s returns 0 for volumes without simple safety"
                      % name.split("::")[-2], okp, "", short(f.loc),
                      why="for such volumes the face-wise minimum is not a lower bound")
            # running minimum over all faces starting from +inf
            rets = [(b, i, ev) for (b, i, ev) in f.events("return") if ev.get("lit") is None]
            okm = False
            d = ""
            for (b, i, ev) in rets:
                v = local_refs(ev.get("refs", []))
                if len(v) != 1:
                    continue
                var = next(iter(v))
                defs = f.reaching_defs(var, (b, i))
                init_inf = any(d_[2].get("kind") == "decl" and "infinity" in d_[2].get("rhs", "")
                               for d_ in defs)
                upd = [d_ for d_ in defs if d_[2].get("kind") != "decl"]
                all_min = bool(upd) and all(
                    (C + "min" in d_[2].get("calls", []) or "std::min" in d_[2].get("calls", []))
                    and var in d_[2].get("refs", []) for d_ in upd)
                in_loop = all(d_[0] in f.reach(f.succ(d_[0])) for d_ in upd)
                okm = init_inf and all_min and in_loop and len(defs) == len(upd) + 1
                d = "`%s` starts at +inf, updated only by min(%s, .) inside the loop" % (var, var)
            cx.ob("C11.4-volume-guard", "%s is the minimum over all faces from +inf"
                  % name.split("::")[-2], okm, d, short(f.loc),
                  why="any other reduction (max, last value, early exit) can exceed the distance "
                      "to the nearest face")
    # loop ranges over vol.faces()
    for f in db.get(C + "SimpleUnitTracker::safety"):
        rng = [ev for (_b, _i, ev) in f.events("def") if ev.get("var", "").startswith("__range")]
        ok = any(C + "VolumeView::faces" in ev.get("calls", []) for ev in rng)
        cx.ob("C11.4-volume-guard", "SimpleUnitTracker::safety iterates vol.faces()", ok,
              str([ev.get("rhs") for ev in rng]), short(f.loc))

    # ----------------------------------------------------------------- 5. all levels
    allfs = db.get(C + "OrangeTrackView::find_safety")
    fs = []
    for f in allfs:
        delegates = any(ev["callee"] == C + "OrangeTrackView::find_safety" for (_b, _i, ev) in f.events("call"))
        rets = [ev for (_b, _i, ev) in f.events("return")]
        if delegates:
            ok = all(C + "OrangeTrackView::find_safety" in r.get("calls", []) for r in rets)
            cx.ob("C11.5-all-levels", "find_safety%s returns what the all-levels find_safety() returns"
                  % (f.sig.split(")")[0] + ")"), ok, str([r.get("t") for r in rets]), short(f.loc),
                  why="a radius-limited variant may only shorten the work, not drop levels")
        else:
            fs.append(f)
    cx.require(fs, "anchor OrangeTrackView::find_safety() not found")
    from cfg import loops_of
    for f in fs:
        # the loop over levels may not be left early: a level that is skipped may hold the nearest wall
        early = []
        for (h, body) in loops_of(f):
            for bb in body:
                if bb == h:
                    continue
                for sx in f.succ(bb):
                    if sx not in body:
                        early.append(f.blocks[bb].get("tloc") or str(bb))
        cx.ob("C11.5-all-levels", "find_safety%s visits every level (no early exit from the level loop)"
              % (f.sig.split(")")[0] + ")"), not early, "exits from inside the loop: %s" % early if early else "",
              short(f.loc),
              why="in ORANGE a daughter universe is truncated by its parent volume and does not know "
                  "that wall: stopping at a deeper level over-estimates the safety near it")
        rets = [(b, i, ev) for (b, i, ev) in f.events("return")]
        ok = False
        d = ""
        for (b, i, ev) in rets:
            v = local_refs(ev.get("refs", []))
            if len(v) != 1:
                continue
            var = next(iter(v))
            defs = f.reaching_defs(var, (b, i))
            init_inf = any(d_[2].get("kind") == "decl" and "infinity" in d_[2].get("rhs", "") for d_ in defs)
            upd = [d_ for d_ in defs if d_[2].get("kind") != "decl"]
            all_min = bool(upd) and all(C + "min" in d_[2].get("calls", []) and var in d_[2].get("refs", [])
                                        for d_ in upd)
            rng = [e for (_b, _i, e) in f.events("def") if e.get("var", "").startswith("__range")]
            full = any(C + "OrangeTrackView::level" in e.get("calls", []) and "+ 1" in e.get("rhs", "")
                       for e in rng)
            ok = init_inf and all_min and full
            d = "min over %s" % [e.get("rhs") for e in rng]
        cx.ob("C11.5-all-levels", "find_safety() folds min over levels 0..level()", ok, d, short(f.loc),
              why="skipping the deepest (or any) level ignores a wall of a daughter universe that "
                  "may be closer")
        # each level's safety comes from that level's tracker with that level's position/volume
        lam = [g for n in db.find(r"^celeritas::OrangeTrackView::find_safety::\(lambda") for g in db.get(n)]
        ok = any(any(ev["callee"].endswith("::safety") for (_b, _i, ev) in g.events("call")) for g in lam)
        cx.ob("C11.5-all-levels", "each level asks its own tracker for the safety", ok, "", short(f.loc))

    # ------------------------------------------------------- 6. displacement bound
    MOVE = C + "OrangeTrackView::move_internal"
    callers = [(f, ev) for f, ev in db.callers_of(MOVE)
               if len(ev.get("args", [])) == 1 and "Array" in ev.get("sig", "")]
    cx.floor("callers of move_internal(Real3)", len(callers), 2)
    for f, ev in callers:
        ok = f.name in (C + "UrbanMsc::apply_step", C + "FieldPropagator::operator()")
        cx.ob("C11.6-displacement", "move_internal(pos) <- %s" % f.name, ok, "", short(ev["loc"]),
              why="only MSC displacement (bounded by the safety) and the field propagator (bounded "
                  "by its own boundary search) may move a track without a boundary search")
    for f in db.get(C + "UrbanMsc::apply_step"):
        mv = [(b, i, ev) for (b, i, ev) in f.calls(MOVE) if len(ev.get("args", [])) == 1]
        cx.require(mv, "UrbanMsc::apply_step no longer displaces the track")
        for (b, i, ev) in mv:
            g = False
            for br in f.branch_blocks(lambda c, _b: c.get("renum", "").endswith("Action::displaced")
                                      or "displaced" in c.get("t", "")):
                c = f.blocks[br]["cond"]
                want = c.get("op") != "!="
                if f.guarded_by_edge((b, i), br, f.cond_polarity_edge(br, want)):
                    g = True
            cx.ob("C11.6-displacement", "displacement happens only on the `displaced` edge", g, "",
                  short(ev["loc"]))
    lam = [g for n in db.find(r"^celeritas::UrbanMsc::apply_step::\(lambda") for g in db.get(n)]
    found = False
    for g in lam:
        sc = [ev for (_b, _i, ev) in g.events("call") if ev["callee"].endswith("UrbanMscScatter::UrbanMscScatter")]
        if not sc:
            continue
        found = True
        svars = set(ev.get("var") for (_b, _i, ev) in g.events("def")
                    if C + "OrangeTrackView::find_safety" in ev.get("calls", []))
        sdefs = [ev for (_b, _i, ev) in g.events("def") if ev.get("var") in svars]
        ok = bool(sdefs) and all(
            (ev.get("kind") == "decl" and ev.get("lit") in ("0", "0.0")) or
            C + "OrangeTrackView::find_safety" in ev.get("calls", []) for ev in sdefs)
        uses = any(svars & set(a.get("refs", [])) for ev in sc for a in ev.get("args", []))
        cx.ob("C11.6-displacement", "the safety handed to UrbanMscScatter is geo.find_safety() or 0",
              ok and uses, str([ev.get("rhs") for ev in sdefs]), short(g.loc),
              why="any other bound lets the lateral displacement leave the volume")
    cx.require(found, "UrbanMsc::apply_step: UrbanMscScatter construction not found")
