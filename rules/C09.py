"""C09 - only one clause is decided: the bounding-zone algebra that the CSG unit builder uses to
derive each volume's bounding box (and the "known inside" box) from its daughters is SOUND for
all boxes: known-inside regions are never over-claimed and known-outside regions never
under-covered.  The surface emission of the primitives, transformation, simplification and
de-duplication of surfaces are numeric and are not decided."""
import itertools

from astutil import OutOfVocabulary, strip, show, walk
from common import C, short

LEVEL_TEXT = (
    "Static soundness check of the bounding-zone set algebra (BoundingZone.cc) by exact "
    "propositional interpretation: each arm of calc_intersection / calc_union on zones and each "
    "return of the box helpers calc_difference / calc_union(shrink|grow) is interpreted from the "
    "AST as a set expression over the interior/exterior boxes of its operands and compared, for "
    "every point classification consistent with interior <= region <= exterior, with the set the "
    "zone is documented to bound. Decides only this clause of C09 (a volume's bounding box must "
    "enclose the volume; a 'known inside' box must lie inside it); the emission, transformation, "
    "simplification and de-duplication of surfaces are NOT decided.")
EXPLANATION = LEVEL_TEXT
NOT_DECIDED = ("surfaces and senses emitted per primitive, surface transformation/simplification, "
               "soft de-duplication, logic pruning, daughter placement: numeric construction "
               "pipeline; box arithmetic inside calc_intersection/calc_union of BoundingBoxUtils "
               "(taken as exact intersection / enclosing union)")
TECHNIQUE = ("exact propositional (truth-table) interpretation of the bounding-zone set algebra "
             "read from the AST: soundness of every arm and helper return for all boxes")

UNITS = ["src/orange/orangeinp/detail/BoundingZone.cc", "src/orange/surf/SurfaceClipper.cc"]
NS = C + "orangeinp::detail::"
ANON = NS + "(anon)::"
BBOX_AND = C + "calc_intersection"
BBOX_OR = C + "calc_union"


# ---------------------------------------------------------------------------------------------
# set expressions: ("atom", name) | ("empty",) | ("all",) | (op, kind, x, y) with op in and/or/diff and
# kind in exact/shrink/grow
def box_expr(n, atoms, opvar=None, opval=None):
    """Translate a BBox-valued AST node into a set expression."""
    n = strip(n, also=("CXXConstructExpr",)) if n["k"] == "CXXConstructExpr" and len(n["c"]) == 1 else strip(n)
    k = n["k"]
    if k == "CXXConstructExpr":
        if len(n["c"]) == 0:
            return ("empty",)
        if len(n["c"]) == 1:
            return box_expr(n["c"][0], atoms, opvar, opval)
        raise OutOfVocabulary("C09: box constructed from values: " + show(n))
    if k in ("CXXTemporaryObjectExpr", "InitListExpr") and not n["c"]:
        return ("empty",)
    if k in ("DeclRefExpr", "MemberExpr"):
        key = show(n)
        if key in atoms:
            return ("atom", atoms[key])
        raise OutOfVocabulary("C09: unknown box operand " + key)
    if k == "ConditionalOperator":
        c = cond_value(n["c"][0], {}, opvar, opval)
        if c is None:
            raise OutOfVocabulary("C09: undecided conditional box expression " + show(n))
        return box_expr(n["c"][1] if c else n["c"][2], atoms, opvar, opval)
    if k == "CallExpr":
        callee = n.get("callee", "")
        args = n["c"][1:]
        if callee.endswith("::from_infinite"):
            return ("all",)
        if callee == BBOX_AND and len(args) == 2:
            return ("and", "exact", box_expr(args[0], atoms, opvar, opval), box_expr(args[1], atoms, opvar, opval))
        if callee == BBOX_OR and len(args) == 2:
            return ("or", "grow", box_expr(args[0], atoms, opvar, opval), box_expr(args[1], atoms, opvar, opval))
        if callee in (ANON + "calc_union", ANON + "calc_difference") and len(args) == 3:
            kind = boxop(args[2])
            return ("or" if callee.endswith("calc_union") else "diff", kind,
                    box_expr(args[0], atoms, opvar, opval), box_expr(args[1], atoms, opvar, opval))
    if k == "CXXMemberCallExpr" and n.get("callee", "").endswith("::from_infinite"):
        return ("all",)
    raise OutOfVocabulary("C09: box expression outside the vocabulary: " + show(n))


def box_alts(n, atoms, opvar, opval):
    """Set expressions a returned box may take: a conditional on something other than the
    BoxOp parameter (e.g. a comparison of volumes) contributes both alternatives."""
    m = strip(n, also=("CXXConstructExpr",))
    if m["k"] == "ConditionalOperator" and cond_value(m["c"][0], {}, opvar, opval) is None:
        return box_alts(m["c"][1], atoms, opvar, opval) + box_alts(m["c"][2], atoms, opvar, opval)
    return [box_expr(n, atoms, opvar, opval)]


def boxop(n):
    n = strip(n)
    if n["k"] == "DeclRefExpr" and n.get("dk") == "EnumConstant" or "BoxOp::" in n.get("q", ""):
        nm = n["name"]
        if nm in ("shrink", "grow"):
            return nm
    raise OutOfVocabulary("C09: BoxOp argument is not a literal enumerator: " + show(n))


def ev(e, v):
    t = e[0]
    if t == "atom":
        return v[e[1]]
    if t == "empty":
        return False
    if t == "all":
        return True
    x, y = ev(e[2], v), ev(e[3], v)
    return (x and y) if t == "and" else (x or y) if t == "or" else (x and not y)


def kinds(e):
    if e[0] in ("atom", "empty", "all"):
        return set()
    return {e[1]} | kinds(e[2]) | kinds(e[3])


def depth(e):
    if e[0] in ("atom", "empty", "all"):
        return 0
    return 1 + max(depth(e[2]), depth(e[3]))


def pretty(e):
    t = e[0]
    if t == "atom":
        return e[1]
    if t == "empty":
        return "{}"
    if t == "all":
        return "ALL"
    sym = {"and": "&", "or": "|", "diff": "-"}[t]
    tag = {"exact": "", "shrink": "[shrink]", "grow": "[grow]"}[e[1]]
    return "(%s %s%s %s)" % (pretty(e[2]), sym, tag, pretty(e[3]))


# ---------------------------------------------------------------------------------------------
def cond_value(n, env, opvar=None, opval=None):
    """Evaluate a boolean condition over the known flags; None = undecided."""
    n = strip(n)
    k = n["k"]
    if k == "CXXBoolLiteralExpr":
        return n["val"] == "true"
    if k == "UnaryOperator" and n["op"] == "!":
        c = cond_value(n["c"][0], env, opvar, opval)
        return None if c is None else not c
    if k == "BinaryOperator" and n["op"] in ("&&", "||"):
        a = cond_value(n["c"][0], env, opvar, opval)
        b = cond_value(n["c"][1], env, opvar, opval)
        if n["op"] == "&&":
            if a is False or b is False:
                return False
            return True if (a and b) else None
        if a is True or b is True:
            return True
        return False if (a is False and b is False) else None
    if k == "BinaryOperator" and n["op"] in ("==", "!=") and opvar is not None:
        l, r = strip(n["c"][0]), strip(n["c"][1])
        if l["k"] == "DeclRefExpr" and l["name"] == opvar and r["k"] == "DeclRefExpr" \
                and r["name"] in ("shrink", "grow"):
            return (r["name"] == opval) == (n["op"] == "==")
    if k in ("MemberExpr", "DeclRefExpr"):
        key = show(n)
        if key in env:
            return env[key]
    return None


def zone_arms(f):
    """Interpret a zone-level function for the four (a.negated, b.negated) combinations."""
    ast = f.r["ast"]
    ps = [p["n"] for p in f.r["params"]]
    if len(ps) != 2:
        raise OutOfVocabulary("C09: %s: expected two zone parameters" % f.name)
    pa, pb = ps
    atoms0 = {pa + ".interior": "A_i", pa + ".exterior": "A_x", pb + ".interior": "B_i", pb + ".exterior": "B_x"}
    out = {}
    for an, bn in itertools.product((False, True), repeat=2):
        env = {pa + ".negated": an, pb + ".negated": bn}
        atoms = dict(atoms0)
        st = {"interior": ("empty",), "exterior": ("empty",), "negated": False, "ret": None, "var": None}

        def run(n):
            if n is None or st["ret"]:
                return
            k = n["k"]
            if k == "CompoundStmt":
                for c in n["c"]:
                    run(c)
            elif k == "DeclStmt":
                for d in n["c"]:
                    if d["k"] == "VarDecl" and d["ty"].endswith("BoundingZone"):
                        init = d["c"][0] if d["c"] else None
                        if init is not None and strip(init)["c"]:
                            raise OutOfVocabulary("C09: zone local initialised from values")
                        st["var"] = d["name"]
                    elif d["k"] == "VarDecl" and d["c"] and show(strip(d["c"][0])) in atoms:
                        atoms[d["name"]] = atoms[show(strip(d["c"][0]))]      # alias of an operand box
                    else:
                        raise OutOfVocabulary("C09: unexpected local " + d.get("name", "?"))
            elif k == "IfStmt":
                c = cond_value(n["c"][0], env)
                if c is None:
                    raise OutOfVocabulary("C09: %s: branch on something other than the negated flags: %s"
                                          % (f.name, show(n["c"][0])))
                if c:
                    run(n["c"][1])
                elif len(n["c"]) > 2:
                    run(n["c"][2])
            elif k in ("ExprWithCleanups", "ImplicitCastExpr", "ParenExpr"):
                run(n["c"][-1])
            elif k in ("BinaryOperator", "CXXOperatorCallExpr") and (n.get("op") == "=" or n.get("oop") == "="):
                lhs, rhs = (n["c"][0], n["c"][1]) if k == "BinaryOperator" else (n["c"][1], n["c"][2])
                lhs = strip(lhs)
                if lhs["k"] != "MemberExpr" or show(lhs["c"][0]) != st["var"]:
                    raise OutOfVocabulary("C09: assignment to something other than the result zone: " + show(lhs))
                fld = lhs["name"]
                if fld == "negated":
                    c = cond_value(rhs, env)
                    if c is None:
                        raise OutOfVocabulary("C09: negated flag assigned a non-literal")
                    st["negated"] = c
                elif fld in ("interior", "exterior"):
                    st[fld] = box_expr(rhs, atoms)
                else:
                    raise OutOfVocabulary("C09: unknown zone field " + fld)
            elif k == "ReturnStmt":
                r = strip(n["c"][0], also=("CXXConstructExpr",)) if n["c"] else None
                if r is None or show(r) != st["var"]:
                    raise OutOfVocabulary("C09: zone function returns something other than its result local")
                st["ret"] = True
            elif k in ("NullStmt", "CStyleCastExpr", "UnaryExprOrTypeTraitExpr"):
                pass
            else:
                raise OutOfVocabulary("C09: %s: statement outside the vocabulary: %s" % (f.name, k))
        run(ast)
        if not st["ret"]:
            raise OutOfVocabulary("C09: %s: no return reached" % f.name)
        out[(an, bn)] = (st["interior"], st["exterior"], st["negated"])
    return out


POINTS = [dict(zip(("A_i", "A", "A_x", "B_i", "B", "B_x"), bits))
          for bits in itertools.product((False, True), repeat=6)
          if (not bits[0] or bits[1]) and (not bits[1] or bits[2])
          and (not bits[3] or bits[4]) and (not bits[4] or bits[5])]


def describe(v):
    def one(p):
        i, s, x = v[p + "_i"], v[p], v[p + "_x"]
        return "%s: %s" % (p, "inside its interior box" if i else
                           ("in the region, between the boxes" if s else
                            ("outside the region, inside its exterior box" if x else "outside its exterior box")))
    return "a point with " + one("A") + "; " + one("B")


def check_zone(cx, f, union):
    arms = zone_arms(f)
    nm = "calc_union" if union else "calc_intersection"
    for (an, bn), (ei, exx, rneg) in sorted(arms.items()):
        label = "%s(%sA, %sB)" % (nm, "~" if an else "", "~" if bn else "")
        bad_i = bad_x = None
        why_i = why_x = ""
        if "grow" in kinds(ei):
            bad_i, why_i = {}, "the interior is built with a growing (enclosing) operation"
        if "shrink" in kinds(exx):
            bad_x, why_x = {}, "the exterior is built with a shrinking operation"
        if depth(ei) > 1 and kinds(ei) - {"exact"} or depth(exx) > 1 and kinds(exx) - {"exact"}:
            raise OutOfVocabulary("C09: nested approximate box operations in " + label)
        for v in POINTS:
            sa, sb = v["A"] != an, v["B"] != bn
            t = (sa or sb) if union else (sa and sb)
            r0 = t != rneg           # the set the result's boxes bound
            if bad_i is None and ev(ei, v) and not r0:
                bad_i = v
            if bad_x is None and r0 and not ev(exx, v):
                bad_x = v
        what = "%s: result %s= %s" % (label, "~" if rneg else "", "(" + ("|" if union else "&") + ")")
        cx.ob("C09.1-zone-algebra", label + " interior %s is known %s the result" % (pretty(ei), "outside" if rneg else "inside"),
              bad_i is None,
              "interior = %s%s" % (pretty(ei), "" if bad_i is None else "; " + (why_i or (
                  "counterexample: %s lies in that box but %s the %s" % (
                      describe(bad_i), "inside" if rneg else "outside", "union" if union else "intersection")))),
              short(f.loc),
              why="a 'known inside' box that is not inside the region lets the builder replace the "
                  "region by a constant / over-estimate safety; after a negation it becomes the "
                  "bounding box of the complement")
        cx.ob("C09.1-zone-algebra", label + " exterior %s encloses %s" % (pretty(exx), "the complement of the result" if rneg else "the result"),
              bad_x is None,
              "exterior = %s%s" % (pretty(exx), "" if bad_x is None else "; " + (why_x or (
                  "counterexample: %s is %s the %s but outside that box" % (
                      describe(bad_x), "outside" if rneg else "inside", "union" if union else "intersection")))),
              short(f.loc),
              why="the exterior box of a (re-)negated zone becomes the volume's bounding box in the "
                  "BIH: a point of the volume outside it is never found by point location")
        _ = what


# ---------------------------------------------------------------------------------------------
def helper_returns(f):
    """All (op kind, path facts, returned set expression) of a box helper (a, b, op)."""
    ps = [p["n"] for p in f.r["params"]]
    if len(ps) != 3:
        raise OutOfVocabulary("C09: %s: expected (a, b, op)" % f.name)
    pa, pb, pop = ps
    atoms = {pa: "a", pb: "b"}
    res = []
    for opval in ("shrink", "grow"):
        def run(n, facts, out):
            """returns True if control may continue after n"""
            k = n["k"]
            if k == "CompoundStmt":
                for c in n["c"]:
                    if not run(c, facts, out):
                        return False
                return True
            if k == "IfStmt":
                cn = strip(n["c"][0])
                c = cond_value(cn, {}, pop, opval)
                then, els = n["c"][1], (n["c"][2] if len(n["c"]) > 2 else None)
                if c is True:
                    return run(then, facts, out)
                if c is False:
                    return run(els, facts, out) if els is not None else True
                pos = fact_of(cn, atoms)
                cont_t = run(then, facts + ([pos] if pos and pos[0] != "not" else []), out)
                negf = fact_of_neg(cn, atoms)
                cont_e = run(els, facts + ([negf] if negf else []), out) if els is not None else True
                if cont_t and cont_e and not (pos is None and negf is None):
                    # paths merge with different facts: keep only the common ones (none added)
                    return True
                if cont_t != cont_e or not (cont_t or cont_e):
                    # exactly one side continues: its facts persist
                    if cont_e and negf:
                        facts.append(negf)
                    if cont_t and pos and pos[0] != "not":
                        facts.append(pos)
                return cont_t or cont_e
            if k == "ReturnStmt":
                for e in box_alts(n["c"][0], atoms, pop, opval):
                    out.append((opval, list(facts), e, short(n["loc"])))
                return False
            if k in ("NullStmt",):
                return True
            raise OutOfVocabulary("C09: %s: statement outside the vocabulary: %s" % (f.name, k))
        out = []
        cont = run(f.r["ast"], [], out)
        if cont:
            raise OutOfVocabulary("C09: %s: falls off the end" % f.name)
        res.extend(out)
    return res


def bool_operand(n, atoms):
    """x for an expression that converts box x to bool (operator bool), else None"""
    n = strip(n)
    if n["k"] == "CXXMemberCallExpr" and "operator" in n.get("callee", "") and n["c"] and n["c"][0]["c"]:
        key = show(strip(n["c"][0]["c"][0]))
        if key in atoms:
            return atoms[key]
    return None


def fact_of(cn, atoms):
    """positive fact of a condition: ('null', x) for !x ; ('sub', small, big) for encloses(big, small)"""
    if cn["k"] == "UnaryOperator" and cn["op"] == "!":
        x = bool_operand(cn["c"][0], atoms)
        return ("null", x) if x else None
    if cn["k"] == "CallExpr" and cn.get("callee") == C + "encloses":
        big, small = show(strip(cn["c"][1])), show(strip(cn["c"][2]))
        if big in atoms and small in atoms:
            return ("sub", atoms[small], atoms[big])
    return None


def fact_of_neg(cn, atoms):
    """fact that holds when the condition is FALSE (only 'x is null' from a bare `if (x)`)."""
    x = bool_operand(cn, atoms)
    return ("null", x) if x else None


def check_helper(cx, f, op):
    rets = helper_returns(f)
    cx.require(rets, "C09: %s has no return" % f.name)
    for (kind, facts, e, where) in rets:
        bad = None
        if kind == "shrink" and "grow" in kinds(e):
            bad = {}
        for a, b in itertools.product((False, True), repeat=2):
            v = {"a": a, "b": b}
            okf = True
            for fa in facts:
                if fa[0] == "null" and v[fa[1]]:
                    okf = False
                if fa[0] == "sub" and v[fa[1]] and not v[fa[2]]:
                    okf = False
            if not okf or bad is not None:
                continue
            exact = (a or b) if op == "or" else (a and not b)
            r = ev(e, v)
            if kind == "shrink" and r and not exact:
                bad = v
            if kind == "grow" and exact and not r:
                bad = v
        fs = ", ".join("%s is null" % x[1] if x[0] == "null" else "%s encloses %s" % (x[2], x[1]) for x in facts) or "no fact"
        sym = "a | b" if op == "or" else "a - b"
        cx.ob("C09.2-box-helpers",
              "%s[%s] returning %s when %s" % (f.name.split("::")[-1], kind, pretty(e), fs),
              bad is None,
              "" if bad is None else ("a point %s a, %s b is %s %s but %s the returned box" % (
                  "in" if bad.get("a") else "not in", "in" if bad.get("b") else "not in",
                  "outside" if kind == "shrink" else "inside", sym,
                  "inside" if kind == "shrink" else "outside") if bad else
                  "a shrinking result is built with an enclosing union"),
              where,
              why="a shrunk box must lie inside %s and a grown box must enclose it, for every pair "
                  "of boxes allowed on that path" % sym)


# ---------------------------------------------------------------------------------------------
def const_value(n):
    n = strip(n, also=("CXXStaticCastExpr",))
    if n is None:
        return None
    if "cval" in n:
        try:
            return float(n["cval"])
        except ValueError:
            return None
    if n["k"] in ("FloatingLiteral", "IntegerLiteral"):
        return float(n["val"])
    return None


def clip_factors(f):
    """(box member, factor K) for every `box->shrink(bound, axis, centre +/- K * radius)`."""
    out = []
    for n in walk(f.r["ast"]):
        if n["k"] != "CXXMemberCallExpr" or not n.get("callee", "").endswith("BoundingBox::shrink"):
            continue
        recv = strip(n["c"][0]["c"][0]) if n["c"] and n["c"][0]["c"] else None
        while recv is not None and recv["k"] == "UnaryOperator" and recv["op"] == "*":
            recv = strip(recv["c"][0])
        if recv is None or recv["k"] != "MemberExpr":
            raise OutOfVocabulary("C09: shrink() on something other than a member box: " + show(n))
        box = recv["name"]
        e = strip(n["c"][-1])
        if e["k"] != "BinaryOperator" or e["op"] not in ("+", "-"):
            raise OutOfVocabulary("C09: clip bound is not `centre +/- extent`: " + show(e))
        ext = strip(e["c"][1])
        k = 1.0
        if ext["k"] == "BinaryOperator" and ext["op"] == "*":
            ka, kb = const_value(ext["c"][0]), const_value(ext["c"][1])
            if (ka is None) == (kb is None):
                raise OutOfVocabulary("C09: clip extent is not `constant * radius`: " + show(ext))
            k = ka if ka is not None else kb
        elif const_value(ext) is not None:
            raise OutOfVocabulary("C09: clip extent is a bare constant: " + show(ext))
        out.append((box, k, short(n["loc"])))
    return out


def check_clipper(cx, db):
    fs = db.get(C + "SurfaceClipper::operator()")
    cx.require(fs, "anchor SurfaceClipper::operator() not found")
    seen = 0
    for f in fs:
        sig = f.r.get("sig", "")
        if sig.startswith("(const celeritas::Sphere &)"):
            naxes, what = 3, "sphere"
        elif sig.startswith("(const celeritas::CylAligned<"):
            naxes, what = 2, "cylinder " + f.inst.split("<")[-1].rstrip(">")
        else:
            continue
        cx.require("ast" in f.r, "no expression tree for SurfaceClipper::operator()" + sig)
        fac = clip_factors(f)
        cx.require(fac, "SurfaceClipper%s no longer clips with shrink()" % sig)
        seen += 1
        recs = db.records.get(C + "SurfaceClipper", {})
        _ = recs
        for box in sorted(set(b for (b, _k, _w) in fac)):
            ks = sorted(set(k for (b, k, _w) in fac if b == box))
            where = [w for (b, _k, w) in fac if b == box][0]
            if box.startswith("int"):
                ok = all(naxes * k * k <= 1 + 1e-12 for k in ks)
                cx.ob("C09.4-primitive-interior",
                      "%s: the interior box {centre +/- K r} lies inside the surface (K = %s, need %d K^2 <= 1)"
                      % (what, ", ".join("%.6g" % k for k in ks), naxes), ok,
                      "" if ok else "corner of the box at distance %.4g r from the %s" % (
                          (naxes ** 0.5) * max(ks), "centre" if naxes == 3 else "axis"),
                      where,
                      why="the interior box is the 'known inside' part of the zone: C09.1 shows how an "
                          "over-claimed interior becomes an empty exterior one difference later")
            elif box.startswith("ext"):
                ok = all(k >= 1 - 1e-12 for k in ks)
                cx.ob("C09.4-primitive-interior",
                      "%s: the exterior box {centre +/- K r} encloses the surface (K = %s, need K >= 1)"
                      % (what, ", ".join("%.6g" % k for k in ks)), ok, "", where,
                      why="the exterior box is the volume's bounding box")
            else:
                raise OutOfVocabulary("C09: unknown box member " + box)
    cx.floor("SurfaceClipper overloads with a curved interior box", seen, 4)


def run(db, cx):
    fi = db.get(NS + "calc_intersection")
    fu = db.get(NS + "calc_union")
    cx.require(fi and fu, "anchors calc_intersection/calc_union(BoundingZone, BoundingZone) not found")
    for f in fi:
        cx.require("ast" in f.r, "no expression tree for " + f.name)
        check_zone(cx, f, union=False)
    for f in fu:
        cx.require("ast" in f.r, "no expression tree for " + f.name)
        check_zone(cx, f, union=True)
    hd = db.get(ANON + "calc_difference")
    hu = db.get(ANON + "calc_union")
    cx.require(hd and hu, "anchors (anonymous)::calc_difference / calc_union(BBox, BBox, BoxOp) not found")
    for f in hd:
        check_helper(cx, f, "diff")
    for f in hu:
        check_helper(cx, f, "or")
    # negate() flips the flag and nothing else
    for f in db.get(NS + "BoundingZone::negate"):
        ws = [e for (_b, _i, e) in f.events("write")]
        ok = len(ws) == 1 and ws[0]["path"]["chain"] == ["f:" + NS + "BoundingZone::negated"] \
            and ws[0].get("rhs", "").replace("this->", "").replace(" ", "") == "!negated"
        cx.ob("C09.1-zone-algebra", "negate() flips the flag and leaves both boxes", ok,
              str([(e.get("lhs"), e.get("rhs")) for e in ws]), short(f.loc),
              why="complementing a region swaps known-inside and known-outside; the boxes stay")
    # who consumes the zones: the volume's bbox is the exterior of a non-negated zone, infinite otherwise
    for f in db.get(NS + "get_exterior_bbox"):
        rets = [e for (_b, _i, e) in f.events("return")]
        brs = f.branch_blocks(lambda c, _b: any(r.endswith("BoundingZone::negated") for r in c.get("refs", [])))
        ok = False
        for br in brs:
            tgt = f.blocks[br]["succ"][f.cond_polarity_edge(br, True)]
            if tgt is not None:
                ok = f.must_pass(lambda e: e["e"] == "return" and "from_infinite" in e.get("t", ""),
                                 start=(tgt, -1))[0]
        cx.ob("C09.3-exterior-bbox", "a negated zone yields an infinite bounding box", ok and len(rets) == 2,
              str([e.get("t") for e in rets]), short(f.loc),
              why="the exterior box of a negated zone bounds the complement, not the volume")
    check_clipper(cx, db)
    cx.count("zone arms interpreted", 8)
    cx.count("point classifications per arm", len(POINTS))
    cx.assume("celeritas::calc_intersection(BBox, BBox) is the exact intersection and the two-argument "
              "calc_union(BBox, BBox) encloses both boxes (BoundingBoxUtils.hh, not interpreted)")
    cx.assume("every primitive's own bounding zone satisfies interior <= region <= exterior (numeric, "
              "set in IntersectRegion.cc; not decided)")
