"""C10 - logic encoding tables and the bit-stack machine (rewriting algorithms not decided)."""
import re
from common import C, short, local_refs
from cfg import path_leaf, follow, UnknownAtom
from facts import AnalysisBroken
from astutil import OutOfVocabulary
import bitslice
import witness

EXPLANATION = (
    "Encoding-table agreement: every postfix token the builder can emit is handled by the "
    "evaluator with the right LogicStack operation and by the depth calculator with the same "
    "arity; the five LogicStack operations are verified against a boolean stack machine for ALL "
    "stack contents by bit-sliced interpretation (each result bit compared by truth table); "
    "printer/parser character tables are inverses; the De Morgan dual maps and<->or; translating "
    "visitors cover the same node alternatives with no catch-all overload; every volume's logic "
    "depth feeds an always-on validation against the stack capacity.")
NOT_DECIDED = ("truth-value preservation of the simplification / De Morgan / replacement "
               "algorithms for all trees (runtime rewriting)")

TECHNIQUE = ('bit-sliced abstract interpretation of LogicStack (exact for all stack words), CFG walk under truth assignments for token arity, switch/enum table agreement, compile-time witness for the character table, visitor overload-set comparison')

UNITS = [
    "src/orange/OrangeParams.cc",
    "src/orange/detail/UnitInserter.cc",
    "src/orange/detail/OrangeInputIOImpl.json.cc",
    "src/orange/orangeinp/detail/PostfixLogicBuilder.cc",
    "src/orange/orangeinp/detail/DeMorganSimplifier.cc",
    "src/orange/orangeinp/detail/InternalSurfaceFlagger.cc",
    "src/orange/orangeinp/detail/SenseEvaluator.cc",
    "src/orange/orangeinp/CsgTreeUtils.cc",
    "src/orange/orangeinp/CsgTree.cc",
    "src/orange/OrangeTypes.cc",
    "src/celeritas/geo/detail/BoundaryAction.cc",
]

D = C + "detail::"
LS = D + "LogicStack::"
POSTFIX = ["ltrue", "lor", "land", "lnot"]
WANT_OP = {"ltrue": "push", "lor": "apply_or", "land": "apply_and", "lnot": "apply_not"}


def run(db, cx):
    W = 64
    # ------------------------------------------------ A4: LogicStack for all contents
    helpers = {}
    for nm in ("lsb", "shr", "shl"):
        fs = [f for f in db.get(LS + nm) if "ast" in f.r]
        cx.require(fs, "anchor LogicStack::%s (AST) not found" % nm)
        helpers[LS + nm] = fs[0]
    arity = {}
    d = [("v", "d%d" % i) for i in range(W)]

    def machine():
        return bitslice.Machine(W, {"data_": list(d), "size_": None}, helpers)

    def compare(name, got, want, what):
        bad = None
        for i in range(W):
            okb, env = bitslice.equivalent(got[i], want[i])
            if not okb:
                bad = (i, env)
                break
        cx.ob("C10.1-logic-stack", "LogicStack::%s %s (all %d-bit stack contents)" % (name, what, W),
              bad is None, ("bit %d differs for %s" % bad) if bad else
              "%d result bits compared by truth table" % W, "src/orange/univ/detail/LogicStack.hh",
              why="the postfix evaluator is only as correct as this stack machine; a wrong bit "
                  "changes the truth value of every volume whose logic reaches that depth")

    spec = {
        "push": lambda v: [v] + d[:W - 1],
        "apply_not": lambda v: [bitslice.mk("not", d[0])] + d[1:],
        "apply_and": lambda v: [bitslice.mk("and", d[1], d[0])] + d[2:] + [bitslice.c(0)],
        "apply_or": lambda v: [bitslice.mk("or", d[1], d[0])] + d[2:] + [bitslice.c(0)],
        "pop": lambda v: d[1:] + [bitslice.c(0)],
    }
    delta = {"push": 1, "apply_not": 0, "apply_and": -1, "apply_or": -1, "pop": -1}
    for name in ("push", "pop", "apply_not", "apply_and", "apply_or"):
        fs = [f for f in db.get(LS + name) if "ast" in f.r]
        cx.require(fs, "anchor LogicStack::%s (AST) not found" % name)
        f = fs[0]
        m = machine()
        env = {}
        vbit = ("v", "v")
        for p in f.r["params"]:
            env[p["n"]] = [vbit] + [bitslice.c(0)] * (W - 1)     # bool converted to size_type
        m.run(f.r["ast"], env)
        compare(name, m.members["data_"], spec[name](vbit), "new stack word")
        arity[name] = m.counters.get("size_", 0)
        cx.ob("C10.1-logic-stack", "LogicStack::%s changes the depth by %+d" % (name, delta[name]),
              arity[name] == delta[name], "size_ delta %+d" % arity[name],
              "src/orange/univ/detail/LogicStack.hh")
        if name == "pop":
            compare(name, m.ret, [d[0]] + [bitslice.c(0)] * (W - 1), "returns the top bit")
    fs = [f for f in db.get(LS + "top") if "ast" in f.r]
    cx.require(fs, "anchor LogicStack::top not found")
    m = machine()
    m.run(fs[0].r["ast"], {})
    compare("top", m.ret, [d[0]] + [bitslice.c(0)] * (W - 1), "returns the top bit")
    # capacity constant
    fs = [f for f in db.get(LS + "max_stack_depth") if "ast" in f.r]
    cx.require(fs, "anchor LogicStack::max_stack_depth not found")
    from astutil import find_all, const_int
    cap = const_int(find_all(fs[0].r["ast"], "ReturnStmt")[0]["c"][0])
    cx.ob("C10.1-logic-stack", "max_stack_depth() equals the storage width", cap == W,
          "returns %s; data_ is %d bits" % (cap, W), "src/orange/univ/detail/LogicStack.hh",
          why="a larger advertised depth lets the validation accept expressions that overflow")

    # ------------------------------------------------ token -> operation table
    ev_f = [f for f in db.get(D + "LogicEvaluator::operator()")]
    cx.require(ev_f, "anchor LogicEvaluator::operator() not found")
    for f in ev_f:
        table = {}
        default_kind = None
        for bid in f.live_blocks():
            blk = f.blocks[bid]
            lab = blk.get("label", "")
            if lab.startswith("case:"):
                tok = lab[5:].split("::")[-1]
                ops = [e for e in blk["ev"] if e["e"] == "call" and e["callee"].startswith(LS)]
                table[tok] = [(e["callee"].split("::")[-1], [a.get("lit") for a in e.get("args", [])])
                              for e in ops]
            elif lab == "default":
                default_kind = "unreachable" if (blk.get("noreturn") or any(
                    e["e"] == "call" and e["callee"] in (C + "unreachable", "__builtin_unreachable")
                    for e in blk["ev"])) else "code"
        for tok in POSTFIX:
            got = table.get(tok)
            want = WANT_OP[tok]
            ok = got is not None and len(got) == 1 and got[0][0] == want and \
                (tok != "ltrue" or got[0][1] == ["true"])
            cx.ob("C10.2-token-table", "LogicEvaluator: %s -> %s" % (tok, want + ("(true)" if tok == "ltrue" else "()")),
                  ok, "case body calls %s" % got, short(f.loc),
                  why="a token evaluated with another operation changes the boolean function of "
                      "every volume that uses it")
        extra = sorted(set(table) - set(POSTFIX))
        cx.ob("C10.2-token-table", "LogicEvaluator handles exactly the postfix tokens",
              not extra and default_kind in ("unreachable", None),
              "extra cases %s; default arm: %s" % (extra, default_kind), short(f.loc),
              why="a default arm with real code silently swallows unknown tokens")
        # surface ids are pushed with their sense
        pushes = [(b, i, e) for (b, i, e) in f.calls(LS + "push")
                  if not f.blocks[b].get("label", "").startswith("case:")]
        ok = len(pushes) == 1
        if ok:
            b, i, e = pushes[0]
            g = False
            for br in f.branch_blocks(lambda c, _b: C + "logic::is_operator_token" in c.get("calls", [])):
                if f.guarded_by_edge((b, i), br, f.cond_polarity_edge(br, False)):
                    g = True
            ok = g and "values" in e["args"][0].get("refs", [])
        cx.ob("C10.2-token-table", "non-operator tokens push the sense of that surface", ok, "",
              short(f.loc))

    # ------------------------------------------------ depth calculator arity
    cds = db.find(r"^celeritas::detail::\(anon\)::calc_max_depth$|^celeritas::detail::calc_max_depth$|calc_max_depth$")
    cd = [f for n in cds for f in db.get(n)]
    cx.require(cd, "anchor calc_max_depth not found")
    f = cd[0]
    ups = {}
    for (b, i, e) in f.events("def"):
        if e.get("op") in ("++", "--"):
            ups.setdefault(e.get("var"), {}).setdefault(e["op"], []).append(b)
    dv = [v for v, d_ in ups.items() if "++" in d_ and "--" in d_]
    cx.require(len(dv) == 1 and len(ups[dv[0]]["++"]) == 1 and len(ups[dv[0]]["--"]) == 1,
               "calc_max_depth: expected one running-depth variable with one ++ and one --")
    inc, dec = ups[dv[0]]["++"], ups[dv[0]]["--"]
    # loop body entry = successor of the range-for condition that reaches inc
    heads = [bid for bid, blk in f.blocks.items() if blk.get("tk") == "CXXForRangeStmt"]
    cx.require(heads, "calc_max_depth: token loop not found")
    body = f.blocks[heads[0]]["succ"][0]

    def depth_effect(tok):
        def truth(c):
            calls = c.get("calls", [])
            if C + "logic::is_operator_token" in calls:
                return tok != "surface"
            en = c.get("renum", "") or c.get("lenum", "")
            if en and c.get("op") == "==":
                return en.split("::")[-1] == tok
            if en and c.get("op") == "!=":
                return en.split("::")[-1] != tok
            return None
        try:
            hit = follow(f, body, truth, set(inc) | set(dec) | {heads[0]})
        except UnknownAtom as e:
            raise AnalysisBroken("calc_max_depth uses a condition outside the token vocabulary: %s" % e)
        return 1 if hit in inc else -1 if hit in dec else 0
    want = {"surface": arity["push"], "ltrue": arity["push"], "lor": arity["apply_or"],
            "land": arity["apply_and"], "lnot": arity["apply_not"]}
    for tok in ["surface"] + POSTFIX:
        got = depth_effect(tok)
        cx.ob("C10.3-depth-arity", "calc_max_depth: token %s changes the depth by %+d" % (tok, want[tok]),
              got == want[tok], "calculator: %+d, stack operation: %+d" % (got, want[tok]), short(f.loc),
              why="if the calculator under-counts, an expression deeper than the bit stack passes "
                  "validation and overflows silently (assertions are compiled out)")

    # ------------------------------------------------ builder emits only known tokens
    emitted = set()
    other = []
    nb = 0
    for n in db.find(r"PostfixLogicBuilderImpl::operator\(\)$"):
        for g in db.get(n):
            for (_b, _i, e) in g.events("call"):
                if not e["callee"].endswith("::push_back") or not e.get("args"):
                    continue
                nb += 1
                a = e["args"][0]
                if a.get("enum"):
                    emitted.add(a["enum"].split("::")[-1])
                elif "F:" + C + "orangeinp::Joined::op" in a.get("refs", []):
                    emitted.add("Joined::op")
                elif len(local_refs(a.get("refs", []))) == 1 and not a.get("calls") \
                        and not [r for r in a.get("refs", []) if r.startswith(("E:", "F:"))]:
                    emitted.add("surface")
                else:
                    other.append(a.get("t"))
    cx.floor("PostfixLogicBuilder push_back sites", nb, 4)
    cx.ob("C10.2-token-table", "PostfixLogicBuilder emits only {ltrue, lnot, Joined::op, surface ids}",
          emitted <= {"ltrue", "lnot", "Joined::op", "surface"} and not other,
          "emits %s %s" % (sorted(emitted), other), "src/orange/orangeinp/detail/PostfixLogicBuilder.cc",
          why="a token the evaluator has no case for hits the (compiled-out) unreachable arm")
    cx.assume("Joined::op holds logic::land or logic::lor (constructed only with those two)")

    # ------------------------------------------------ printer / parser tables
    parse = {}
    for f in db.get(D + "string_to_logic"):
        for bid in f.live_blocks():
            blk = f.blocks[bid]
            lab = blk.get("label", "")
            if lab.startswith("case:"):
                for e in blk["ev"]:
                    if e["e"] == "call" and e["callee"].endswith("push_back") and e.get("args"):
                        en_ = e["args"][0].get("enum") or ""
                        if en_:
                            parse[lab[5:]] = en_.split("::")[-1]
    cx.floor("string_to_logic token cases", len(parse), 4)
    src = ['#include "corecel/Macros.hh"', '#include "corecel/Types.hh"', '#include "orange/OrangeTypes.hh"',
           "using namespace celeritas;"]
    for ch, tok in sorted(parse.items()):
        src.append("static_assert(logic::to_char(logic::%s) == %s, \"W:tok-%s\");" % (tok, ch, tok))
    src.append("static_assert(logic::lend - logic::lbegin == 6, \"W:token-count\");")
    failed, other_err = witness.compile_witness("\n".join(src) + "\n", "src/orange/OrangeTypes.cc")
    if other_err:
        raise AnalysisBroken("C10 witness does not compile: %s" % other_err[:3])
    for tok in POSTFIX:
        chs = [ch for ch, t in parse.items() if t == tok]
        cx.ob("C10.4-char-tables", "token %s: parser case and printer character agree" % tok,
              len(chs) == 1 and ("tok-" + tok) not in failed, "parser %s" % chs,
              "src/orange/detail/OrangeInputIOImpl.json.cc",
              why="a logic string written with one character and parsed as another token changes "
                  "the region")

    # ------------------------------------------------ De Morgan dual
    found = False
    for n in db.find(r"DeMorganSimplifier::build_negated_node$|DeMorganSimplifier::"):
        for g in db.get(n):
            for (_b, _i, e) in g.events("return"):
                t = e.get("t", "")
                m = re.search(r"\(?\s*(\w+)\s*==\s*logic::(\w+)\s*\)?\s*\?\s*logic::(\w+)\s*:\s*logic::(\w+)", t)
                if m and "Joined" in t:
                    found = True
                    cmp_, a, b = m.group(2), m.group(3), m.group(4)
                    ok = {cmp_, a} == {"land", "lor"} and a != cmp_ and b == cmp_
                    cx.ob("C10.5-demorgan-dual", "negated join swaps land <-> lor", ok,
                          "(op == %s) ? %s : %s" % (cmp_, a, b), short(e["loc"]),
                          why="De Morgan needs the dual operator: not(A and B) = not A OR not B")
    cx.require(found, "DeMorganSimplifier: dual-operator expression not found")

    # ------------------------------------------------ De Morgan: scans over all parents
    parent_scans(db, cx)

    # ------------------------------------------------ visitors: no catch-all, same coverage
    visitors = {}
    for cls in ("orangeinp::detail::PostfixLogicBuilderImpl", "orangeinp::detail::InfixStringBuilder",
                "orangeinp::detail::SenseEvaluator", "orangeinp::detail::InternalSurfaceFlagger"):
        r = None
        for k, v in db.records.items():
            if k.endswith(cls.split("::")[-1]) and "orangeinp" in k:
                r = v
        if r is None:
            continue
        ops = [m for m in r["methods"] if m["n"] == "operator()"]
        tmpl = [m for m in ops if m.get("template")]
        alts = set()
        for m in ops:
            for t in m.get("ptypes", []):
                t = re.sub(r"const |&|\s|celeritas::orangeinp::", "", t)
                if t not in ("NodeId", "OpaqueId<Node_>", "celeritas::OpaqueId<celeritas::orangeinp::Node_>"):
                    alts.add(t)
        visitors[cls.split("::")[-1]] = (alts, tmpl)
    cx.floor("node visitors found", len(visitors), 3)
    allalts = set().union(*[v[0] for v in visitors.values()])
    for name, (alts, tmpl) in sorted(visitors.items()):
        cx.ob("C10.6-visitors", "%s has no catch-all operator()" % name, not tmpl,
              "%d templated overload(s)" % len(tmpl), "src/orange/orangeinp/detail",
              why="a catch-all in a translating visitor silently encodes a new node type as nothing")
        cx.ob("C10.6-visitors", "%s covers the same node alternatives as its siblings" % name,
              alts == allalts, "covers %s; siblings cover %s" % (sorted(alts), sorted(allalts)),
              "src/orange/orangeinp/detail")

    # ------------------------------------------------ fixed-depth validation
    for f in db.get(C + "OrangeParams::OrangeParams"):
        brs = f.branch_blocks(lambda c, _b: "F:" + C + "OrangeParamsScalars::max_logic_depth" in c.get("refs", [])
                              and LS + "max_stack_depth" in c.get("calls", []) and c.get("op") in ("<", "<="))
        if not brs:
            continue
        br = brs[0]
        e_ok = f.cond_polarity_edge(br, True)
        fail = f.blocks[br]["succ"][1 - e_ok]
        throws = fail is not None and f.must_pass(lambda e: False, start=(fail, -1))[0]
        # every normal path through the constructor passes the check
        ok = throws and f.normal_paths_pass_block(br) and f.blocks[br]["cond"]["op"] == "<"
        cx.ob("C10.7-depth-validated", "OrangeParams validates max_logic_depth < max_stack_depth() on "
              "every constructing path", ok, f.blocks[br]["cond"]["t"][:120], short(f.loc),
              why="an over-deep expression overflows the bit stack silently in this build")
    cx.ob("C10.7-depth-validated", "OrangeParams constructor with the depth validation found",
          any(o["instance"].startswith("OrangeParams validates") for o in cx.obs), "",
          "src/orange/OrangeParams.cc")
    for f in db.get(D + "UnitInserter::insert_volume"):
        def upd(e):
            return e["e"] == "call" and e["callee"].endswith("inplace_max") and e.get("args") and \
                path_leaf(e["args"][0].get("path")) == C + "OrangeParamsScalars::max_logic_depth"
        okp, path = f.must_pass(upd)
        src_ok = False
        for (b, i, e) in f.events("call"):
            if upd(e):
                v = local_refs(e["args"][1].get("refs", []))
                for nm in v:
                    for (_b, _i, dd) in f.reaching_defs(nm, (b, i)):
                        if any(x.endswith("calc_max_depth") for x in dd.get("calls", [])):
                            src_ok = True
        cx.ob("C10.7-depth-validated", "insert_volume folds calc_max_depth(logic) into max_logic_depth "
              "on every returning path", okp and src_ok, "", short(f.loc), path=f.path_locs(path),
              why="a volume whose depth is not recorded escapes the capacity validation")

    replacer_inference(db, cx)
    dedup_consistency(db, cx)


def replacer_inference(db, cx):
    """C10.8: the constant-propagation step of replace_and_simplify (NodeReplacer) may only
    infer what the boolean operators imply.  Audited table: alias -> same value; joined:
    (true, AND) -> all daughters true, (false, OR) -> all daughters false, and for
    (true, OR) / (false, AND) nothing about any daughter.  The visitor's CFG is explored for
    each (value, operator) pair with the branches on `repl`/`n.op` decided and every other
    branch taken both ways; each reachable `update(daughter, v)` is classified by v."""
    NR = C + "orangeinp::detail::NodeReplacer::"
    fs = [f for f in db.get(NR + "operator()") if f.r["params"]]
    cx.require(fs, "anchor NodeReplacer::operator() not found")
    joined = [f for f in fs if "Joined" in f.r["params"][0]["ty"]]
    aliased = [f for f in fs if "Aliased" in f.r["params"][0]["ty"]]
    cx.require(joined and aliased, "NodeReplacer overloads for Joined/Aliased not found")
    REPLF = "F:" + NR + "repl_"

    def value_of(f, arg, env):
        if arg.get("enum"):
            return arg["enum"].split("::")[-1]
        refs = arg.get("refs", [])
        loc = local_refs(refs)
        if REPLF in refs and not loc:
            return "param"
        if len(loc) == 1 and next(iter(loc)) in env:
            return env[next(iter(loc))]
        return "?" + arg.get("t", "")

    for f in aliased:
        vals = set(value_of(f, e["args"][1], {}) for (_b, _i, e) in f.calls(NR + "update"))
        cx.ob("C10.8-replacer-inference", "alias: the target takes the value of the alias", vals == {"param"},
              "update(..., %s)" % sorted(vals), short(f.loc),
              why="an alias has the value of its target")

    for f in joined:
        pn = f.r["params"][0]["n"]
        for R in ("known_true", "known_false"):
            for OP in ("op_and", "op_or"):
                # exhaustive walk: state = (block, index, env of locals bound to param/enumerators)
                seen = set()
                found = {}     # value -> loc
                in_loop_over_nodes = {}
                init_env = {}
                work = [(f.entry, 0, tuple())]
                steps = 0
                while work and steps < 20000:
                    steps += 1
                    b, i, envt = work.pop()
                    env = dict(envt)
                    evs = f.blocks[b]["ev"]
                    for k in range(i, len(evs)):
                        e = evs[k]
                        if e["e"] == "def" and e.get("var"):
                            v = e["var"]
                            if e.get("enum"):
                                env[v] = e["enum"].split("::")[-1]
                            elif REPLF in e.get("refs", []) and not local_refs(e.get("refs", [])) \
                                    and not e.get("calls"):
                                env[v] = "param"
                            elif v in env:
                                env.pop(v)
                        if e["e"] == "call" and e["callee"] == NR + "update" and len(e.get("args", [])) == 2:
                            found.setdefault(value_of(f, e["args"][1], env), short(e["loc"]))
                    blk = f.blocks[b]
                    succ = blk["succ"]
                    c = blk.get("cond")
                    idxs = [ix for ix in range(len(succ)) if succ[ix] is not None]
                    if c and len(succ) == 2 and c.get("op") in ("==", "!="):
                        t = None
                        lv = local_refs(c.get("lrefs", []))
                        if c.get("renum") and ((len(lv) == 1 and env.get(next(iter(lv))) == "param")
                                               or (REPLF in c.get("lrefs", []) and not lv)):
                            t = c["renum"].split("::")[-1] == R
                        elif "F:" + C + "orangeinp::Joined::op" in c.get("lrefs", []) and \
                                set(c.get("rrefs", [])) & {"op_and", "op_or"}:
                            t = (set(c["rrefs"]) & {"op_and", "op_or"}).pop() == OP
                        if t is not None:
                            if c["op"] == "!=":
                                t = not t
                            if c.get("neg"):
                                t = not t
                            idxs = [0 if t else 1]
                    for ix in idxs:
                        sx = succ[ix]
                        if sx is None:
                            continue
                        key = (sx, tuple(sorted(env.items())))
                        if key not in seen:
                            seen.add(key)
                            work.append((sx, 0, tuple(sorted(env.items()))))
                provable = (R, OP) in (("known_true", "op_and"), ("known_false", "op_or"))
                want = {"param"} if provable else {"unknown"}
                ok = set(found) == want
                cx.ob("C10.8-replacer-inference", "joined (%s, %s): daughters receive %s" % (
                    R, OP, "the join's value" if provable else "no information"), ok,
                    "update(daughter, v) reachable with v in %s" % sorted(found.items()),
                    short(f.loc),
                    why="a true OR / false AND does not determine its daughters: forcing one of them "
                        "replaces a live surface by a constant in the whole universe, which changes "
                        "the region's boolean function (an inference that is not in this audited "
                        "table has to be reviewed and added to it)")


def dedup_consistency(db, cx):
    """C10.9: CsgTree keeps a table definition -> node id next to the node storage.  The sweep of
    replace_and_simplify reaches its fixed point only if both agree: wherever exchange() re-points
    a table entry (a mutation of the entry's `second`, the node id) to another node, the
    definitions of the two nodes have to be exchanged too - in the same block, before the entry
    is re-pointed - so that the node the table names holds the definition the table records."""
    CT = C + "orangeinp::CsgTree::"
    fs = db.get(CT + "exchange")
    cx.require(fs, "anchor CsgTree::exchange not found")
    n = 0
    for f in fs:
        for (b, i, ev) in f.events("call"):
            args = ev.get("args", [])
            repoints = ev["callee"] in ("std::swap",) and any(
                "f:std::pair::second" in (a.get("path") or {}).get("chain", []) and a.get("mode") == "ref"
                for a in args)
            if not repoints:
                continue
            n += 1
            moved = False
            for k in range(i - 1, -1, -1):
                e2 = f.blocks[b]["ev"][k]
                if e2["e"] == "call" and e2["callee"] == "std::swap" and len(e2.get("args", [])) == 2 and all(
                        CT + "at" in a.get("calls", []) for a in e2["args"]):
                    moved = True
            cx.ob("C10.9-dedup-consistency", "CsgTree::exchange: re-pointing a deduplication entry is "
                  "paired with exchanging the two node definitions [@%s]" % short(ev["loc"]).split(":")[-1],
                  moved, "swap(at(a), at(b)) precedes swap(entry.second, id) in the same block"
                  if moved else "the table entry is re-pointed but the node keeps its old definition",
                  short(ev["loc"]),
                  why="the node named by the table then still holds its unsimplified definition and "
                      "is never simplified again: negated/aliased shapes survive that the flagging "
                      "of 'no internal surfaces' (and the encoders) assume to be gone")
        for (b, i, ev) in f.events("write"):
            if "f:std::pair::second" in (ev.get("path") or {}).get("chain", []):
                n += 1
    cx.floor("dedup-table mutations in CsgTree::exchange", n, 2)


def parent_scans(db, cx):
    """C10.10-parent-scan: a join may be shared by several parents (the tree is a DAG); whether
    it has to be kept, negated or both is a property of *all* its parents.  Every boolean scan
    over the parents matrix in DeMorganSimplifier is therefore a short-circuit fold: a return
    from inside the loop is a literal (the absorbing value), the same one at every exit, and the
    return after the loop is the opposite literal.  Returning a computed value from inside the
    loop decides on the first parent only."""
    from cfg import loops_of
    PARENTS = "F:" + C + "orangeinp::detail::DeMorganSimplifier::parents_"
    n = 0
    for nm in db.find(r"orangeinp::detail::DeMorganSimplifier::"):
        for f in db.get(nm):
            if f.r.get("ret", "") not in ("bool", "_Bool"):
                continue
            for (h, body) in loops_of(f):
                reads = any(PARENTS in f.blocks[b].get("cond", {}).get("refs", []) + f.blocks[b].get("cond", {}).get("allrefs", [])
                            or any(PARENTS in ev.get("refs", []) for ev in f.blocks[b]["ev"]) for b in body)
                if not reads:
                    continue
                inner, after = [], []
                for bb in sorted(body):
                    for sx in f.succ(bb):
                        if sx in body or sx is None:
                            continue
                        # follow straight-line blocks to the return
                        cur, hops, ret = sx, 0, None
                        while cur is not None and hops < 6 and ret is None:
                            for ev in f.blocks[cur]["ev"]:
                                if ev["e"] == "return":
                                    ret = ev
                                    break
                            nxt = [x for x in f.succ(cur) if x is not None]
                            cur = nxt[0] if len(nxt) == 1 else None
                            hops += 1
                        if ret is None:
                            continue
                        (after if bb == h else inner).append(ret)
                # a `break` leaves the body too, but joins the normal exit: not an in-loop return
                after_locs = set(r["loc"] for r in after)
                inner = [r for r in inner if r["loc"] not in after_locs]
                if not inner:
                    continue
                n += 1
                lits = set(r.get("lit") for r in inner)
                ok = len(lits) == 1 and lits <= {"true", "false"}
                ok_after = bool(after) and all(r.get("lit") in ("true", "false") and r.get("lit") not in lits
                                               for r in after)
                cx.ob("C10.10-parent-scan", "%s: the scan over the parents at %s is a short-circuit fold"
                      % (nm.split("DeMorganSimplifier::", 1)[1][:50], short(f.blocks[h].get("tloc", f.loc))
                         if isinstance(f.blocks[h].get("tloc"), str) else short(f.loc)),
                      ok and ok_after,
                      "returns inside the loop: %s; after it: %s" % (sorted(set(r.get("t", "?")[:50] for r in inner)),
                                                                   sorted(set(r.get("t", "?")[:50] for r in after))),
                      short(inner[0]["loc"]),
                      why="a shared join has several parents: an answer taken from the first one drops "
                          "the join (or its negation) that a later parent still needs, and the rewritten "
                          "tree denotes another region")
    cx.floor("boolean scans over the De Morgan parents matrix", n, 2)
