"""C16 - running out of secondary/initializer storage never corrupts or loses physics."""
from common import C, short, field_writers, check_owners
import shared
import effects

EXPLANATION = (
    "Storage-exhaustion discipline decided on the CFG of every instantiation: a failed "
    "interaction leaves the track untouched except for a zero-length failure step; interactors "
    "fail atomically on a null allocation; the allocator writes storage only on the success "
    "edge and restores its size on failure; the stack is cleared only at pre-step on thread 0; "
    "initializer capacity is validated (throwing) before any initializer is written; reset() "
    "re-establishes the state a new event consumes.")
NOT_DECIDED = "that a starved event completes with exact balance (liveness + numerics)"

TECHNIQUE = ('CFG rules for the failure arm (nothing but a zero step limit reachable), allocator success-edge dominance, throwing capacity validation dominating the writes, must-pass reset')

UNITS = [
    "src/celeritas/em/model/KleinNishinaModel.cc",
    "src/celeritas/em/model/LivermorePEModel.cc",
    "src/celeritas/em/model/BetheHeitlerModel.cc",
    "src/celeritas/em/model/EPlusGGModel.cc",
    "src/celeritas/em/model/MollerBhabhaModel.cc",
    "src/celeritas/em/model/SeltzerBergerModel.cc",
    "src/celeritas/em/model/RelativisticBremModel.cc",
    "src/celeritas/em/model/CombinedBremModel.cc",
    "src/celeritas/em/model/MuBremsstrahlungModel.cc",
    "src/celeritas/em/model/BetheBlochModel.cc",
    "src/celeritas/phys/detail/PreStepAction.cc",
    "src/celeritas/phys/PhysicsParams.cc",
    "src/celeritas/track/ExtendFromSecondariesAction.cc",
    "src/celeritas/track/ExtendFromPrimariesAction.cc",
    "src/celeritas/track/InitializeTracksAction.cc",
    "src/celeritas/track/TrackInitParams.cc",
    "src/celeritas/global/CoreState.cc",
    "src/celeritas/global/CoreTrackData.cc",
    "src/celeritas/global/Stepper.cc",
    "src/celeritas/global/alongstep/AlongStepUniformMscAction.cc",
    "src/celeritas/phys/detail/DiscreteSelectAction.cc",
    "src/celeritas/user/detail/StepGatherAction.cc",
]


def run(db, cx):
    shared.failure_arm(db, cx, "C16.1-failed-interaction")
    shared.null_discipline(db, cx, "C16.2-alloc", 9)
    shared.allocator_success_edge(db, cx, "C16.3-allocator")
    eff = effects.Effects(db)
    shared.stack_clear(db, cx, "C16.4-stack-clear", eff)
    shared.capacity_validation(db, cx, "C16.5-capacity")
    # storage of the secondary stack is only (re)sized by resize()
    w = [x for x in field_writers(db, C + "StackAllocatorData::storage")
         if not x[0].name.endswith("StackAllocator::operator()")]
    check_owners(cx, "C16.5-capacity", "secondary stack storage", w,
                 {"^celeritas::resize$", "^celeritas::StackAllocatorData::operator=$"},
                 "the stack buffer may only be sized at state construction")
    shared.reset_completeness(db, cx, "C16.6-reset")
