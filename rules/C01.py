"""C01 - energy ledger (structural clauses only; the numeric balance is not decided)."""
import re
from common import (C, field_writers, check_owners, short, local_refs, owner_match,
                    same_value_args)
from cfg import path_leaf
import effects
import shared

EXPLANATION = (
    "Energy-ledger rules evaluated over the CFG of every instantiation and over the "
    "whole-program call graph: (1) only the ledger methods write particle energy / step "
    "deposition and only the appliers call them, by step-action order; (2) every "
    "subtraction from the particle is paired with a deposit of the same value; (3) a "
    "secondary that is cleared has its energy (and 2mc^2 on the antiparticle edge) booked, "
    "and a secondary whose energy is booked is cleared; (4) the range-limited step returns "
    "the pre-step energy itself.")
NOT_DECIDED = "the numerical balance, values computed inside energy-loss models and interactors"

TECHNIQUE = ('energy-ledger pairing by CFG dominance/must-pass and reaching definitions; writer/caller ownership and per-step-action effect sets over the instantiation-level call graph')

UNITS = [
    "src/celeritas/phys/PhysicsParams.cc",
    "src/celeritas/global/alongstep/AlongStepGeneralLinearAction.cc",
    "src/celeritas/global/alongstep/AlongStepUniformMscAction.cc",
    "src/celeritas/global/alongstep/AlongStepRZMapFieldMscAction.cc",
    "src/celeritas/global/alongstep/AlongStepNeutralAction.cc",
    "src/celeritas/phys/detail/TrackingCutAction.cc",
    "src/celeritas/phys/detail/PreStepAction.cc",
    "src/celeritas/phys/detail/DiscreteSelectAction.cc",
    "src/celeritas/geo/detail/BoundaryAction.cc",
    "src/celeritas/em/model/KleinNishinaModel.cc",
    "src/celeritas/em/model/MollerBhabhaModel.cc",
    "src/celeritas/em/model/EPlusGGModel.cc",
    "src/celeritas/track/InitializeTracksAction.cc",
    "src/celeritas/track/ExtendFromSecondariesAction.cc",
    "src/celeritas/track/SortTracksAction.cc",
    "src/celeritas/user/detail/StepGatherAction.cc",
    "src/celeritas/user/ActionDiagnostic.cc",
    "src/celeritas/user/StepDiagnostic.cc",
]

PTV = C + "ParticleTrackView"
PSV = C + "PhysicsStepView"
F_ENERGY = C + "ParticleStateData::particle_energy"
F_EDEP = C + "PhysicsTrackState::energy_deposition"

ELOSS = C + "detail::ElossApplier::operator()"
TCUT = C + "detail::TrackingCutExecutor::operator()"
IAPP = C + "InteractionApplierBaseImpl::operator()"


def setter_calls(db, name, nargs):
    out = []
    for f, ev in db.callers_of(name):
        if len(ev.get("args", [])) == nargs:
            out.append((f, ev, "call"))
    return out


def run(db, cx):
    # shared with C02: every surviving secondary is initialised in place or queued - one that is
    # neither vanishes with its kinetic energy (seeded change c01e)
    import C02 as _c02
    _c02.inplace_agreement(db, cx, rule="C01.6-secondaries-become-tracks")
    # ---------------------------------------------------------------- anchors
    for n in (PTV + "::subtract_energy", PTV + "::energy", PSV + "::deposit_energy",
              ELOSS, TCUT, IAPP):
        cx.require(db.get(n), "anchor function %s not found in parsed units" % n)

    # ------------------------------------------------- rule 1: writer ownership
    w = field_writers(db, F_ENERGY)
    cx.floor("writers of particle_energy", len(w), 3)
    check_owners(cx, "C01.1-writers", "particle_energy", w,
                 {PTV + "::operator=", PTV + "::energy", PTV + "::subtract_energy",
                  "^celeritas::ParticleStateData::operator=$", "^celeritas::resize$"},
                 "a write to the kinetic energy outside the ledger methods bypasses the "
                 "deposit/secondary bookkeeping: energy appears or disappears unbooked")
    w = field_writers(db, F_EDEP)
    cx.floor("writers of energy_deposition", len(w), 2)
    check_owners(cx, "C01.1-writers", "energy_deposition", w,
                 {PSV + "::reset_energy_deposition", PSV + "::reset_energy_deposition_debug",
                  PSV + "::deposit_energy"},
                 "local deposition may only be accumulated through deposit_energy and reset "
                 "once per step")

    # callers of the ledger methods (W2)
    def owners(rule_what, found, allowed, why, minimum):
        cx.floor("callers of " + rule_what, len(found), minimum)
        check_owners(cx, "C01.1-callers", rule_what, found, allowed, why, db=db)

    owners("subtract_energy", setter_calls(db, PTV + "::subtract_energy", 1),
           {ELOSS, TCUT},
           "energy may be subtracted only where the same amount is deposited", 2)
    owners("energy(Energy)", setter_calls(db, PTV + "::energy", 1), {IAPP},
           "post-interaction energy is set only from the sampled Interaction", 1)
    owners("deposit_energy", setter_calls(db, PSV + "::deposit_energy", 1),
           {ELOSS, TCUT, IAPP},
           "deposition comes only from continuous loss, tracking cut or an interaction", 3)
    owners("reset_energy_deposition",
           setter_calls(db, PSV + "::reset_energy_deposition", 0)
           + setter_calls(db, PSV + "::reset_energy_deposition_debug", 0),
           {C + "detail::PreStepExecutor::operator()"},
           "resetting the deposition later in the step drops booked energy", 1)
    owners("ParticleTrackView::operator=", setter_calls(db, PTV + "::operator=", 1),
           {C + "detail::InitTracksExecutor::operator()",
            C + "detail::ProcessSecondariesExecutor::operator()"},
           "particle state is (re)initialised only when a track is born", 1)

    # by step-action order (W3)
    eff = effects.Effects(db)
    cx.floor("step actions found", len(eff.actions()), 8)
    effects.check_orders(
        cx, db, eff, "C01.1-orders", "particle-energy mutators",
        [PTV + "::subtract_energy", PTV + "::operator="], {"start", "along", "post", "end"},
        "an action of another order (user_*, sort_*, pre, pre_post) that changes the kinetic "
        "energy breaks the per-track balance between step points")
    # the energy setter shares its name with the getter: use its callers
    for (f, ev, _h) in setter_calls(db, PTV + "::energy", 1):
        pass
    effects.check_orders(
        cx, db, eff, "C01.1-orders", "deposit_energy", [PSV + "::deposit_energy"],
        {"along", "post"},
        "deposition is booked only by along-step and post-step actions")
    effects.check_orders(
        cx, db, eff, "C01.1-orders", "reset_energy_deposition",
        [PSV + "::reset_energy_deposition", PSV + "::reset_energy_deposition_debug"],
        {"pre"}, "the per-step deposition is cleared only at pre-step")

    # deposit_energy accumulates (+=): the per-step reset must happen for every track that can
    # still deposit in this step, i.e. on every non-inactive path of pre-step
    shared.prestep_scratch_reset(db, cx, "C01.1-deposit-reset")
    for f in db.get(PSV + "::deposit_energy"):
        ws = [ev for (_b, _i, ev) in f.writes(F_EDEP)]
        ok = len(ws) == 1 and ws[0].get("op") == "+="
        cx.ob("C01.1-deposit-reset", "deposit_energy accumulates into the step's deposition", ok,
              "%s %s %s" % (ws[0].get("lhs"), ws[0].get("op"), ws[0].get("rhs")) if ws else "-",
              short(f.loc))

    # ------------------------------------------- rule 2: deposit<->subtract pair
    n_inst = 0

    def drains(es):       # subtract_energy(<this particle>.energy())
        return PTV + "::energy" in es["args"][0].get("calls", [])
    sub_funcs = []
    for f in db.all_funcs():
        ss = [x for x in f.calls(PTV + "::subtract_energy")]
        if ss:
            sub_funcs.append(f)
    eloss_like = [f for f in sub_funcs if any(not drains(e) for (_b, _i, e) in f.calls(PTV + "::subtract_energy"))]
    cut_like = [f for f in sub_funcs if any(drains(e) for (_b, _i, e) in f.calls(PTV + "::subtract_energy"))]
    for f in eloss_like:
        subs = [x for x in f.calls(PTV + "::subtract_energy") if not drains(x[2])]
        deps = list(f.calls(PSV + "::deposit_energy"))
        n_inst += 1
        for (bs, i_s, es) in subs:
            svars = local_refs(es["args"][0].get("refs", []))
            ok = False
            detail = "no deposit_energy of the same value in the same block"
            for (bd, i_d, ed) in deps:
                dvars = local_refs(ed["args"][0].get("refs", []))
                if bd == bs and dvars == svars and len(svars) == 1 \
                        and same_value_args(es["args"][0], ed["args"][0]):
                    var = next(iter(svars))
                    lo, hi = sorted((i_s, i_d))
                    redefined = any(e["e"] == "def" and e.get("var") == var
                                    for e in f.blocks[bs]["ev"][lo:hi])
                    if not redefined:
                        ok = True
                        detail = "both take `%s`" % var
            cx.ob("C01.2-pairing", "%s subtract@%s [%s]" % (f.name.split("::")[-2], short(es["loc"]),
                                                           f.inst.split("<")[-1][:60]),
                  ok, detail, short(es["loc"]),
                  why="continuous loss removed from the particle but not deposited (or a "
                      "different amount) is an energy leak on every charged step")
        # and conversely every deposit is paired
        for (bd, i_d, ed) in deps:
            ok = any(bs == bd for (bs, _i, _e) in subs)
            cx.ob("C01.2-pairing", "%s deposit@%s [%s]" % (f.name.split("::")[-2], short(ed["loc"]),
                                                          f.inst.split("<")[-1][:60]),
                  ok, "deposit paired with subtract in the same block" if ok else
                  "deposit without subtraction", short(ed["loc"]),
                  why="energy deposited but kept by the particle is counted twice")
    cx.floor("functions subtracting energy from the particle (instantiations)", n_inst + len(cut_like), 3)

    for f in cut_like:
        subs = [x for x in f.calls(PTV + "::subtract_energy") if drains(x[2])]
        deps = list(f.calls(PSV + "::deposit_energy"))
        if not deps:
            cx.ob("C01.2-trackingcut", "%s drains the particle and deposits" % f.name, False,
                  "subtract_energy(particle.energy()) without a deposit_energy in the same function",
                  short(f.loc), why="a drained particle's energy must be deposited")
            continue
        for (bs, i_s, es) in subs:
            a = es["args"][0]
            ok = PTV + "::energy" in a.get("calls", []) and local_refs(a.get("refs", [])) == \
                local_refs([es["recv"]["path"]["root"][2:]])
            cx.ob("C01.2-trackingcut", "drain particle@%s" % short(es["loc"]), ok,
                  "subtract_energy(%s)" % a["t"], short(es["loc"]),
                  why="a killed track must give up all of its kinetic energy")
        for (bd, i_d, ed) in deps:
            dvars = local_refs(ed["args"][0].get("refs", []))
            ok = len(dvars) == 1
            var = next(iter(dvars)) if dvars else "?"
            defs = f.reaching_defs(var, (bd, i_d)) if ok else []
            base_ok = False
            anti_ok = False
            other = []
            for (b, i, d) in defs:
                calls = set(d.get("calls", []))
                if d.get("kind") == "decl" and PTV + "::energy" in calls:
                    base_ok = True
                elif d.get("kind") == "compound" and d.get("op") == "+=" \
                        and has_mass(calls) and re.search(r"\b2(\.0*)?\b", d.get("rhs", "")):
                    # must be on the antiparticle edge
                    for br in f.branch_blocks(lambda c, blk: is_anti(c)):
                        e = f.cond_polarity_edge(br, True)
                        if f.guarded_by_edge((b, i), br, e):
                            anti_ok = True
                else:
                    other.append(d.get("rhs", d.get("lhs", "?")))
            cx.ob("C01.2-trackingcut", "deposit value defined from particle.energy()",
                  ok and base_ok and not other,
                  "reaching definitions of `%s`: %s" % (var, [d[2].get("rhs") for d in defs]),
                  short(ed["loc"]),
                  why="the tracking cut must deposit exactly the remaining kinetic energy")
            # on the antiparticle edge every path to the deposit adds 2*mass
            br_ok = False
            for br in f.branch_blocks(lambda c, blk: is_anti(c)):
                e = f.cond_polarity_edge(br, True)
                tgt = f.blocks[br]["succ"][e]
                if tgt is None:
                    continue

                def is_add(ev):
                    return ev["e"] == "def" and ev.get("var") == var and ev.get("op") == "+=" \
                        and has_mass(ev.get("calls", [])) \
                        and re.search(r"\b2(\.0*)?\b", ev.get("rhs", ""))

                def is_dep(ev):
                    return ev["e"] == "call" and ev["callee"] == PSV + "::deposit_energy"
                # every path from the true edge to the deposit passes the addition
                blocked = [b for b in f.blocks if any(is_add(x) for x in f.blocks[b]["ev"])]
                r = f.reach([tgt], blocked_blocks=blocked)
                br_ok = bd not in r and anti_ok
            cx.ob("C01.2-trackingcut", "antiparticle edge adds 2*mass before deposit", br_ok,
                  "is_antiparticle() true edge -> `%s += 2*mass` dominates deposit_energy" % var,
                  short(ed["loc"]),
                  why="a positron killed by the tracking cut annihilates: 2mc^2 must be booked")

    # -------------------------------------------- rule 3: killed-secondary booking
    SEC_PID = "F:" + C + "Secondary::particle_id"
    SEC_E = "F:" + C + "Secondary::energy"
    sites = 0
    nbook = 0
    for f in db.all_funcs():
        if not f.name.startswith(C):
            continue
        resets = [(b, i, ev) for (b, i, ev) in f.events("write")
                  if ev.get("kind") == "opassign" and ev.get("rhs") in ("{}", "Secondary{}",
                                                                         "celeritas::Secondary{}")
                  and is_secondary_reset(f, b, i, ev)]
        books = [(b, i, ev) for (b, i, ev) in f.events()
                 if ev["e"] in ("def", "write") and SEC_E in ev.get("refs", [])
                 and booking_target(ev)]
        if not resets and not books:
            continue
        if f.name.endswith("::from_failure") or not (resets or books):
            continue
        for (b, i, ev) in resets:
            sites += 1
            same = [x for x in books if f.dominates((x[0], x[1]), (b, i))]
            ok = bool(same)
            cx.ob("C01.3-killed-secondary", "reset@%s in %s" % (short(ev["loc"]), f.name),
                  ok, "secondary cleared; its energy is booked on every path reaching it: %s"
                  % ([x[2].get("lhs", x[2].get("var")) for x in same]), short(ev["loc"]),
                  why="a secondary that is dropped without depositing its energy loses it")
            # 2mc^2 requirement unless the secondary type is statically e-/gamma
            pid_writes = [w for (_b, _i, w) in f.events("write")
                          if path_leaf(w.get("path")) == C + "Secondary::particle_id"]
            static_light = bool(pid_writes) and all(
                any(r.startswith("F:") and r.split("::")[-1] in ("electron", "gamma")
                    for r in w.get("refs", [])) for w in pid_writes)
            if static_light:
                cx.ob("C01.3-antiparticle", "reset@%s in %s" % (short(ev["loc"]), f.name), True,
                      "secondary type is statically electron/gamma (%s)"
                      % [w.get("rhs") for w in pid_writes], short(ev["loc"]))
            else:
                anti = False
                whose = "nothing (no antiparticle test)"
                for br in f.branch_blocks(lambda c, blk: is_anti(c)):
                    e = f.cond_polarity_edge(br, True)
                    tgt = f.blocks[br]["succ"][e]
                    if tgt is None:
                        continue

                    def is_add(x):
                        return x["e"] in ("def", "write") and x.get("op") == "+=" \
                            and has_mass(x.get("calls", [])) \
                            and re.search(r"\b2(\.0*)?\b", x.get("rhs", ""))
                    blocked = [bb for bb in f.blocks
                               if any(is_add(x) for x in f.blocks[bb]["ev"])]
                    r = f.reach([tgt], blocked_blocks=blocked)
                    # reset block must be reachable from the branch and only via the add
                    if b not in r and b in f.reach([br]) and blocked:
                        # ... and the particle that is asked must be the secondary's own type:
                        # a view built from Secondary::particle_id, not the parent's track view
                        c = f.blocks[br]["cond"]
                        of_sec = SEC_PID in c.get("refs", []) + c.get("allrefs", [])
                        for v in local_refs(c.get("refs", [])):
                            for (_b2, _i2, d) in f.reaching_defs(v, (br, 10 ** 6)):
                                if SEC_PID in d.get("refs", []):
                                    of_sec = True
                        whose = "the secondary's particle type" if of_sec else \
                            "ANOTHER particle (`%s`)" % c.get("t")
                        anti = anti or of_sec
                cx.ob("C01.3-antiparticle", "reset@%s in %s" % (short(ev["loc"]), f.name), anti,
                      "antiparticle edge adds 2*mass before the secondary is cleared; the test asks %s"
                      % whose, short(ev["loc"]),
                      why="a killed positron secondary annihilates: 2mc^2 must be deposited - for the "
                          "secondary's own type, whatever the parent is")
        nbook += len(books)
        for (b, i, ev) in books:
            def is_reset(x, _rs=[r[2]["loc"] for r in resets]):
                return x["e"] == "write" and x.get("kind") == "opassign" and x["loc"] in _rs
            ok, _p = f.must_pass(is_reset, start=(b, i)) if resets else (False, None)
            cx.ob("C01.3-booked-implies-cleared", "booking@%s in %s" % (short(ev["loc"]), f.name),
                  ok, "energy of a secondary booked as local deposition and the secondary is "
                  "cleared on every path that follows" if ok else
                  "secondary energy booked as deposition but the secondary stays alive",
                  short(ev["loc"]),
                  why="otherwise the energy is counted twice: deposited and carried")
    cx.floor("secondary reset/booking sites", sites + nbook,
             4 if any("KleinNishina" in u for u in db.units) else 2)

    # the applier hands deposition and secondaries to the step view on every
    # non-failure path after the changed() test
    for f in db.get(IAPP):
        changed = [(b, i) for (b, i, ev) in f.calls(C + "Interaction::changed")]
        cx.require(changed, "InteractionApplier no longer tests Interaction::changed()")
        # polarity: paths where changed() is true
        for br in f.branch_blocks(lambda c, blk: C + "Interaction::changed" in c.get("calls", [])):
            e = f.cond_polarity_edge(br, True)
            tgt = f.blocks[br]["succ"][e]
            for what, callee in (("deposit_energy", PSV + "::deposit_energy"),
                                 ("secondaries", PSV + "::secondaries")):
                okp, path = f.must_pass(lambda ev, c=callee: ev["e"] == "call" and ev["callee"] == c,
                                        start=(tgt, -1))
                cx.ob("C01.3-handover", "%s on every changed path [%s]" %
                      (what, f.inst.split("<")[-1][:50]), okp,
                      "must-pass from the changed() edge to return", short(f.loc),
                      path=f.path_locs(path),
                      why="an interaction whose deposition/secondaries are not handed to the "
                          "step view loses that energy")
        # the deposit argument is the accumulator that received the cleared energies
        for (b, i, ev) in f.calls(PSV + "::deposit_energy"):
            dv = local_refs(ev["args"][0].get("refs", []))
            acc = set()
            for (_b, _i, d) in f.events("def"):
                if SEC_E in d.get("refs", []) and d.get("op") == "+=":
                    acc.add(d.get("var"))
            ok = bool(dv) and acc <= dv and len(dv) == 1
            init_ok = False
            for (_b, _i, d) in f.reaching_defs(next(iter(dv)), (b, i)) if dv else []:
                if d.get("kind") == "decl" and "F:" + C + "Interaction::energy_deposition" \
                        in d.get("refs", []):
                    init_ok = True
            cx.ob("C01.3-handover", "deposit argument is the accumulator [%s]"
                  % f.inst.split("<")[-1][:50], ok and init_ok,
                  "deposit_energy(%s); accumulator(s) %s; initialised from "
                  "Interaction::energy_deposition: %s" % (ev["args"][0]["t"], sorted(acc), init_ok),
                  short(ev["loc"]),
                  why="the deposited value must be the interaction's deposition plus every "
                      "cleared secondary")

    # ------------------------------------------------ rule 4: range-limited step
    fs = db.get(C + "calc_mean_energy_loss")
    if fs:
        for f in fs:
            ok = False
            detail = "no return of the pre-step energy guarded by step==range"
            rets = [(b, i, ev) for (b, i, ev) in f.events("return")]
            for (b, i, ev) in rets:
                refs = local_refs(ev.get("refs", []))
                if not refs or ev.get("calls"):
                    continue
                var = next(iter(refs))
                defs = f.reaching_defs(var, (b, i))
                if defs and all(PTV + "::energy" in d[2].get("calls", []) and
                                d[2].get("kind") == "decl" for d in defs):
                    # guarded by a comparison mentioning range
                    for br in f.branch_blocks(lambda c, blk: c.get("op") in ("==", ">=")
                                              and any("range" in r for r in c.get("lrefs", [])
                                                      + c.get("rrefs", []))):
                        e = f.cond_polarity_edge(br, True)
                        if f.guarded_by_edge((b, i), br, e):
                            ok = True
                            detail = "`return %s` (= particle.energy()) on the edge %s" % (
                                var, f.blocks[br]["cond"]["t"])
            cx.ob("C01.4-range-limited", "calc_mean_energy_loss returns the full energy", ok,
                  detail, short(f.loc),
                  why="when the step equals the range the particle must lose exactly its "
                      "remaining energy; interpolation error would leave a residue")
    else:
        cx.require(False, "anchor calc_mean_energy_loss not found")

    # ------------------------------- rule 5: a track is ended only with its energy accounted
    kill_accounts_energy(db, cx, "C01.5-kill-accounts")
    at_rest_flag(db, cx, "C01.5-at-rest-flag")


def at_rest_flag(db, cx, rule):
    """ElossApplier decides between "kill" and "force the at-rest interaction" for a stopped
    particle by ProcessGroup::has_at_rest.  For a positron the at-rest interaction is the
    annihilation that emits 2mc^2; if the flag is false the track is killed and that energy is
    neither emitted nor deposited.  The flag is a property of the particle's processes: no write
    of it in PhysicsParams::build_xs may be control-dependent on the run options."""
    fs = db.get(C + "PhysicsParams::build_xs")
    cx.require(fs, "anchor PhysicsParams::build_xs not found")
    n = 0
    for f in fs:
        optp = [p_["n"] for p_ in f.r["params"] if "Options" in p_.get("cty", p_.get("ty", ""))]
        cx.require(optp, "PhysicsParams::build_xs has no Options parameter")
        brs = [b for b in f.branch_blocks(lambda c, _b: True) if None not in f.blocks[b]["succ"]]

        def derives_from_options(names, pos, depth=4):
            seen, frontier = set(), set(names)
            for _ in range(depth):
                if frontier & set(optp):
                    return True
                nxt = set()
                for v in local_refs(frontier):
                    if v in seen:
                        continue
                    seen.add(v)
                    for (_b, _i, d) in f.reaching_defs(v, pos):
                        nxt |= set(d.get("refs", []))
                frontier = nxt
                if not frontier:
                    break
            return bool(frontier & set(optp))
        for (b, i, ev) in f.events("write"):
            if not (path_leaf(ev.get("path")) or "").endswith("ProcessGroup::has_at_rest"):
                continue
            bad = []
            for br in brs:
                c = f.blocks[br]["cond"]
                if any(f.guarded_by_edge((b, i), br, e_) for e_ in (0, 1)) and \
                        derives_from_options(c.get("refs", []), (br, 0)):
                    bad.append(c.get("t", "")[:60])
            if derives_from_options(ev.get("refs", []), (b, i)):
                bad.append("value: " + (ev.get("rhs") or "")[:40])
            n += 1
            cx.ob(rule, "has_at_rest %s %s @%s does not depend on the run options"
                  % (ev.get("op"), (ev.get("rhs") or "")[:30], short(ev["loc"]).split(":", 1)[1]), not bad,
                  "depends on: %s" % "; ".join(sorted(set(bad))) if bad else "", short(ev["loc"]),
                  why="with the flag false a stopped positron is killed instead of annihilating: the "
                      "2mc^2 of the destroyed positron is neither emitted nor deposited")
    cx.floor("writes of ProcessGroup::has_at_rest", n, 2)


def kill_accounts_energy(db, cx, rule):
    """Every status(killed) site of the stepping loop sits where the track's remaining kinetic
    energy is accounted for: zero (is_stopped edge of ElossApplier), handed to the interaction's
    deposition (absorbed edge of InteractionApplier), drained and deposited (TrackingCutExecutor,
    checked by C01.2-trackingcut) or carried out of the world (is_outside edge of
    BoundaryExecutor).  A kill on any other edge drops whatever energy the particle still has."""
    STATUS = C + "SimTrackView::status"

    def stopped(c):
        calls = c.get("allcalls", c.get("calls", []))
        if PTV + "::is_stopped" in calls:
            return True
        return c.get("op") == "==" and PTV + "::energy" in calls and \
            ("zero_quantity" in c.get("t", "") or c.get("rlit") in ("0", "0.0"))

    def absorbed(c):
        return "F:" + C + "Interaction::action" in c.get("allrefs", c.get("refs", [])) \
            and "absorbed" in c.get("t", "") and c.get("op") in ("==", "!=")

    def outside(c):
        return any(x.endswith("TrackView::is_outside") for x in c.get("allcalls", c.get("calls", [])))
    table = {
        ELOSS: ("the particle is stopped (zero energy)", stopped, lambda c: True),
        IAPP: ("the interaction absorbed the particle", absorbed, lambda c: c.get("op") == "=="),
        C + "detail::BoundaryExecutor::operator()": ("the track left the world", outside, lambda c: True),
    }
    n = 0
    for f, ev in db.callers_of(STATUS):
        if len(ev.get("args", [])) != 1 or not ev["args"][0].get("enum", "").endswith("::killed"):
            continue
        if "optical" in f.name or f.name == TCUT:
            continue
        if f.name not in table:
            continue    # a new kill site is reported by the status typestate rule (C02/C16)
        what, pred, want = table[f.name]
        pos = next(((b, i) for (b, i, e2) in f.events("call") if e2 is ev), None)
        ok, det = False, "no guarding branch"
        for br in f.branch_blocks(lambda c, _b: pred(c)):
            if None in f.blocks[br]["succ"]:
                continue
            c = f.blocks[br]["cond"]
            e = f.cond_polarity_edge(br, want(c))
            if f.guarded_by_edge(pos, br, e):
                ok, det = True, "on the %s edge of `%s`" % (want(c), c.get("t", ""))
        n += 1
        cx.ob(rule, "%s: status(killed)@%s only where %s [%s]"
              % (f.name.split("::")[-2], short(ev["loc"]), what, f.inst.split("<")[-1][:30]), ok, det,
              short(ev["loc"]),
              why="ending the track on any other edge discards the kinetic energy it still carries: "
                  "it is neither deposited nor carried out of the world")
    cx.floor("guarded kill sites", n, 3)


def is_anti(c):
    calls = c.get("calls", [])
    return PTV + "::is_antiparticle" in calls or C + "ParticleView::is_antiparticle" in calls


def has_mass(calls):
    return PTV + "::mass" in calls or C + "ParticleView::mass" in calls


def is_secondary_reset(f, b, i, ev):
    # the operator= callee just before the write event is Secondary::operator=
    evs = f.blocks[b]["ev"]
    if i > 0 and evs[i - 1]["e"] == "call" and evs[i - 1]["callee"] == C + "Secondary::operator=":
        return True
    return False


def booking_target(ev):
    """A secondary's energy flows into a deposition accumulator / field."""
    if ev["e"] == "def":
        return ev.get("op") == "+=" or ev.get("kind") in ("assign",)
    if ev["e"] == "write":
        return path_leaf(ev.get("path")) == C + "Interaction::energy_deposition"
    return False
