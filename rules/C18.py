"""C18 - only the comparison-based algorithms of corecel/math/Algorithms.hh are decided (sort,
partition, binary / linear search, min_element, quantifiers), exactly, for every input up to a
bounded length, by interpreting their AST over the finite domain of orderings.  Grid lookups,
interpolators, integer helpers, Range / enumerate and the indexers are NOT decided."""
import bisect
import itertools
import os

from astutil import OutOfVocabulary, show
from common import C, short
from facts import AnalysisBroken
import ordinterp
from ordinterp import Arr, Box, Elem, Functor, Machine, Ptr, Violation

LEVEL_TEXT = (
    "Exact abstract interpretation of the device-portable algorithms of corecel/math/Algorithms.hh "
    "and detail/AlgorithmsImpl.hh. The algorithms read element values only through the comparator / "
    "predicate and through moves and swaps (checked structurally, C18.1), so their behaviour on all "
    "inputs of length n is determined by a finite abstract input: a weak ordering (with ties) of the "
    "n positions for sort / min_element, a boolean vector for partition / all_of / any_of, a sorted "
    "sequence with ties plus the position of the probe for the searches, the outcomes of the binary "
    "predicate for all_adjacent. The emitted AST of every function on the call path (public wrapper "
    "-> *_impl -> sift_down / trivial_swap / move / half_positive / Less<>) is interpreted in Python "
    "over (array, index) iterators and opaque element identities for every abstract input of length "
    "n <= N and compared with the reference semantics (sortedness + permutation, bisect, all/any); "
    "iterators leaving [first, last], out-of-range dereferences and non-termination within a step "
    "budget are violations with the abstract input as counterexample. Nothing is compiled or run.")
EXPLANATION = LEVEL_TEXT
NOT_DECIDED = (
    "everything in C18 other than the comparison-based algorithms: uniform / non-uniform grid lookups, "
    "FindInterp, Interpolator, Twod(Sub)gridCalculator and any value one ulp either side of a grid "
    "point (floating-point behaviour is not modelled); the integer math helpers (ceil_div, ipow, "
    "fastpow, ...) and clamp / min / max; Range, enumerate and Span utilities; HyperslabIndexer and "
    "RaggedRightIndexer; sequences longer than N (sort / min_element / searches N = 6 quick, 7 thorough; "
    "partition and the quantifiers N = 10); iterators other than contiguous pointers; element types "
    "that are not trivially copyable; comparators of the code base that are not strict weak orderings "
    "(the call sites are not audited)")
TECHNIQUE = (
    "abstract interpretation of the algorithm ASTs over the finite domain of orderings "
    "(lib/ordinterp.py): weak orderings with ties x {less, greater} for sort and min_element, boolean "
    "vectors for partition / all_of / any_of, sorted sequences with ties x probe positions x {less, "
    "greater} for the searches, decision-tree exploration of the binary predicate for all_adjacent; "
    "structural check that element values flow only into comparator / predicate arguments and moves")

UNITS = []                       # only the witness unit is parsed (header-only templates)
WHOLE_PROGRAM_THOROUGH = False   # the thorough tier raises N, it does not add units
WITNESS = {"witness/c18_algorithms.cc": "src/corecel/io/Label.cc"}

D = C + "detail::"
W = "c18w::"
ITEM = W + "Item"
COMP, PRED, PRED2 = W + "Comp::operator()", W + "Pred::operator()", W + "Pred2::operator()"
P3 = "(%s *, %s *, " % (ITEM, ITEM)

# public entry points: name -> parameter list of the instantiation in the witness unit
ENTRY = {
    "sort":               (C + "sort", "(c18w::Item *, c18w::Item *, c18w::Comp)"),
    "sort/Less<>":        (C + "sort", "(c18w::Item *, c18w::Item *)"),
    "partition":          (C + "partition", "(c18w::Item *, c18w::Item *, c18w::Pred)"),
    "lower_bound":        (C + "lower_bound", P3 + "const c18w::Item &, c18w::Comp)"),
    "lower_bound/Less<>": (C + "lower_bound", P3 + "const c18w::Item &)"),
    "lower_bound_linear": (C + "lower_bound_linear", P3 + "const c18w::Item &, c18w::Comp)"),
    "lower_bound_linear/Less<>": (C + "lower_bound_linear", P3 + "const c18w::Item &)"),
    "upper_bound":        (C + "upper_bound", P3 + "const c18w::Item &, c18w::Comp)"),
    "upper_bound/Less<>": (C + "upper_bound", P3 + "const c18w::Item &)"),
    "find_sorted":        (C + "find_sorted", P3 + "const c18w::Item &, c18w::Comp)"),
    "find_sorted/Less<>": (C + "find_sorted", P3 + "const c18w::Item &)"),
    "min_element":        (C + "min_element", P3 + "c18w::Comp)"),
    "min_element/Less<>": (C + "min_element", "(c18w::Item *, c18w::Item *)"),
    "all_of":             (C + "all_of", P3 + "c18w::Pred)"),
    "any_of":             (C + "any_of", P3 + "c18w::Pred)"),
    "all_adjacent":       (C + "all_adjacent", P3 + "c18w::Pred2)"),
    # not public, but only reached from sort() with middle == last: checked on its own as well
    "partial_sort":       (D + "partial_sort", P3 + "c18w::Item *, c18w::Comp &)"),
}
# functions that must have been reached (and interpreted) from the public entries
MUST_REACH = [D + x for x in (
    "heapsort_impl", "partial_sort", "make_heap", "sort_heap", "pop_heap", "sift_down",
    "partition_impl", "lower_bound_impl", "upper_bound_impl", "lower_bound_linear_impl",
    "half_positive", "trivial_move")] + [C + "trivial_swap", C + "move", C + "Less::operator()"]

WHY = ("these routines replace std:: algorithms inside kernels (sorting intersection distances, "
       "locating energy bins); a wrong result for one ordering silently corrupts navigation or "
       "physics far from the routine")


def is_functor_type(ty):
    return ty in (W + "Comp", W + "Pred", W + "Pred2") or ty.startswith(C + "Less<")


# ------------------------------------------------------------------------- abstract inputs
_WO = {}


def weak_orderings(n):
    if n not in _WO:
        _WO[n] = _weak_orderings(n)
    return _WO[n]


def _weak_orderings(n):
    """All rank vectors of n positions whose ranks are exactly 0..k-1 (ordered Bell number many)."""
    if n == 0:
        return [()]
    out = []
    for t in itertools.product(range(n), repeat=n):
        k = max(t) + 1
        if len(set(t)) == k:
            out.append(t)
    return out


def sorted_with_ties(n):
    """Non-decreasing rank vectors 0..k-1 without gaps (2^(n-1) of them)."""
    if n == 0:
        return [()]
    out = []
    for steps in itertools.product((0, 1), repeat=n - 1):
        r = [0]
        for s in steps:
            r.append(r[-1] + s)
        out.append(tuple(r))
    return out


ELEMS = [Elem(i) for i in range(16)]


class Bench(object):
    """The machine plus the bookkeeping of one check run."""

    def __init__(self, db):
        self.m = Machine(db, is_functor_type)
        self.m.ext = {COMP: None, PRED: None, PRED2: None}
        self.fn = {}
        self.max_steps = {}

    def entry(self, key):
        f = self.fn.get(key)
        if f is None:
            name, sig = ENTRY[key]
            f = self.m.entry(name, sig)
            self.fn[key] = f
        return f

    def run(self, key, args, n):
        m = self.m
        m.reset(10 * n * n + 100)
        r = m.call(self.entry(key), args)
        if m.steps > self.max_steps.get(key, 0):
            self.max_steps[key] = m.steps
        return r


def at(v):
    return " [%s]" % short(v.loc) if v.loc else ""


def fmt_rank(r):
    return "[" + ",".join(str(x) for x in r) + "]"


# ------------------------------------------------------------------------------- C18.1
ELEM_TYPES = (ITEM, "const " + ITEM)
WRAPPERS = ("ParenExpr", "ExprWithCleanups", "MaterializeTemporaryExpr", "ConstantExpr",
            "CXXBindTemporaryExpr", "InitListExpr")
ELEM_PASSING = set([C + "trivial_swap", C + "move", C + "forward", D + "trivial_move"])


def comparison_only(rec, interpreted_names):
    """Uses of an element value that are neither a comparator / predicate argument nor a move /
    copy / swap.  Returns a list of descriptions (empty = comparison-only)."""
    bad = []
    is_less = rec["name"] == C + "Less::operator()"
    # `ret` is the declared (non-canonical) text, e.g. `typename std::remove_reference<T>::type &&`
    ret_elem = ITEM in rec.get("ret", "") or rec["name"] in ELEM_PASSING

    def elem(n):
        return n is not None and n.get("ty") in ELEM_TYPES and n["k"] != "VarDecl"

    def visit(n, parent, idx):
        if n is None:
            return
        if elem(n):
            why = check(n, parent, idx)
            if why:
                bad.append("%s at %s" % (why, short(n.get("loc", ""))))
        for i, c in enumerate(n["c"]):
            visit(c, n, i)

    def check(n, p, idx):
        if p is None:
            return "element expression without context"
        k = p["k"]
        if k in WRAPPERS and (elem(p) or k == "InitListExpr"):
            return None
        if k in ordinterp.CASTS:
            if p.get("cast") in ("NoOp", "LValueToRValue") and elem(p):
                return None
            if p.get("cast") == "ToVoid":
                return None
            return "element value is converted (%s to %s)" % (p.get("cast"), p.get("ty"))
        if k == "VarDecl":
            return None if _elem_decl(p.get("ty", "")) else \
                "element value initialises `%s` of type %s" % (p.get("name"), p.get("ty"))
        if k == "CXXOperatorCallExpr" and p.get("oop") == "()" and idx >= 2:
            cal = p.get("callee", "")
            return None if (cal in (COMP, PRED, PRED2) or cal == C + "Less::operator()") else \
                "element value is passed to %s" % cal
        if k == "CallExpr" and idx >= 1:
            cal = p.get("callee", "")
            return None if (cal in ELEM_PASSING or cal in interpreted_names) else \
                "element value is passed to %s" % cal
        if k == "BinaryOperator":
            op = p["op"]
            if op == "=" and elem(p):
                return None
            if op == ",":
                return None
            if is_less and op == "<":
                return None
            return "element value is an operand of the built-in `%s`" % op
        if k == "UnaryOperator" and p["op"] == "&":
            return None
        if k == "ReturnStmt":
            return None if ret_elem else "element value is returned from %s" % rec["name"]
        if k == "ConditionalOperator" and idx >= 1 and elem(p):
            return None
        if k in ("CompoundStmt", "ForStmt", "IfStmt", "WhileStmt", "DoStmt"):
            # discarded-value expression statement (an element-typed *condition* cannot occur: a
            # scoped enumeration is not contextually convertible to bool)
            return None
        return "element value is used by %s%s" % (k, " " + p.get("op", "") if p.get("op") else "")

    visit(rec["ast"], None, 0)
    return bad


def _elem_decl(ty):
    t = ty.replace("const ", "").replace("&", "").strip()
    return t == ITEM


# ---------------------------------------------------------------------------------- run
def run(db, cx):
    N = 7 if cx.tier == "thorough" else 6
    NB = 10
    cx.assume("elements are trivially copyable scalars (witness type: a scoped enumeration); "
              "iterators are raw pointers; comparators are strict weak orderings, predicates are "
              "pure functions of the element value")
    cx.assume("lengths n <= %d for sort / min_element / searches, n <= %d for partition and the "
              "quantifiers" % (N, NB))
    b = Bench(db)
    m = b.m
    # anchors: every public entry has an interpreted body in the witness instantiation
    for key in sorted(ENTRY):
        name, sig = ENTRY[key]
        cx.require(m.table.get((name, ordinterp.param_sig(sig))),
                   "anchor %s%s: no instantiation with an expression tree in the witness unit"
                   % (name, sig))
        b.entry(key)           # compiles the whole call tree: OutOfVocabulary -> exit 2

    structural(db, cx, m)
    check_sort(cx, b, N)
    check_partial_sort(cx, b, N - 1)
    check_partition(cx, b, NB)
    check_search(cx, b, N)
    check_min_element(cx, b, N)
    check_quantifiers(cx, b, NB, N + 1)

    used_names = set(c.name for c in m.compiled.values() if c.inst in m.used)
    # anchors that must have been reached from the public entries.  As for instance floors, a
    # definite violation found above takes precedence (a wrapper wired to the wrong impl both
    # fails C18.4 and leaves the right impl unreached); with no violation the run is broken.
    missing = [nm for nm in MUST_REACH if nm not in used_names]
    if missing:
        msg = "anchor(s) %s no longer reached from the public algorithms (interpreted: %s)" % (
            ", ".join(missing), sorted(x.split("::")[-1] for x in used_names))
        if all(o["ok"] for o in cx.obs):
            raise AnalysisBroken(msg)
        cx.notes.append(msg)
        print("note: " + msg)
    cx.floor("function instantiations interpreted from their AST", len(m.used), 45)
    cx.count("max interpreter steps per run", dict(b.max_steps))
    cx.sample({"interpreted": sorted(m.used)})


def structural(db, cx, m):
    """C18.1: element values flow only into comparator / predicate arguments and moves."""
    names = set(c.name for c in m.compiled.values())
    seen = 0
    for c in sorted(m.compiled.values(), key=lambda c: c.inst):
        bad = comparison_only(c.rec, names)
        if bad:
            # not a verdict on the algorithm: the ordering domain is no longer exact for it
            raise AnalysisBroken(
                "C18.1-comparison-only: %s uses element values outside comparator / predicate "
                "arguments and moves (%s); the ordering abstraction is not exact for this shape"
                % (c.inst, "; ".join(bad[:4])))
        seen += 1
        cx.ob("C18.1-comparison-only", c.inst, True, "elements only reach comp / pred / moves",
              short(c.loc))
    cx.floor("functions checked comparison-only", seen, 45)


def check_sort(cx, b, N):
    for key, modes in (("sort", ("less", "greater")), ("sort/Less<>", ("natural",))):
        fn = b.entry(key)
        for n in range(0, N + 1):
            cex = None
            runs = 0
            for r in weak_orderings(n):
                for mode in modes:
                    runs += 1
                    cex = sort_one(b, key, n, r, mode)
                    if cex:
                        break
                if cex:
                    break
            cx.ob("C18.2-sort", "%s n=%d" % (key, n), cex is None,
                  cex or "%d weak orderings x %s: sorted w.r.t. comp and a permutation of the "
                  "input" % (runs // len(modes), "/".join(modes)), short(fn.loc), why=WHY)


def check_partial_sort(cx, b, N):
    """detail::partial_sort(first, middle, last): afterwards [first, middle) holds the
    (middle - first) smallest elements in order and the whole range is a permutation."""
    m = b.m
    fn = b.entry("partial_sort")
    for n in range(0, N + 1):
        cex = None
        runs = 0
        for r in weak_orderings(n):
            rank = list(r)
            for mid in range(0, n + 1):
                for mode in ("less", "greater"):
                    runs += 1
                    if mode == "greater":
                        m.ext[COMP] = lambda x, y: rank[x.id] > rank[y.id]
                    else:
                        m.ext[COMP] = lambda x, y: rank[x.id] < rank[y.id]
                    arr = Arr(ELEMS[:n])
                    what = "ranks %s, middle=%d, comp=%s" % (fmt_rank(r), mid, mode)
                    try:
                        b.run("partial_sort", [Ptr(arr, 0), Ptr(arr, mid), Ptr(arr, n),
                                               Box(Functor(W + "Comp"))], n)
                    except Violation as v:
                        cex = "%s: %s%s" % (what, v, at(v))
                        break
                    ids = [e.id for e in arr.cells]
                    head = [rank[i] for i in ids[:mid]]
                    if sorted(ids) != list(range(n)):
                        cex = "%s: result is not a permutation of the input (element ids %s)" % (what, ids)
                    elif head != sorted(rank, reverse=(mode == "greater"))[:mid]:
                        cex = "%s: [first, middle) holds ranks %s, expected %s" % (
                            what, fmt_rank(head),
                            fmt_rank(sorted(rank, reverse=(mode == "greater"))[:mid]))
                    if cex:
                        break
                if cex:
                    break
            if cex:
                break
        cx.ob("C18.2-sort", "partial_sort n=%d" % n, cex is None,
              cex or "%d (weak ordering, middle, comparator) cases: the smallest middle-first "
              "elements in order, permutation preserved" % runs, short(fn.loc), why=WHY)


def sort_one(b, key, n, r, mode):
    m = b.m
    rank = list(r)
    if mode == "greater":
        m.ext[COMP] = lambda x, y: rank[x.id] > rank[y.id]
    else:
        m.ext[COMP] = lambda x, y: rank[x.id] < rank[y.id]
    m.key = lambda e: rank[e.id]
    arr = Arr(ELEMS[:n])
    args = [Ptr(arr, 0), Ptr(arr, n)]
    if key == "sort":
        args.append(Functor(W + "Comp"))
    try:
        b.run(key, args, n)
    except Violation as v:
        return "ranks %s, comp=%s: %s%s" % (fmt_rank(r), mode, v, at(v))
    ids = [e.id for e in arr.cells]
    if sorted(ids) != list(range(n)):
        return "ranks %s, comp=%s: result is not a permutation of the input (element ids %s)" \
            % (fmt_rank(r), mode, ids)
    out = [rank[i] for i in ids]
    want = sorted(out, reverse=(mode == "greater"))
    if out != want:
        return "ranks %s, comp=%s: result ranks %s are not sorted" % (fmt_rank(r), mode,
                                                                      fmt_rank(out))
    return None


def check_partition(cx, b, NB):
    fn = b.entry("partition")
    m = b.m
    for n in range(0, NB + 1):
        cex = None
        runs = 0
        for t in itertools.product((False, True), repeat=n):
            runs += 1
            m.ext[PRED] = lambda x: t[x.id]
            arr = Arr(ELEMS[:n])
            bits = "".join("T" if x else "F" for x in t)
            try:
                res = b.run("partition", [Ptr(arr, 0), Ptr(arr, n), Functor(W + "Pred")], n)
            except Violation as v:
                cex = "pred = %s: %s%s" % (bits, v, at(v))
                break
            ids = [e.id for e in arr.cells]
            k = sum(t)
            outb = "".join("T" if t[i] else "F" for i in ids) if sorted(ids) == list(range(n)) else "?"
            if sorted(ids) != list(range(n)):
                cex = "pred = %s: result is not a permutation of the input (element ids %s)" % (bits, ids)
            elif outb != "T" * k + "F" * (n - k):
                cex = "pred = %s: result %s is not partitioned" % (bits, outb)
            elif type(res) is not Ptr or res.arr is not arr or res.i != k:
                cex = "pred = %s: returned position %s, expected %d (number of true elements)" \
                    % (bits, getattr(res, "i", res), k)
            if cex:
                break
        cx.ob("C18.3-partition", "partition n=%d" % n, cex is None,
              cex or "%d boolean vectors: true before false, multiset preserved, returned "
              "iterator = number of true elements" % runs, short(fn.loc), why=WHY)


SEARCHES = ("lower_bound", "lower_bound_linear", "upper_bound", "find_sorted")


def search_reference(alg, keys, probe):
    """keys ascending w.r.t. the comparator (already negated for `greater`)."""
    lo = bisect.bisect_left(keys, probe)
    if alg in ("lower_bound", "lower_bound_linear"):
        return lo
    if alg == "upper_bound":
        return bisect.bisect_right(keys, probe)
    return lo if (lo < len(keys) and keys[lo] == probe) else len(keys)


def check_search(cx, b, N):
    m = b.m
    for alg in SEARCHES:
        for key, modes in ((alg, ("less", "greater")), (alg + "/Less<>", ("natural",))):
            fn = b.entry(key)
            for n in range(0, N + 1):
                cex = None
                runs = 0
                for r in sorted_with_ties(n):
                    k = (r[-1] + 1) if n else 0
                    for probe in range(0, 2 * k + 1):      # even: between / outside, odd: equal
                        for mode in modes:
                            runs += 1
                            cex = search_one(b, alg, key, n, r, probe, mode)
                            if cex:
                                break
                        if cex:
                            break
                    if cex:
                        break
                cx.ob("C18.4-search", "%s n=%d" % (key, n), cex is None,
                      cex or "%d (sorted sequence with ties, probe position, comparator) cases "
                      "agree with bisect" % runs, short(fn.loc), why=WHY)


def search_one(b, alg, key, n, r, probe, mode):
    m = b.m
    # key of element id i: odd numbers; the probe (id n) may be equal (odd) or strictly between
    val = [2 * x + 1 for x in r]
    if mode == "greater":
        val = val[::-1]                      # descending sequence: sorted w.r.t. greater
        m.ext[COMP] = lambda x, y: kv[x.id] > kv[y.id]
        ref_keys = [-v for v in val]
        ref_probe = -probe
    else:
        m.ext[COMP] = lambda x, y: kv[x.id] < kv[y.id]
        ref_keys = val
        ref_probe = probe
    kv = val + [probe]
    m.key = lambda e: kv[e.id]
    arr = Arr(ELEMS[:n])
    args = [Ptr(arr, 0), Ptr(arr, n), Box(ELEMS[n])]
    if "/" not in key:
        args.append(Functor(W + "Comp"))
    what = "sequence %s, value %s, comp=%s" % (fmt_rank(val), probe, mode)
    try:
        res = b.run(key, args, n)
    except Violation as v:
        return "%s: %s%s" % (what, v, at(v))
    if [e.id for e in arr.cells] != list(range(n)):
        return "%s: the search modified the sequence" % what
    want = search_reference(alg, ref_keys, ref_probe)
    if type(res) is not Ptr or res.arr is not arr or res.i != want:
        return "%s: returned position %s, reference %d" % (what, getattr(res, "i", res), want)
    return None


def check_min_element(cx, b, N):
    m = b.m
    for key, modes in (("min_element", ("less", "greater")), ("min_element/Less<>", ("natural",))):
        fn = b.entry(key)
        for n in range(0, N + 1):
            cex = None
            runs = 0
            for r in weak_orderings(n):
                rank = list(r)
                for mode in modes:
                    runs += 1
                    if mode == "greater":
                        m.ext[COMP] = lambda x, y: rank[x.id] > rank[y.id]
                        want = rank.index(max(rank)) if n else 0
                    else:
                        m.ext[COMP] = lambda x, y: rank[x.id] < rank[y.id]
                        want = rank.index(min(rank)) if n else 0
                    m.key = lambda e: rank[e.id]
                    arr = Arr(ELEMS[:n])
                    args = [Ptr(arr, 0), Ptr(arr, n)]
                    if key == "min_element":
                        args.append(Functor(W + "Comp"))
                    what = "ranks %s, comp=%s" % (fmt_rank(r), mode)
                    try:
                        res = b.run(key, args, n)
                    except Violation as v:
                        cex = "%s: %s%s" % (what, v, at(v))
                        break
                    if [e.id for e in arr.cells] != list(range(n)):
                        cex = "%s: min_element modified the sequence" % what
                    elif type(res) is not Ptr or res.arr is not arr or res.i != want:
                        cex = "%s: returned position %s, reference %d (first of the minima)" \
                            % (what, getattr(res, "i", res), want)
                    if cex:
                        break
                if cex:
                    break
            cx.ob("C18.5-min-element", "%s n=%d" % (key, n), cex is None,
                  cex or "%d weak orderings x %s: first minimal element (last for an empty range)"
                  % (runs // len(modes), "/".join(modes)), short(fn.loc), why=WHY)


class _Fork(Exception):
    pass


def check_quantifiers(cx, b, NB, NA):
    m = b.m
    for key, ref in (("all_of", all), ("any_of", any)):
        fn = b.entry(key)
        for n in range(0, NB + 1):
            cex = None
            runs = 0
            for t in itertools.product((False, True), repeat=n):
                runs += 1
                m.ext[PRED] = lambda x: t[x.id]
                arr = Arr(ELEMS[:n])
                bits = "".join("T" if x else "F" for x in t)
                try:
                    res = b.run(key, [Ptr(arr, 0), Ptr(arr, n), Functor(W + "Pred")], n)
                except Violation as v:
                    cex = "pred = %s: %s%s" % (bits, v, at(v))
                    break
                if [e.id for e in arr.cells] != list(range(n)):
                    cex = "pred = %s: the sequence was modified" % bits
                elif type(res) is not bool or res != ref(t):
                    cex = "pred = %s: returned %s, reference %s" % (bits, res, ref(t))
                if cex:
                    break
            cx.ob("C18.6-quantifiers", "%s n=%d" % (key, n), cex is None,
                  cex or "%d boolean vectors agree with Python %s()" % (runs, ref.__name__),
                  short(fn.loc), why=WHY)
    # all_adjacent: the binary predicate is an arbitrary relation on the elements; explore the
    # decision tree of its outcomes (each new ordered pair forks).  On every path the returned
    # value must be forced by the outcomes seen: True needs every adjacent pair queried and true,
    # False needs some adjacent pair queried and false.
    fn = b.entry("all_adjacent")
    for n in range(0, NA + 1):
        cex = None
        paths = 0
        stack = [[]]
        while stack and not cex:
            choices = stack.pop()
            memo = {}
            pos = [0]

            def p2(x, y):
                kq = (x.id, y.id)
                if kq in memo:
                    return memo[kq]
                if pos[0] >= len(choices):
                    raise _Fork()
                v = choices[pos[0]]
                pos[0] += 1
                memo[kq] = v
                return v
            m.ext[PRED2] = p2
            arr = Arr(ELEMS[:n])
            try:
                res = b.run("all_adjacent", [Ptr(arr, 0), Ptr(arr, n), Functor(W + "Pred2")], n)
            except _Fork:
                stack.append(choices + [False])
                stack.append(choices + [True])
                if len(stack) + paths > 20000:
                    raise OutOfVocabulary("all_adjacent n=%d: more than 20000 predicate paths" % n)
                continue
            except Violation as v:
                cex = "p outcomes %s: %s%s" % (_pairs(memo), v, at(v))
                break
            paths += 1
            adj = [(i, i + 1) for i in range(n - 1)]
            if [e.id for e in arr.cells] != list(range(n)):
                cex = "p outcomes %s: the sequence was modified" % _pairs(memo)
            elif res is True:
                miss = [q for q in adj if memo.get(q) is not True]
                if miss:
                    cex = "p outcomes %s: returned true without p(a[%d], a[%d]) being true" \
                        % (_pairs(memo), miss[0][0], miss[0][1])
            elif res is False:
                if not any(memo.get(q) is False for q in adj):
                    cex = "p outcomes %s: returned false although no adjacent pair failed" \
                        % _pairs(memo)
            else:
                cex = "returned %r" % (res,)
        cx.ob("C18.6-quantifiers", "all_adjacent n=%d" % n, cex is None,
              cex or "%d outcome paths of the binary predicate: result = all(p(a[i], a[i+1]))"
              % paths, short(fn.loc), why=WHY)


def _pairs(memo):
    return "{" + ", ".join("p(a[%d],a[%d])=%s" % (k[0], k[1], "T" if v else "F")
                           for k, v in sorted(memo.items())) + "}"
