"""C12 - transform-down o transform-up = id (affine abstract interpretation) and
surface-type table agreement.  Intersection/sense/normal consistency: not decided."""
import re
from fractions import Fraction
from cfg import path_leaf
from common import local_refs, C, short
from astutil import strip, find_all, show, OutOfVocabulary
from facts import AnalysisBroken
import witness

EXPLANATION = (
    "Affine abstract interpretation of the one-line transform_up/down and rotate_up/down bodies "
    "of NoTransformation, Translation and Transformation over the vocabulary gemv (with/without "
    "transpose, alpha/beta form), +, -, identity: the composition down(up(x)) and up(down(x)) "
    "reduces to x using only R^T R = R R^T = I, for all positions and all stored rotations/"
    "translations. Surface-type tables (enum, traits, visitor switch, name table) cover every "
    "enumerator exactly once.")
NOT_DECIDED = ("positivity/minimality of intersection distances, sense = sign of the surface "
               "function, normals, sense preservation under SurfaceTransformer/Simplifier "
               "(algebraic identities over floating point)")
LEVEL_NOTE = ("Assumption: the stored rotation matrix is orthonormal (checked by the class only "
              "with a debug assertion). SignedPermutation (bit-packed) is outside the vocabulary.")

TECHNIQUE = ('affine abstract interpretation (words over R, R^T with R^T R = I) of transform_up/down and rotate_up/down; polynomial-domain interpretation (exact, rational coefficients) of the quadric translators/transformer compared with f(x - t) / f(R^T (x - t)); constructor/accessor contradiction rule for surfaces rebuilt from accessors; data/control dependence of every solver exit on the leading coefficient; static_assert witness and switch/enum/name-table agreement')

UNITS = [
    "src/orange/OrangeParams.cc",
    "src/orange/OrangeTypes.cc",
    "src/orange/detail/OrangeInputIOImpl.json.cc",
    "src/orange/transform/Transformation.cc",
    "src/orange/surf/detail/SurfaceTranslator.cc",
    "src/orange/surf/Involute.cc",
    "src/orange/surf/detail/SurfaceTransformer.cc",
    "src/orange/surf/SurfaceSimplifier.cc",
    # instantiates calc_sense / calc_intersections / calc_normal of every surface class and
    # axis (LocalSurfaceVisitor inside the ORANGE tracker): C12.7-ray-consistency
    "src/orange/RaytraceImager.cc",
]


# affine forms: dict {(kind, word): coeff}; kind 'x' (input) or 't' (translation);
# word = tuple over {'R','T'} applied left-to-right as matrix product M1 M2 ... v
def reduce_word(w):
    out = []
    for s in w:
        if out and {out[-1], s} == {"R", "T"}:
            out.pop()
        else:
            out.append(s)
    return tuple(out)


def apply(mat, form):
    out = {}
    for (k, w), c in form.items():
        key = (k, reduce_word(tuple(mat) + w))
        out[key] = out.get(key, 0) + c
    return {k: v for k, v in out.items() if v != 0}


def add(a, b, sb=1):
    out = dict(a)
    for k, v in b.items():
        out[k] = out.get(k, 0) + sb * v
    return {k: v for k, v in out.items() if v != 0}


def scale(a, s):
    return {k: v * s for k, v in a.items() if v * s != 0}


def interp(func, arg_form):
    """Affine form of the value returned by func(arg)."""
    ast = func.r["ast"]
    rets = find_all(ast, "ReturnStmt")
    if len(rets) != 1:
        raise OutOfVocabulary("%s: expected a single return" % func.name)
    param = func.r["params"][0]["n"]

    def scalar(n):
        n = strip(n, also=("CXXFunctionalCastExpr", "InitListExpr", "CXXStaticCastExpr"))
        while n["k"] in ("CXXFunctionalCastExpr", "InitListExpr") and n["c"]:
            n = strip(n["c"][0], also=("CXXFunctionalCastExpr", "InitListExpr"))
        if n["k"] == "IntegerLiteral":
            return Fraction(int(n["val"]))
        if n["k"] == "FloatingLiteral":
            return Fraction(n["val"])
        if n["k"] == "UnaryOperator" and n["op"] == "-":
            return -scalar(n["c"][0])
        raise OutOfVocabulary("scalar outside vocabulary: " + show(n))

    def mat(n):
        n = strip(n)
        if n["k"] == "MemberExpr" and n["name"] == "rot_":
            return ("R",)
        raise OutOfVocabulary("matrix outside vocabulary: " + show(n))

    env = {}

    def vec(n):
        n = strip(n, also=("CXXConstructExpr",))
        k = n["k"]
        if k == "DeclRefExpr" and n["name"] == param:
            return dict(arg_form)
        if k == "DeclRefExpr" and n["name"] in env:
            return dict(env[n["name"]])
        if k == "MemberExpr" and n["name"] == "tra_":
            return {("t", ()): Fraction(1)}
        if k == "CXXOperatorCallExpr" and n.get("oop") in ("+", "-") and len(n["c"]) == 3:
            a, b = vec(n["c"][1]), vec(n["c"][2])
            return add(a, b, 1 if n["oop"] == "+" else -1)
        if k == "CXXOperatorCallExpr" and n.get("oop") == "-" and len(n["c"]) == 2:
            return scale(vec(n["c"][1]), -1)
        if k == "CallExpr" and n.get("callee") == C + "gemv":
            args = n["c"][1:]
            if len(args) == 2:
                return apply(mat(args[0]), vec(args[1]))
            if len(args) == 3:
                pol = strip(args[0])
                names = [x.get("name") for x in [pol] + pol.get("c", []) if x]
                flat = show(args[0])
                if "transpose" not in flat and "transpose" not in str(names):
                    raise OutOfVocabulary("gemv policy outside vocabulary: " + flat)
                m = mat(args[1])
                m = tuple("T" if s == "R" else "R" for s in reversed(m))
                return apply(m, vec(args[2]))
            if len(args) == 5:
                al, be = scalar(args[0]), scalar(args[3])
                return add(scale(apply(mat(args[1]), vec(args[2])), al), scale(vec(args[4]), be))
            raise OutOfVocabulary("gemv with %d arguments" % len(args))
        if k == "CallExpr" and n.get("callee") == C + "negate":
            return scale(vec(n["c"][1]), -1)
        raise OutOfVocabulary("vector expression outside vocabulary: %s (%s)" % (show(n), k))

    # local vector variables initialised before the return (single assignment, straight line)
    for vd in find_all(ast, "VarDecl"):
        if vd["c"] and vd["c"][0] is not None and "Array<double, 3>" in vd.get("ty", "").replace("celeritas::", ""):
            env[vd["name"]] = vec(vd["c"][0])
    return vec(rets[0]["c"][0])


def run(db, cx):
    X = {("x", ()): Fraction(1)}
    n = 0
    for cls in ("NoTransformation", "Translation", "Transformation"):
        fn = {}
        for m in ("transform_up", "transform_down", "rotate_up", "rotate_down"):
            fs = [f for f in db.get(C + cls + "::" + m) if "ast" in f.r]
            cx.require(fs, "anchor %s::%s (AST) not found" % (cls, m))
            fn[m] = fs[0]
        for a, b, what in (("transform_up", "transform_down", "transform_down(transform_up(x)) == x"),
                           ("transform_down", "transform_up", "transform_up(transform_down(x)) == x"),
                           ("rotate_up", "rotate_down", "rotate_down(rotate_up(d)) == d"),
                           ("rotate_down", "rotate_up", "rotate_up(rotate_down(d)) == d")):
            inner = interp(fn[a], X)
            outer = interp(fn[b], inner)
            ok = outer == X
            n += 1
            cx.ob("C12.1-transform-inverse", "%s: %s" % (cls, what), ok,
                  "composition = %s" % fmt(outer), short(fn[b].loc),
                  why="daughter-universe navigation transforms positions down and normals/"
                      "directions up: if the pair is not inverse the track is at different "
                      "points in parent and daughter")
        # rotation part of the affine map equals the rotate map
        up = interp(fn["transform_up"], X)
        rup = interp(fn["rotate_up"], X)
        lin = {k: v for k, v in up.items() if k[0] == "x"}
        cx.ob("C12.1-transform-inverse", "%s: transform_up and rotate_up share the linear part" % cls,
              lin == rup, "linear(transform_up) = %s, rotate_up = %s" % (fmt(lin), fmt(rup)),
              short(fn["rotate_up"].loc),
              why="directions must rotate with exactly the rotation applied to positions")
    cx.count("compositions interpreted", n)
    cx.assume("the stored rotation matrix is orthonormal (R^T R = I); the constructor only "
              "asserts this in debug builds")
    cx.assume("SignedPermutation is outside the vocabulary and not covered")
    cx.assume("celeritas::gemv implements the BLAS contract: gemv(A,x)=Ax, gemv(transpose,A,x)=A^T x, "
              "gemv(a,A,x,b,y)=aAx+by")

    # -------------------------------------------------------------- surface-type tables
    en = db.enums.get(C + "SurfaceType")
    cx.require(en, "enum SurfaceType not found")
    sts = [e["n"] for e in en["enumerators"] if e["n"] != "size_"]
    # traits + type agreement (witness)
    src = ['#include "corecel/Macros.hh"', '#include "corecel/Types.hh"',
           '#include "orange/surf/SurfaceTypeTraits.hh"', '#include "orange/surf/detail/AllSurfaces.hh"',
           "using namespace celeritas;"]
    for st in sts:
        src.append("static_assert(SurfaceTypeTraits<SurfaceType::%s>::type::surface_type() == "
                   "SurfaceType::%s, \"W:%s\");" % (st, st, st))
    failed, other = witness.compile_witness("\n".join(src) + "\n", "src/orange/OrangeParams.cc")
    if other:
        raise AnalysisBroken("C12 witness does not compile (enumerator without traits?): %s" % other[:3])
    for st in sts:
        cx.ob("C12.2-surface-tables", "SurfaceTypeTraits<%s>::type::surface_type() == %s" % (st, st),
              st not in failed, "", "src/orange/surf/SurfaceTypeTraits.hh",
              why="a mismatch stores a surface under one type tag and evaluates it as another")
    # visitor switch covers every enumerator
    cov = None
    for nme in db.find(r"^celeritas::visit_surface_type$"):
        for f in db.get(nme):
            for sw in f.r.get("switches", []):
                labels = set(c["label"].split("::")[-1] for c in sw["cases"])
                cov = labels if cov is None else (cov & labels)
    cx.require(cov is not None, "visit_surface_type switch not found")
    for st in sts:
        cx.ob("C12.2-surface-tables", "visit_surface_type has a case for %s" % st, st in cov, "",
              "src/orange/surf/SurfaceTypeTraits.hh",
              why="an enumerator without a case falls into the unreachable default")
    # name table: one distinct string per enumerator
    names = []
    for f in db.get(C + "to_cstring"):
        if f.r["params"] and "SurfaceType" in f.r["params"][0]["cty"]:
            names = [s["s"] for s in f.r.get("strs", [])]
    cx.ob("C12.2-surface-tables", "to_cstring(SurfaceType) has one distinct name per enumerator",
          len(names) == len(sts) and len(set(names)) == len(names),
          "%d names for %d enumerators" % (len(names), len(sts)), "src/orange/OrangeTypes.cc",
          why="duplicate or missing names make the JSON surface type ambiguous")
    quadric_translation(db, cx)
    rebuild_from_accessors(db, cx)
    solver_dependence(db, cx)
    plane_conversion(db, cx)
    sphere_conversion(db, cx)
    cyl_conversion(db, cx)
    cone_conversion(db, cx)
    ray_consistency(db, cx)


def fmt(form):
    if not form:
        return "0"
    out = []
    for (k, w), c in sorted(form.items()):
        m = "".join("R" if s == "R" else "R^T" for s in w)
        out.append("%s%s%s" % ("" if c == 1 else "%s*" % c, m + " " if m else "", "x" if k == "x" else "t"))
    return " + ".join(out)


def quadric_translation(db, cx):
    """C12.3 (A6, lib/polyinterp.py): SurfaceTranslator for the two quadric classes computes new
    coefficients from the old ones and the translation t.  The translated surface is the point
    set shifted by t, i.e. its implicit function is f(x - t).  The body is interpreted over
    polynomials in the symbolic coefficients and t, and the resulting implicit function is
    compared with the expansion of f(x - t) as a polynomial identity in x."""
    from polyinterp import Poly, interpret
    ST = C + "detail::SurfaceTranslator::operator()"
    x = [Poly.sym("x%d" % i) for i in range(3)]
    t = [Poly.sym("t%d" % i) for i in range(3)]
    a = [Poly.sym("a%d" % i) for i in range(3)]
    b = [Poly.sym("b%d" % i) for i in range(3)]
    e = [Poly.sym("e%d" % i) for i in range(3)]      # cross terms: xy, yz, zx
    c0 = Poly.sym("c")

    def f_sq(sec, fst, z, p):
        r = as_p(z)
        for i in range(3):
            r = r + as_p(sec[i]) * p[i] * p[i] + as_p(fst[i]) * p[i]
        return r

    def f_gq(sec, crs, fst, z, p):
        r = f_sq(sec, fst, z, p)
        r = r + as_p(crs[0]) * p[0] * p[1] + as_p(crs[1]) * p[1] * p[2] + as_p(crs[2]) * p[2] * p[0]
        return r
    from polyinterp import as_poly as as_p
    shifted = [x[i] - t[i] for i in range(3)]
    cases = (("SimpleQuadric", {C + "SimpleQuadric::second": a, C + "SimpleQuadric::first": b,
                                C + "SimpleQuadric::zeroth": c0},
              lambda args: f_sq(args[0], args[1], args[2], x), f_sq(a, b, c0, shifted)),
             ("GeneralQuadric", {C + "GeneralQuadric::second": a, C + "GeneralQuadric::cross": e,
                                 C + "GeneralQuadric::first": b, C + "GeneralQuadric::zeroth": c0},
              lambda args: f_gq(args[0], args[1], args[2], args[3], x), f_gq(a, e, b, c0, shifted)))
    for cls, acc, build, want in cases:
        fs = [f for f in db.get(ST) if f.r["params"] and cls in f.r["params"][0]["ty"] and "ast" in f.r]
        cx.require(fs, "anchor SurfaceTranslator::operator()(%s) (AST) not found" % cls)
        acc = dict(acc)
        acc[C + "Translation::translation"] = t
        # semantics of the Translation helpers (their mutual inverse property is C12.1)
        acc[C + "Translation::transform_up"] = lambda args: [as_p(args[0][i]) + t[i] for i in range(3)]
        acc[C + "Translation::transform_down"] = lambda args: [as_p(args[0][i]) - t[i] for i in range(3)]
        acc[C + "Translation::rotate_up"] = lambda args: list(args[0])
        acc[C + "Translation::rotate_down"] = lambda args: list(args[0])
        res = interpret(fs[0], acc)
        ok = False
        d = "unexpected return value %r" % (res,)
        if isinstance(res, tuple) and res[0] == "construct" and res[1].endswith(cls + "::" + cls):
            got = build(res[2])
            diff = got - want
            ok = diff == Poly()
            d = "f'(x) - f(x - t) = %s" % (diff if not ok else "0")
        cx.ob("C12.3-quadric-translation", "translated %s has the implicit function f(x - t)" % cls,
              ok, d[:600], short(fs[0].loc),
              why="a translated surface must contain exactly the translated points: any other "
                  "coefficient moves or deforms the surface, so the sense at the transformed point "
                  "differs from the original's sense at the original point")

    # rotation + translation of a general quadric: x = R^T (x' - t)  (R^T is the inverse the code
    # uses; orthonormality of R is an assumption of C12.1, not needed for this identity)
    STR = C + "detail::SurfaceTransformer::operator()"
    fs = [f for f in db.get(STR) if f.r["params"] and "GeneralQuadric" in f.r["params"][0]["ty"] and "ast" in f.r]
    cx.require(fs, "anchor SurfaceTransformer::operator()(GeneralQuadric) (AST) not found")
    R = [[Poly.sym("r%d%d" % (i, j)) for j in range(3)] for i in range(3)]

    def rot_down(args):
        v = args[0]
        return [R[0][i] * as_p(v[0]) + R[1][i] * as_p(v[1]) + R[2][i] * as_p(v[2]) for i in range(3)]
    acc = {C + "GeneralQuadric::second": a, C + "GeneralQuadric::cross": e,
           C + "GeneralQuadric::first": b, C + "GeneralQuadric::zeroth": c0,
           C + "Transformation::translation": t, C + "Transformation::rotation": R,
           C + "Transformation::rotate_down": rot_down}
    res = interpret(fs[0], acc)
    ok = False
    d = "unexpected return value %r" % (res,)
    if isinstance(res, tuple) and res[0] == "construct" and res[1].endswith("GeneralQuadric::GeneralQuadric"):
        args = res[2]
        got = f_gq(args[0], args[1], args[2], args[3], x)
        y = rot_down([[x[i] - t[i] for i in range(3)]])
        want = f_gq(a, e, b, c0, y)
        diff = got - want
        ok = diff == Poly()
        d = "f'(x) - f(R^T (x - t)) = %s" % (diff if not ok else "0 (polynomial identity in R, t, x)")
    cx.ob("C12.3-quadric-translation", "transformed GeneralQuadric has the implicit function "
          "f(R^T (x - t))", ok, d[:600], short(fs[0].loc),
          why="a rotated and translated surface must contain exactly the transformed points")


def rebuild_from_accessors(db, cx):
    """C12.4: the translators rebuild a surface as K{..., other.acc(), ...}.  That is the
    identity for a zero translation only if acc() returns what the constructor parameter means.
    Structural contradiction: the constructor stores parameter p in field F and then re-assigns
    F as a function of itself on some path (a normalisation such as F = pi - F), while acc() is a
    raw `return F` - then K{other.acc()} applies the normalisation twice."""
    n = 0
    for f in db.get(C + "detail::SurfaceTranslator::operator()"):
        for (b, i, ev) in f.events("call"):
            if not ev.get("ctor"):
                continue
            cls = ev["callee"].rsplit("::", 1)[0]
            ctors = [g for g in db.get(ev["callee"]) if g.r.get("sig") == ev.get("sig") or len(db.get(ev["callee"])) == 1]
            if not ctors or "/orange/surf/" not in ctors[0].loc:
                continue
            g = ctors[0]
            params = [p["n"] for p in g.r["params"]]
            for j, a in enumerate(ev.get("args", [])):
                accs = [c for c in a.get("calls", []) if c.startswith(cls + "::")]
                if len(accs) != 1 or len(a.get("calls", [])) != 1 or j >= len(params):
                    continue
                n += 1
                acc = accs[0]
                fld = None
                for (_b, _i, w) in g.events("write"):
                    if w.get("kind") == "ctorinit" and (w.get("rhs") or "").strip() == params[j]:
                        fld = path_leaf(w.get("path"))
                if fld is None:
                    continue
                renorm = [w for (_b, _i, w) in g.events("write") if w.get("kind") != "ctorinit"
                          and path_leaf(w.get("path")) == fld and "F:" + fld in w.get("refs", [])]
                raw = False
                for h in db.get(acc):
                    rets = [r for (_b, _i, r) in h.events("return")]
                    raw = bool(rets) and all(not r.get("calls") and r.get("refs") and
                                             set(x for x in r["refs"] if x != "this") == {"F:" + fld}
                                             for r in rets)
                bad = bool(renorm) and raw
                cx.ob("C12.4-rebuild-from-accessors", "%s rebuilt from %s(): accessor and constructor "
                      "parameter `%s` mean the same [%s]" % (cls.split("::")[-1], acc.split("::")[-1], params[j],
                                                              f.inst.split("<")[-1][:30] if "<" in f.inst else "-"),
                      not bad, ("constructor re-normalises %s (`%s = %s`) but %s() returns the stored "
                                "value" % (fld.split("::")[-1], renorm[0].get("lhs"), renorm[0].get("rhs"),
                                           acc.split("::")[-1])) if bad else "", short(ev["loc"]),
                      why="rebuilding the surface from that accessor applies the constructor's "
                          "normalisation a second time: even a zero translation changes the surface")
    cx.floor("surfaces rebuilt from accessors in SurfaceTranslator", n, 3)


def solver_dependence(db, cx):
    """C12.5-solver-dependence (dependence analysis).  Whether a x^2 + 2(b/2) x + c = 0 has a
    positive root cannot be decided without the leading coefficient: for every (b/2, c) not both
    zero there are values of `a` with and without a positive root.  So every exit of
    solve_general must depend on `a` - through the value returned or through a condition that
    controls reaching it; likewise solve_along_surface (a = 0: -c / b) on `half_b`.  An early
    "no intersection" that looks only at the other coefficients is wrong for some surface
    (negative leading coefficient: cones, hyperboloids, saddles)."""
    QS = C + "detail::QuadraticSolver::"
    table = [("solve_general", "a", "the leading coefficient a"),
             ("solve_along_surface", "half_b", "the linear coefficient b/2")]
    n = 0
    for meth, prm, what in table:
        fs = db.get(QS + meth)
        cx.require(fs, "anchor QuadraticSolver::%s not found" % meth)
        for f in fs:
            cx.require(prm in [p_["n"] for p_ in f.r["params"]],
                       "QuadraticSolver::%s has no parameter `%s`" % (meth, prm))
            branches = [b for b in f.branch_blocks(lambda c, _b: True) if None not in f.blocks[b]["succ"]]

            def closure(names, pos, depth=4):
                out = set(names)
                frontier = set(local_refs(names))
                for _ in range(depth):
                    nxt = set()
                    for v in frontier:
                        for (_b, _i, d) in f.reaching_defs(v, pos):
                            out |= set(d.get("refs", []))
                            nxt |= set(local_refs(d.get("refs", [])))
                        # element-wise writes (result[0] = ...)
                        for (_b, _i, w) in f.events("write"):
                            if w.get("path", {}).get("root") in ("l:" + v,):
                                out |= set(w.get("refs", []))
                                nxt |= set(local_refs(w.get("refs", [])))
                    if not nxt:
                        break
                    frontier = nxt
                return out
            for (b, i, ev) in f.events("return"):
                dep = closure(ev.get("refs", []), (b, i))
                ctrl = []
                for br in branches:
                    for e in (0, 1):
                        if f.guarded_by_edge((b, i), br, e):
                            c = f.blocks[br]["cond"]
                            dep |= closure(c.get("allrefs", c.get("refs", [])), (br, 0))
                            ctrl.append(c.get("t", "")[:40])
                n += 1
                cx.ob("C12.5-solver-dependence", "%s: the result returned at %s depends on %s"
                      % (meth, short(ev["loc"]).split(":", 1)[1], what), prm in dep,
                      "returns `%s` under [%s]" % (ev.get("t", "")[:60], "; ".join(ctrl)),
                      short(ev["loc"]),
                      why="no statement about the positive roots holds for all values of this "
                          "coefficient: an exit that ignores it is wrong for some surface")
    cx.floor("solver exits examined", n, 4)


def plane_conversion(db, cx):
    """C12.6-plane-conversion (A6 with a norm symbol): a quadric without second-order terms,
    b.x + z = 0, is replaced by Plane{n, d}, i.e. n.x - d = 0 with n a unit vector.  The same
    point set with the same orientation needs n = b/|b| and d = -z/|b| - both scaled by the same
    positive factor.  The converter is interpreted with b, z symbolic and N = |b| a symbol
    (N^2 = b.b; divisions by a monomial are exact in Laurent monomials)."""
    from polyinterp import Poly, Interp, Return, as_poly
    from astutil import OutOfVocabulary
    name = C + "detail::QuadricPlaneConverter::operator()"
    fs = [f for f in db.get(name) if f.r.get("ast")]
    cx.require(fs, "anchor QuadricPlaneConverter::operator() (AST) not found")
    f = fs[0]
    b = [Poly.sym("b%d" % i) for i in range(3)]
    z = Poly.sym("z")
    N = Poly.sym("N")
    B = b[0] * b[0] + b[1] * b[1] + b[2] * b[2]

    def norm(args):
        v = args[0]
        if not isinstance(v, list) or len(v) != 3:
            raise OutOfVocabulary("norm of a non-vector")
        s2 = Poly()
        for x in v:
            s2 = s2 + as_poly(x) * as_poly(x)
        # s2 must be m * (b.b) for one monomial m that is a perfect square
        lead = [(k, c) for k, c in s2.t.items() if dict(k).get("b0") == 2
                and "b1" not in dict(k) and "b2" not in dict(k)]
        if len(lead) != 1:
            raise OutOfVocabulary("norm of a vector that is not a multiple of the coefficient vector")
        k, c = lead[0]
        m = Poly({tuple((s_, p_) for s_, p_ in k if s_ != "b0"): c})
        if not (m * B == s2):
            raise OutOfVocabulary("norm of a vector that is not a multiple of the coefficient vector")
        (mk, mc), = m.t.items()
        from fractions import Fraction
        import math
        rn, rd = math.isqrt(mc.numerator), math.isqrt(mc.denominator)
        if mc <= 0 or rn * rn != mc.numerator or rd * rd != mc.denominator or any(p_ % 2 for _s, p_ in mk):
            raise OutOfVocabulary("norm: scale factor is not a perfect square")
        root = Poly({tuple((s_, p_ // 2) for s_, p_ in mk): Fraction(rn, rd)})
        return root * N

    def unit(args):
        n_ = norm(args)
        return [as_poly(x).div(n_) for x in args[0]]
    acc = {C + "SimpleQuadric::first": b, C + "SimpleQuadric::zeroth": z,
           C + "norm": norm, C + "make_unit_vector": unit,
           C + "negate": lambda a: -as_poly(a[0])}
    it = Interp(f, acc)
    try:
        try:
            it.run(f.r["ast"])
            val = None
        except Return as r:
            val = r.v
    except OutOfVocabulary as e:
        raise AnalysisBroken("C12.6: QuadricPlaneConverter is outside the interpreter's vocabulary: %s" % e)
    cx.require(isinstance(val, tuple) and val[0] == "construct" and val[1].endswith("Plane::Plane")
               and len(val[2]) == 2 and isinstance(val[2][0], list),
               "QuadricPlaneConverter does not return Plane{normal, displacement}: %r" % (val,))
    n_r, d_r = val[2]
    Ninv = Poly.const(1).div(N)
    ok_n = all(as_poly(n_r[i]) == b[i] * Ninv for i in range(3))
    ok_d = as_poly(d_r) == -z * Ninv
    cx.ob("C12.6-plane-conversion", "QuadricPlaneConverter: the plane's normal is b/|b|", ok_n,
          "normal = (%s)" % ", ".join(repr(x) for x in n_r), short(f.loc),
          why="Plane stores a unit normal")
    cx.ob("C12.6-plane-conversion", "QuadricPlaneConverter: the displacement is -z/|b| (same factor as the normal)",
          ok_d, "d = %r  (N = |b|)" % (d_r,), short(f.loc),
          why="n.x - d must be a positive multiple of b.x + z, otherwise the plane is displaced "
              "and points between the two planes change sense")


def sphere_conversion(db, cx):
    """C12.6-sphere-conversion (A6): a simple quadric a(x^2+y^2+z^2) + e.x + h = 0 with equal
    second-order coefficients is replaced by Sphere{origin, r^2}, i.e. |x - o|^2 - r^2 = 0.
    Dividing the quadric by a (> 0): o = -e/(2a) and o.o - r^2 = h/a.  The converter is
    interpreted on the path that returns a sphere (equal coefficients, r^2 > 0), with a, e, h
    symbolic."""
    from polyinterp import Poly, Interp, Return, as_poly
    from astutil import OutOfVocabulary
    from fractions import Fraction
    name = C + "detail::QuadricSphereConverter::operator()"
    fs = [f for f in db.get(name) if f.r.get("ast")]
    cx.require(fs, "anchor QuadricSphereConverter::operator() (AST) not found")
    f = fs[0]
    a = Poly.sym("a")
    e = [Poly.sym("e%d" % i) for i in range(3)]
    h = Poly.sym("h")
    assumed = []

    def assume(op, x, y, n):
        # the path under study: the radius is real
        assumed.append(n.get("loc", ""))
        if op in ("<=", "<"):
            return False
        if op in (">", ">="):
            return True
        return None
    acc = {C + "SimpleQuadric::second": [a, a, a], C + "SimpleQuadric::first": e,
           C + "SimpleQuadric::zeroth": h, "member:soft_equal_": lambda args: True,
           C + "Sphere::from_radius_sq": lambda args: ("sphere", args[0], args[1]),
           "assume": assume}
    it = Interp(f, acc)
    try:
        try:
            it.run(f.r["ast"])
            val = None
        except Return as r:
            val = r.v
        while isinstance(val, tuple) and val[0] == "construct" and len(val[2]) == 1:
            val = val[2][0]
    except OutOfVocabulary as ex:
        raise AnalysisBroken("C12.6: QuadricSphereConverter is outside the interpreter's vocabulary: %s" % ex)
    cx.require(isinstance(val, tuple) and val[0] == "sphere" and isinstance(val[1], list) and len(val[1]) == 3,
               "QuadricSphereConverter does not return Sphere::from_radius_sq(origin, r^2): %r" % (val,))
    o, r2 = val[1], as_poly(val[2])
    half_inv = Poly.const(Fraction(-1, 2)).div(a)
    ok_o = all(as_poly(o[i]) == e[i] * half_inv for i in range(3))
    oo = Poly()
    for x in o:
        oo = oo + as_poly(x) * as_poly(x)
    ok_r = (oo - r2) == h.div(a)
    cx.ob("C12.6-sphere-conversion", "QuadricSphereConverter: origin = -e / (2a)", ok_o,
          "origin = (%s)" % ", ".join(repr(x) for x in o), short(f.loc),
          why="expanding |x - o|^2 - r^2 must reproduce the quadric divided by a")
    cx.ob("C12.6-sphere-conversion", "QuadricSphereConverter: o.o - r^2 = h / a", ok_r,
          "r^2 = %r" % (r2,), short(f.loc),
          why="a radius computed with another scale is a different sphere: points between the two "
              "change sense")


def cyl_conversion(db, cx):
    """C12.6-cyl-conversion (A6), sibling of the sphere rule: for each axis T the quadric
    a(u^2 + v^2) + e_u u + e_v v + h = 0 becomes CylAligned<T>{origin, r^2}:
    origin_u = -e_u/(2a), origin_v = -e_v/(2a), origin_T = 0, o_u^2 + o_v^2 - r^2 = h/a."""
    from polyinterp import Poly, Interp, Return, as_poly
    from astutil import OutOfVocabulary
    from fractions import Fraction
    name = C + "detail::QuadricCylConverter::operator()"
    fs = [f for f in db.get(name) if f.r.get("ast")]
    cx.floor("QuadricCylConverter instantiations", len(fs), 3)
    a = Poly.sym("a")
    h = Poly.sym("h")
    for f in fs:
        m = re.search(r"Axis::([xyz])>", f.inst)
        cx.require(m, "QuadricCylConverter instantiation without an axis: %s" % f.inst)
        t = "xyz".index(m.group(1))
        # the interpretation below *assumes* the axial second- and first-order coefficients to be
        # zero: the converter must test exactly that (against literal 0) before it converts -
        # seeded change c12f replaced the axial first-order test by a relative one, which lets an
        # off-axis paraboloid through as an infinite cylinder
        tested = {"second": False, "first": False}
        ax = "(celeritas::Axis)%d" % t
        for (_b, _i, ev) in f.events("call"):
            if ev["callee"] != C + "SoftEqual::operator()" or len(ev.get("args", [])) != 2:
                continue
            a0, a1 = ev["args"]
            for x, y in ((a0, a1), (a1, a0)):
                if x.get("lit") in ("0", "0.0") and ("to_int(%s)" % ax) in (y.get("t") or "").replace(" ", "").replace("(celeritas::Axis)", "(celeritas::Axis)"):
                    ch = (y.get("path") or {}).get("chain", [])
                    if "m:" + C + "SimpleQuadric::first" in ch or ".first()" in (y.get("t") or ""):
                        tested["first"] = True
                    elif "second" in (y.get("t") or ""):
                        tested["second"] = True
        for k_ in ("second", "first"):
            cx.ob("C12.6-cyl-conversion",
                  "QuadricCylConverter<%s>: the %s-order coefficient along the axis is tested against 0" % (m.group(1), k_),
                  tested[k_], "" if tested[k_] else "no soft_equal_(0, %s[T]) guard" % k_, short(f.loc),
                  why="a quadric with a term along the candidate axis is a paraboloid / cone, not a "
                      "cylinder: converting it changes the point set")
        if not (tested["first"] and tested["second"]):
            continue
        e = [Poly.sym("e%d" % i) if i != t else Poly() for i in range(3)]
        second = [a if i != t else Poly() for i in range(3)]

        def assume(op, x, y, n):
            if op in ("<=", "<"):
                return False
            if op in (">", ">="):
                return True
            return None
        acc = {C + "SimpleQuadric::second": second, C + "SimpleQuadric::first": e,
               C + "SimpleQuadric::zeroth": h, "member:soft_equal_": lambda args: True,
               C + "CylAligned::from_radius_sq": lambda args: ("cyl", args[0], args[1]),
               "assume": assume}
        it = Interp(f, acc)
        try:
            try:
                it.run(f.r["ast"])
                val = None
            except Return as r:
                val = r.v
            while isinstance(val, tuple) and val[0] == "construct" and len(val[2]) == 1:
                val = val[2][0]
        except OutOfVocabulary as ex:
            raise AnalysisBroken("C12.6: QuadricCylConverter<%s> is outside the interpreter's vocabulary: %s"
                                 % (m.group(1), ex))
        cx.require(isinstance(val, tuple) and val[0] == "cyl" and isinstance(val[1], list) and len(val[1]) == 3,
                   "QuadricCylConverter<%s> does not return CylAligned::from_radius_sq(origin, r^2): %r"
                   % (m.group(1), val))
        o, r2 = val[1], as_poly(val[2])
        half_inv = Poly.const(Fraction(-1, 2)).div(a)
        ok_o = all(as_poly(o[i]) == e[i] * half_inv for i in range(3))
        oo = Poly()
        for i in range(3):
            if i != t:
                oo = oo + as_poly(o[i]) * as_poly(o[i])
        ok_r = (oo - r2) == h.div(a)
        cx.ob("C12.6-cyl-conversion", "QuadricCylConverter<%s>: origin = -e / (2a) in the plane, 0 along the axis"
              % m.group(1), ok_o, "origin = (%s)" % ", ".join(repr(x) for x in o), short(f.loc),
              why="expanding the cylinder's implicit function must reproduce the quadric divided by a")
        cx.ob("C12.6-cyl-conversion", "QuadricCylConverter<%s>: o_u^2 + o_v^2 - r^2 = h / a" % m.group(1),
              ok_r, "r^2 = %r" % (r2,), short(f.loc),
              why="a radius computed with another scale is a different cylinder")


def cone_conversion(db, cx):
    """C12.6-cone-conversion (A6), sibling rule: c t^2... for each axis T the quadric
    c x_T^2 + b(u^2 + v^2) + e.x + h = 0 (c < 0 < b) becomes ConeAligned<T>{origin, t^2} with
    -t^2 (x_T - o_T)^2 + (u - o_u)^2 + (v - o_v)^2: t^2 = -c/b, o_T = -e_T/(2c), o_u = -e_u/(2b),
    and the constant that is compared with h/b at run time (hyperboloid test) is
    -t^2 o_T^2 + o_u^2 + o_v^2."""
    from polyinterp import Poly, Interp, Return, as_poly
    from astutil import OutOfVocabulary
    from fractions import Fraction
    name = C + "detail::QuadricConeConverter::operator()"
    fs = [f for f in db.get(name) if f.r.get("ast")]
    cx.floor("QuadricConeConverter instantiations", len(fs), 3)
    b, c, h = Poly.sym("b"), Poly.sym("c"), Poly.sym("h")
    for f in fs:
        m = re.search(r"Axis::([xyz])>", f.inst)
        cx.require(m, "QuadricConeConverter instantiation without an axis: %s" % f.inst)
        t = "xyz".index(m.group(1))
        e = [Poly.sym("e%d" % i) for i in range(3)]
        second = [b if i != t else c for i in range(3)]
        compared = []

        def assume(op, x, y, n):
            if op == "<" and as_poly(x) == c and as_poly(y) == Poly():
                return True          # the negative second-order coefficient
            if op in (">", ">="):
                return True
            return None

        def soft_equal(args):
            compared.append(args)
            return True
        acc = {C + "SimpleQuadric::second": second, C + "SimpleQuadric::first": e,
               C + "SimpleQuadric::zeroth": h, "member:soft_equal_": soft_equal,
               C + "ConeAligned::from_tangent_sq": lambda args: ("cone", args[0], args[1]),
               "assume": assume}
        it = Interp(f, acc)
        try:
            try:
                it.run(f.r["ast"])
                val = None
            except Return as r:
                val = r.v
            while isinstance(val, tuple) and val[0] == "construct" and len(val[2]) == 1:
                val = val[2][0]
        except OutOfVocabulary as ex:
            raise AnalysisBroken("C12.6: QuadricConeConverter<%s> is outside the interpreter's vocabulary: %s"
                                 % (m.group(1), ex))
        cx.require(isinstance(val, tuple) and val[0] == "cone" and isinstance(val[1], list) and len(val[1]) == 3,
                   "QuadricConeConverter<%s> does not return ConeAligned::from_tangent_sq(origin, t^2): %r"
                   % (m.group(1), val))
        o, tsq = [as_poly(x) for x in val[1]], as_poly(val[2])
        ok_t = tsq == (-c).div(b)
        half = Fraction(-1, 2)
        ok_o = all(o[i] == (e[i] * Poly.const(half)).div(c if i == t else b) for i in range(3))
        const = Poly()
        for i in range(3):
            const = const + (o[i] * o[i] * (-tsq) if i == t else o[i] * o[i])
        pair = [p_ for p_ in compared if len(p_) == 2 and (as_poly(p_[1]) == h.div(b) or as_poly(p_[0]) == h.div(b))]
        ok_h = bool(pair) and any(as_poly(p_[0]) == const or as_poly(p_[1]) == const for p_ in pair)
        tag = m.group(1)
        cx.ob("C12.6-cone-conversion", "QuadricConeConverter<%s>: t^2 = -c/b" % tag, ok_t, "t^2 = %r" % (tsq,),
              short(f.loc), why="the opening angle of the cone")
        cx.ob("C12.6-cone-conversion", "QuadricConeConverter<%s>: origin = -e_T/(2c) along the axis, -e/(2b) across"
              % tag, ok_o, "origin = (%s)" % ", ".join(repr(x) for x in o), short(f.loc),
              why="expanding the cone's implicit function must reproduce the quadric divided by b")
        cx.ob("C12.6-cone-conversion", "QuadricConeConverter<%s>: the hyperboloid test compares h/b with "
              "-t^2 o_T^2 + o_u^2 + o_v^2" % tag, ok_h,
              "compared: %s" % "; ".join("(%r, %r)" % (p_[0], p_[1]) for p_ in compared if len(p_) == 2)[:300],
              short(f.loc),
              why="with another constant a hyperboloid is accepted as a cone (or a cone rejected)")


# ------------------------------------------------------------------------------------------
# C12.7-ray-consistency (A6): sense function, ray equation and normal of the quadric surfaces
# ------------------------------------------------------------------------------------------
# class, templated on an axis, degree of the implicit function in pos
RAY_SURFACES = (("PlaneAligned", True, 1), ("Plane", False, 1), ("SphereCentered", False, 2),
                ("Sphere", False, 2), ("CylCentered", True, 2), ("CylAligned", True, 2),
                ("ConeAligned", True, 2), ("SimpleQuadric", False, 2), ("GeneralQuadric", False, 2))
RAY_INSTANTIATIONS = 17     # 5 classes + 4 templates x 3 axes, confirmed by hand

# Entry points of detail::QuadraticSolver (src/orange/surf/detail/QuadraticSolver.hh), read by
# hand.  Each one returns the positive roots in t of
#   solve_general(a, half_b, c, state):   a t^2 + 2 half_b t + c = 0   (state on: c is not read,
#                                          the root t = 0 is dropped:   a t + 2 half_b = 0)
#   QuadraticSolver(a, half_b)(c):         t^2 + 2 (half_b/a) t + c/a = 0, the same equation
#   QuadraticSolver(a, half_b)():          t = -2 half_b / a, i.e. a t^2 + 2 half_b t = 0 (c = 0)
#   solve_along_surface(half_b, c):        2 half_b t + c = 0   (a = 0)
# There is no entry point with an implicit a = 1 in this version; the spheres pass
# real_type(1) for a, the cylinders 1 - dir[T]^2, both relying on |dir| = 1.


def ray_consistency(db, cx):
    """C12.7-ray-consistency.  For every quadric surface class (and axis instantiation):
    (a) calc_sense(pos) = real_to_sense(F(pos)) for a polynomial F in pos and the member symbols;
    (b) the coefficients handed to the quadratic solver by calc_intersections(pos, dir, state)
        are those of F(pos + t dir) = a t^2 + 2 half_b t + c (planes: distance = -F(pos)/(dF/dt));
    (c) the vector calc_normal(pos) normalises (or returns) is a positive multiple of grad F.
    All three as polynomial identities over symbolic members, pos = (x, y, z), dir = (u, v, w)."""
    from polyinterp import (Poly, FieldInterp, Quot, Return, as_poly, fork_paths, poly_subs, poly_diff,
                            poly_coeffs, poly_degree, poly_reduce, poly_symbols)
    RULE = "C12.7-ray-consistency"
    QS = C + "detail::QuadraticSolver::"
    PX = [Poly.sym(s_) for s_ in "xyz"]
    DX = [Poly.sym(s_) for s_ in "uvw"]
    NONE = ("none",)
    en = db.enums.get(C + "SurfaceState")
    cx.require(en, "enum SurfaceState not found")
    states = dict((e_["n"], int(e_["v"])) for e_ in en["enumerators"])
    cx.require(set(states) == {"off", "on"}, "SurfaceState is not {off, on}: %s" % sorted(states))
    for nm in ("solve_general", "solve_along_surface", "QuadraticSolver", "operator()"):
        cx.require(db.get(QS + nm), "anchor QuadraticSolver::%s not found" % nm)
    cx.require(len(db.get(QS + "operator()")) == 2, "QuadraticSolver has other call operators than (c) and ()")

    def unit_reduce(p):
        return poly_reduce(p, "w", Poly.const(1) - DX[0] * DX[0] - DX[1] * DX[1])

    def vote(pairs):
        """The constant k that most monomials of the expected polynomials are scaled by."""
        tally = {}
        for g, w in pairs:
            for m, cw in w.t.items():
                if m in g.t:
                    r = g.t[m] / cw
                    tally[r] = tally.get(r, 0) + 1
        if not tally:
            return Fraction(1)
        best = max(tally.values())
        cands = [r for r, n_ in tally.items() if n_ == best]
        return Fraction(1) if Fraction(1) in cands else sorted(cands, reverse=True)[0]

    def compare(pairs):
        """pairs: [(label, got, want)].  -> (ok, k, modulo_unit, residuals[(label, poly)])"""
        last = None
        for modulo in (False, True):
            pp = [(lab, unit_reduce(g) if modulo else g, unit_reduce(w) if modulo else w)
                  for lab, g, w in pairs]
            k = vote([(g, w) for _l, g, w in pp])
            res = [(lab, g - w * Poly.const(k)) for lab, g, w in pp]
            ok = k > 0 and all(r == Poly() for _l, r in res)
            if ok:
                return True, k, modulo, res
            # report the reading with fewer non-zero residuals (exact first on a tie)
            if last is None or sum(1 for _l, r in res if r != Poly()) < sum(1 for _l, r in last[3] if r != Poly()):
                last = (False, k, modulo, res)
        return last

    def unwrap(v):
        while (isinstance(v, list) and len(v) == 1 and isinstance(v[0], tuple) and v[0]
               and v[0][0] in ("roots", "unit", "sense", "construct")) or \
                (isinstance(v, tuple) and v and v[0] == "construct" and len(v[2]) == 1):
            v = v[0] if isinstance(v, list) else v[2][0]
        return v

    def bind(f, vals):
        env = {}
        for prm, v in zip(f.r["params"], vals):
            if prm["n"]:
                env[prm["n"]] = list(v) if isinstance(v, list) else v
        return env

    def make_lookup(cls, key):
        """Other const methods of the same object (same instantiation) and free helper functions
        defined in the surface headers, by qualified name and number of arguments."""
        def lookup(cal, nargs, is_method):
            if is_method:
                if not cal.startswith(C + cls + "::"):
                    return None
                cands = [g_ for g_ in db.get(cal) if g_.inst.rsplit("::", 1)[0] == key]
            else:
                cands = [g_ for g_ in db.get(cal) if "/orange/surf/" in "/" + g_.loc and not g_.r.get("cls")]
            cands = [g_ for g_ in cands if len(g_.r.get("params", [])) == nargs]
            if not cands:
                return None
            sigs = set((g_.inst, g_.r.get("sig")) for g_ in cands)
            if len(sigs) > 1:
                raise OutOfVocabulary("ambiguous overloads of %s with %d arguments" % (cal, nargs))
            with_ast = [g_ for g_ in cands if "ast" in g_.r]
            if not with_ast:
                raise OutOfVocabulary("call of %s: no expression tree emitted for the callee "
                                      "(add it to rules/astfuncs.py)" % cal)
            return with_ast[0]
        return lookup

    def run_straight(f, acc, env, fields, lookup):
        it = FieldInterp(f, acc, fields, lookup)
        it.env.update(env)
        try:
            it.run(f.r["ast"])
        except Return as r:
            return r.v
        return None

    def as_quot(v):
        if isinstance(v, Quot):
            return v.num, v.den
        v = as_poly(v)
        low = {}
        for mono in v.t:
            for s_, pw in mono:
                if pw < 0:
                    low[s_] = min(low.get(s_, 0), pw)
        den = Poly.const(1)
        for s_, pw in sorted(low.items()):
            den = den * Poly({((s_, -pw),): Fraction(1)})
        return v * den, den

    n_inst = 0
    used_unit = []
    for cls, templated, degree in RAY_SURFACES:
        groups = {}
        for meth in ("calc_sense", "calc_intersections", "calc_normal"):
            for f in db.get(C + cls + "::" + meth):
                if "ast" in f.r:
                    groups.setdefault(f.inst.rsplit("::", 1)[0], {}).setdefault(meth, []).append(f)
        cx.require(groups, "anchor %s::calc_sense/calc_intersections/calc_normal (AST) not found" % cls)
        if templated:
            axes = sorted(set(re.findall(r"Axis::([xyz])>", " ".join(groups))))
            cx.require(axes == ["x", "y", "z"], "%s is not instantiated for the three axes: %s" % (cls, sorted(groups)))
        for key in sorted(groups):
            g = groups[key]
            m = re.search(r"Axis::([xyz])>", key)
            tag = cls + ("<%s>" % m.group(1) if m else "")
            for meth in ("calc_sense", "calc_intersections", "calc_normal"):
                cx.require(meth in g, "%s::%s is not instantiated in the analysed units" % (tag, meth))
            fs = g["calc_sense"][0]
            fi = g["calc_intersections"][0]
            with_pos = [f for f in g["calc_normal"] if len(f.r["params"]) == 1]
            cx.require(with_pos, "%s::calc_normal(pos) not found" % tag)
            fn = with_pos[0]
            cx.require(len(fs.r["params"]) == 1 and len(fi.r["params"]) == 3,
                       "%s: calc_sense(pos) / calc_intersections(pos, dir, state) have other parameters" % tag)
            n_inst += 1
            fields = {}
            lookup = make_lookup(cls, key)
            try:
                # ---------------------------------------------------------------- (a) sense
                seen = []

                def to_sense(args):
                    seen.append(args[0])
                    return ("sense", len(seen) - 1)
                val = unwrap(run_straight(fs, {C + "real_to_sense": to_sense}, bind(fs, [PX]), fields, lookup))
                if not (isinstance(val, tuple) and val[0] == "sense" and len(seen) == 1):
                    raise OutOfVocabulary("calc_sense does not return real_to_sense(<expression>): %r" % (val,))
                if isinstance(seen[0], (Quot, list, tuple)):
                    raise OutOfVocabulary("calc_sense hands a non-polynomial to real_to_sense: %r" % (seen[0],))
                F = as_poly(seen[0])
                if any(pw < 0 for mono in F.t for _s, pw in mono):
                    raise OutOfVocabulary("calc_sense divides by a symbol: %r" % (F,))
                deg = poly_degree(F, set("xyz"))
                cx.ob(RULE, "%s: calc_sense is the sign of a polynomial F(pos) of degree %d" % (tag, degree),
                      deg == degree, "F(x,y,z) = %r  (degree %d in pos)" % (F, deg), short(fs.r["ast"]["loc"]),
                      why="the surface is the zero set of F; the ray equation and the normal below are "
                          "derived from this F, so a sense function of another shape is another surface")
                line = poly_subs(F, {"x": PX[0] + Poly.sym("t") * DX[0], "y": PX[1] + Poly.sym("t") * DX[1],
                                     "z": PX[2] + Poly.sym("t") * DX[2]})
                co = poly_coeffs(line, "t")
                if any(pw > 2 for pw in co):
                    raise OutOfVocabulary("F(pos + t dir) has degree %d in t: not a quadric" % max(co))
                want = [co.get(i, Poly()) for i in (2, 1, 0)]          # a, 2 half_b, c
                grad = [poly_diff(F, s_) for s_ in "xyz"]

                # ---------------------------------------------------------- (b) intersections
                bad = []
                notes = []
                for sname in ("off", "on"):
                    percall = []
                    cur = {}

                    def solver_obj(cargs, args, n):
                        if len(cargs) != 2 or len(args) > 1:
                            raise OutOfVocabulary("QuadraticSolver(a, half_b)(c) called with other arguments")
                        cur["calls"].append({"a": cargs[0], "hb": cargs[1], "c": args[0] if args else None,
                                             "form": "QuadraticSolver(a, half_b)(%s)" % ("c" if args else ""),
                                             "loc": short(n.get("loc", ""))})
                        return ("roots", len(cur["calls"]) - 1)

                    def solve_general(args):
                        if len(args) != 4 or args[3] not in (0, 1):
                            raise OutOfVocabulary("solve_general with other arguments: %r" % (args,))
                        if args[3] != states[sname]:
                            raise OutOfVocabulary("solve_general is not given the caller's surface state")
                        cur["calls"].append({"a": args[0], "hb": args[1],
                                             "c": args[2] if sname == "off" else None,
                                             "form": "solve_general(a, half_b, c, %s)" % sname, "loc": ""})
                        return ("roots", len(cur["calls"]) - 1)

                    def solve_along(args):
                        cur["calls"].append({"a": Poly(), "hb": args[0], "c": args[1],
                                             "form": "solve_along_surface(half_b, c)", "loc": ""})
                        return ("roots", len(cur["calls"]) - 1)

                    def mk(hook):
                        cur["calls"] = []
                        percall.append(cur["calls"])
                        it = FieldInterp(fi, {"call:" + QS + "QuadraticSolver": solver_obj,
                                              QS + "solve_general": solve_general,
                                              QS + "solve_along_surface": solve_along,
                                              C + "no_intersection": NONE,
                                              C + "Tolerance::sqrt_quadratic": Poly.sym("tol"),
                                              "assume": hook}, fields, lookup)
                        it.env.update(bind(fi, [PX, DX, states[sname]]))
                        return it
                    paths = fork_paths(mk, fi.r["ast"])
                    results = 0
                    for (taken, val), calls in zip(paths, percall):
                        val = unwrap(val)
                        if isinstance(val, tuple) and val[0] == "roots":
                            call = calls[val[1]]
                            if any(isinstance(call[k_], (Quot, list, tuple)) for k_ in ("a", "hb", "c")):
                                raise OutOfVocabulary("non-polynomial solver argument in %s" % call["form"])
                            results += 1
                            pairs = [("a - (1/2) d2F/dt2", as_poly(call["a"]), want[0]),
                                     ("2*half_b - dF/dt", as_poly(call["hb"]) * Poly.const(2), want[1])]
                            if sname == "off":
                                if call["c"] is None:
                                    bad.append("state off, %s %s: the constant term c = F(pos) is not passed "
                                               "although the point is not on the surface" % (call["form"], call["loc"]))
                                    continue
                                pairs.append(("c - F(pos)", as_poly(call["c"]), want[2]))
                            ok, k, modulo, res = compare(pairs)
                            if ok:
                                if modulo:
                                    used_unit.append(tag)
                                notes.append("state %s: %s matches%s%s" % (
                                    sname, call["form"], " with common factor %s" % k if k != 1 else "",
                                    " modulo u^2+v^2+w^2 = 1" if modulo else ""))
                            else:
                                bad.append("state %s, %s %s: %s%s" % (
                                    sname, call["form"], call["loc"],
                                    "; ".join("%s = %r" % (lab, r) for lab, r in res if r != Poly()) or
                                    "common factor %s is not positive" % k,
                                    (" (common factor %s)" % k if k != 1 else "") +
                                    (" (modulo u^2+v^2+w^2 = 1)" if modulo else "")))
                        elif isinstance(val, list) and all(isinstance(x, tuple) and x == NONE for x in val):
                            continue
                        elif isinstance(val, list) and len(val) == 1 and isinstance(val[0], (Poly, Quot)):
                            if want[0] != Poly():
                                raise OutOfVocabulary("%s returns a distance computed without the quadratic solver "
                                                      "although F(pos + t dir) is quadratic in t" % tag)
                            results += 1
                            num, den = as_quot(val[0])
                            resid = num * want[1] + den * want[2]
                            if den == Poly() or resid != Poly():
                                bad.append("state %s: distance = (%r) / (%r) but -F(pos)/(dF/dt) = -(%r) / (%r); "
                                           "num*dF/dt + den*F(pos) = %r" % (sname, num, den, want[2], want[1], resid))
                            else:
                                notes.append("state %s: distance = (%r) / (%r)" % (sname, num, den))
                        else:
                            raise OutOfVocabulary("%s::calc_intersections returns %r" % (tag, val))
                    if results == 0 and (sname == "off" or degree == 2):
                        bad.append("state %s: no path reaches the solver (every path returns no_intersection)" % sname)
                what = ("%s: coefficients of the ray equation are those of F(pos + t dir)" % tag) if degree == 2 else \
                    ("%s: the intersection distance is -F(pos) / (dF/dt) along the ray" % tag)
                cx.ob(RULE, what + " (up to one common positive constant factor)", not bad,
                      (" | ".join(bad) if bad else "; ".join(sorted(set(notes))))[:900], short(fi.r["ast"]["loc"]),
                      why="the distances returned must be the roots of F(pos + t dir) = 0 for the F whose sign "
                          "is the sense: with other coefficients the track is moved to a point where the "
                          "sense does not change, or misses the surface")

                # ------------------------------------------------------------------- (c) normal
                # (a call of another overload / private helper of the same object is interpreted by
                # FieldInterp through `lookup`)
                nacc = {C + "make_unit_vector": lambda args: ("unit", args[0])}
                val = unwrap(run_straight(fn, nacc, bind(fn, [PX]), fields, lookup))
                normalised = isinstance(val, tuple) and val[0] == "unit"
                vec = val[1] if normalised else val
                if not (isinstance(vec, list) and len(vec) == 3) or \
                        any(isinstance(x, (Quot, list, tuple)) for x in vec):
                    raise OutOfVocabulary("%s::calc_normal returns %r" % (tag, val))
                vec = [as_poly(x) for x in vec]
                if any(pw < 0 for x in vec for mono in x.t for _s, pw in mono):
                    raise OutOfVocabulary("%s::calc_normal divides by a symbol (sign of the factor unknown)" % tag)
                unit_const = True
                if not normalised and all(x.is_const() for x in vec):
                    # a literal vector: unit length is decidable
                    unit_const = sum((x.cval() ** 2 for x in vec), Fraction(0)) == 1
                elif not normalised:
                    cx.assume("%s::calc_normal returns a stored vector without normalising it: unit length is "
                              "the constructor's (debug-asserted) precondition, only the direction is decided" % tag)
                k = vote(list(zip(vec, grad)))
                res = [vec[i] - grad[i] * Poly.const(k) for i in range(3)]
                ok = k > 0 and all(r == Poly() for r in res) and any(gr != Poly() for gr in grad)
                if ok and not unit_const:
                    ok = False
                    d = "normal = (%s) is returned without normalisation and is not a unit vector" % (
                        ", ".join(repr(x) for x in vec))
                elif ok:
                    d = "normal%s = (%s) = %s * grad F" % (" before normalisation" if normalised else "",
                                                          ", ".join(repr(x) for x in vec), k)
                else:
                    d = "normal = (%s), grad F = (%s); normal - %s*grad F = (%s)" % (
                        ", ".join(repr(x) for x in vec), ", ".join(repr(x) for x in grad), k,
                        ", ".join(repr(r) for r in res))
                cx.ob(RULE, "%s: calc_normal is a positive multiple of grad F (one common positive constant factor)"
                      % tag, ok, d[:900], short(fn.r["ast"]["loc"]),
                      why="the outward normal is the direction in which the sense function increases: any other "
                          "vector makes the crossing test (dir . normal) disagree with the change of sense")
            except OutOfVocabulary as ex:
                raise AnalysisBroken("C12.7: %s is outside the interpreter's vocabulary: %s" % (tag, ex))
    cx.floor("surface instantiations interpreted (sense, ray equation, normal)", n_inst, RAY_INSTANTIATIONS)
    cx.assume("real_to_sense(v) is the sign of v (v > 0: outside); QuadraticSolver returns the positive roots of "
              "a t^2 + 2 half_b t + c = 0 (entry points read by hand, see rules/C12.py; that every exit "
              "depends on a / half_b is C12.5)")
    if used_unit:
        cx.assume("the direction handed to calc_intersections is a unit vector, u^2 + v^2 + w^2 = 1 (needed for "
                  "the leading coefficient of: %s)" % ", ".join(sorted(set(used_unit))))
    cx.assume("C12.7 decides the coefficients, not the guards: early `no_intersection` exits (a below tolerance, "
              "n.dir == 0, dist <= 0) and floating-point round-off are not examined")
