"""C12 - transform-down o transform-up = id (affine abstract interpretation) and
surface-type table agreement.  Intersection/sense/normal consistency: not decided."""
import re
from fractions import Fraction
from cfg import path_leaf
from common import local_refs, C, short
from astutil import strip, find_all, show, OutOfVocabulary
from facts import AnalysisBroken
import witness

EXPLANATION = (
    "Affine abstract interpretation of the one-line transform_up/down and rotate_up/down bodies "
    "of NoTransformation, Translation and Transformation over the vocabulary gemv (with/without "
    "transpose, alpha/beta form), +, -, identity: the composition down(up(x)) and up(down(x)) "
    "reduces to x using only R^T R = R R^T = I, for all positions and all stored rotations/"
    "translations. Surface-type tables (enum, traits, visitor switch, name table) cover every "
    "enumerator exactly once.")
NOT_DECIDED = ("positivity/minimality of intersection distances, sense = sign of the surface "
               "function, normals, sense preservation under SurfaceTransformer/Simplifier "
               "(algebraic identities over floating point)")
LEVEL_NOTE = ("Assumption: the stored rotation matrix is orthonormal (checked by the class only "
              "with a debug assertion). SignedPermutation (bit-packed) is outside the vocabulary.")

TECHNIQUE = ('affine abstract interpretation (words over R, R^T with R^T R = I) of transform_up/down and rotate_up/down; polynomial-domain interpretation (exact, rational coefficients) of the quadric translators/transformer compared with f(x - t) / f(R^T (x - t)); constructor/accessor contradiction rule for surfaces rebuilt from accessors; data/control dependence of every solver exit on the leading coefficient; static_assert witness and switch/enum/name-table agreement')

UNITS = [
    "src/orange/OrangeParams.cc",
    "src/orange/OrangeTypes.cc",
    "src/orange/detail/OrangeInputIOImpl.json.cc",
    "src/orange/transform/Transformation.cc",
    "src/orange/surf/detail/SurfaceTranslator.cc",
    "src/orange/surf/Involute.cc",
    "src/orange/surf/detail/SurfaceTransformer.cc",
    "src/orange/surf/SurfaceSimplifier.cc",
]


# affine forms: dict {(kind, word): coeff}; kind 'x' (input) or 't' (translation);
# word = tuple over {'R','T'} applied left-to-right as matrix product M1 M2 ... v
def reduce_word(w):
    out = []
    for s in w:
        if out and {out[-1], s} == {"R", "T"}:
            out.pop()
        else:
            out.append(s)
    return tuple(out)


def apply(mat, form):
    out = {}
    for (k, w), c in form.items():
        key = (k, reduce_word(tuple(mat) + w))
        out[key] = out.get(key, 0) + c
    return {k: v for k, v in out.items() if v != 0}


def add(a, b, sb=1):
    out = dict(a)
    for k, v in b.items():
        out[k] = out.get(k, 0) + sb * v
    return {k: v for k, v in out.items() if v != 0}


def scale(a, s):
    return {k: v * s for k, v in a.items() if v * s != 0}


def interp(func, arg_form):
    """Affine form of the value returned by func(arg)."""
    ast = func.r["ast"]
    rets = find_all(ast, "ReturnStmt")
    if len(rets) != 1:
        raise OutOfVocabulary("%s: expected a single return" % func.name)
    param = func.r["params"][0]["n"]

    def scalar(n):
        n = strip(n, also=("CXXFunctionalCastExpr", "InitListExpr", "CXXStaticCastExpr"))
        while n["k"] in ("CXXFunctionalCastExpr", "InitListExpr") and n["c"]:
            n = strip(n["c"][0], also=("CXXFunctionalCastExpr", "InitListExpr"))
        if n["k"] == "IntegerLiteral":
            return Fraction(int(n["val"]))
        if n["k"] == "FloatingLiteral":
            return Fraction(n["val"])
        if n["k"] == "UnaryOperator" and n["op"] == "-":
            return -scalar(n["c"][0])
        raise OutOfVocabulary("scalar outside vocabulary: " + show(n))

    def mat(n):
        n = strip(n)
        if n["k"] == "MemberExpr" and n["name"] == "rot_":
            return ("R",)
        raise OutOfVocabulary("matrix outside vocabulary: " + show(n))

    env = {}

    def vec(n):
        n = strip(n, also=("CXXConstructExpr",))
        k = n["k"]
        if k == "DeclRefExpr" and n["name"] == param:
            return dict(arg_form)
        if k == "DeclRefExpr" and n["name"] in env:
            return dict(env[n["name"]])
        if k == "MemberExpr" and n["name"] == "tra_":
            return {("t", ()): Fraction(1)}
        if k == "CXXOperatorCallExpr" and n.get("oop") in ("+", "-") and len(n["c"]) == 3:
            a, b = vec(n["c"][1]), vec(n["c"][2])
            return add(a, b, 1 if n["oop"] == "+" else -1)
        if k == "CXXOperatorCallExpr" and n.get("oop") == "-" and len(n["c"]) == 2:
            return scale(vec(n["c"][1]), -1)
        if k == "CallExpr" and n.get("callee") == C + "gemv":
            args = n["c"][1:]
            if len(args) == 2:
                return apply(mat(args[0]), vec(args[1]))
            if len(args) == 3:
                pol = strip(args[0])
                names = [x.get("name") for x in [pol] + pol.get("c", []) if x]
                flat = show(args[0])
                if "transpose" not in flat and "transpose" not in str(names):
                    raise OutOfVocabulary("gemv policy outside vocabulary: " + flat)
                m = mat(args[1])
                m = tuple("T" if s == "R" else "R" for s in reversed(m))
                return apply(m, vec(args[2]))
            if len(args) == 5:
                al, be = scalar(args[0]), scalar(args[3])
                return add(scale(apply(mat(args[1]), vec(args[2])), al), scale(vec(args[4]), be))
            raise OutOfVocabulary("gemv with %d arguments" % len(args))
        if k == "CallExpr" and n.get("callee") == C + "negate":
            return scale(vec(n["c"][1]), -1)
        raise OutOfVocabulary("vector expression outside vocabulary: %s (%s)" % (show(n), k))

    # local vector variables initialised before the return (single assignment, straight line)
    for vd in find_all(ast, "VarDecl"):
        if vd["c"] and vd["c"][0] is not None and "Array<double, 3>" in vd.get("ty", "").replace("celeritas::", ""):
            env[vd["name"]] = vec(vd["c"][0])
    return vec(rets[0]["c"][0])


def run(db, cx):
    X = {("x", ()): Fraction(1)}
    n = 0
    for cls in ("NoTransformation", "Translation", "Transformation"):
        fn = {}
        for m in ("transform_up", "transform_down", "rotate_up", "rotate_down"):
            fs = [f for f in db.get(C + cls + "::" + m) if "ast" in f.r]
            cx.require(fs, "anchor %s::%s (AST) not found" % (cls, m))
            fn[m] = fs[0]
        for a, b, what in (("transform_up", "transform_down", "transform_down(transform_up(x)) == x"),
                           ("transform_down", "transform_up", "transform_up(transform_down(x)) == x"),
                           ("rotate_up", "rotate_down", "rotate_down(rotate_up(d)) == d"),
                           ("rotate_down", "rotate_up", "rotate_up(rotate_down(d)) == d")):
            inner = interp(fn[a], X)
            outer = interp(fn[b], inner)
            ok = outer == X
            n += 1
            cx.ob("C12.1-transform-inverse", "%s: %s" % (cls, what), ok,
                  "composition = %s" % fmt(outer), short(fn[b].loc),
                  why="daughter-universe navigation transforms positions down and normals/"
                      "directions up: if the pair is not inverse the track is at different "
                      "points in parent and daughter")
        # rotation part of the affine map equals the rotate map
        up = interp(fn["transform_up"], X)
        rup = interp(fn["rotate_up"], X)
        lin = {k: v for k, v in up.items() if k[0] == "x"}
        cx.ob("C12.1-transform-inverse", "%s: transform_up and rotate_up share the linear part" % cls,
              lin == rup, "linear(transform_up) = %s, rotate_up = %s" % (fmt(lin), fmt(rup)),
              short(fn["rotate_up"].loc),
              why="directions must rotate with exactly the rotation applied to positions")
    cx.count("compositions interpreted", n)
    cx.assume("the stored rotation matrix is orthonormal (R^T R = I); the constructor only "
              "asserts this in debug builds")
    cx.assume("SignedPermutation is outside the vocabulary and not covered")
    cx.assume("celeritas::gemv implements the BLAS contract: gemv(A,x)=Ax, gemv(transpose,A,x)=A^T x, "
              "gemv(a,A,x,b,y)=aAx+by")

    # -------------------------------------------------------------- surface-type tables
    en = db.enums.get(C + "SurfaceType")
    cx.require(en, "enum SurfaceType not found")
    sts = [e["n"] for e in en["enumerators"] if e["n"] != "size_"]
    # traits + type agreement (witness)
    src = ['#include "corecel/Macros.hh"', '#include "corecel/Types.hh"',
           '#include "orange/surf/SurfaceTypeTraits.hh"', '#include "orange/surf/detail/AllSurfaces.hh"',
           "using namespace celeritas;"]
    for st in sts:
        src.append("static_assert(SurfaceTypeTraits<SurfaceType::%s>::type::surface_type() == "
                   "SurfaceType::%s, \"W:%s\");" % (st, st, st))
    failed, other = witness.compile_witness("\n".join(src) + "\n", "src/orange/OrangeParams.cc")
    if other:
        raise AnalysisBroken("C12 witness does not compile (enumerator without traits?): %s" % other[:3])
    for st in sts:
        cx.ob("C12.2-surface-tables", "SurfaceTypeTraits<%s>::type::surface_type() == %s" % (st, st),
              st not in failed, "", "src/orange/surf/SurfaceTypeTraits.hh",
              why="a mismatch stores a surface under one type tag and evaluates it as another")
    # visitor switch covers every enumerator
    cov = None
    for nme in db.find(r"^celeritas::visit_surface_type$"):
        for f in db.get(nme):
            for sw in f.r.get("switches", []):
                labels = set(c["label"].split("::")[-1] for c in sw["cases"])
                cov = labels if cov is None else (cov & labels)
    cx.require(cov is not None, "visit_surface_type switch not found")
    for st in sts:
        cx.ob("C12.2-surface-tables", "visit_surface_type has a case for %s" % st, st in cov, "",
              "src/orange/surf/SurfaceTypeTraits.hh",
              why="an enumerator without a case falls into the unreachable default")
    # name table: one distinct string per enumerator
    names = []
    for f in db.get(C + "to_cstring"):
        if f.r["params"] and "SurfaceType" in f.r["params"][0]["cty"]:
            names = [s["s"] for s in f.r.get("strs", [])]
    cx.ob("C12.2-surface-tables", "to_cstring(SurfaceType) has one distinct name per enumerator",
          len(names) == len(sts) and len(set(names)) == len(names),
          "%d names for %d enumerators" % (len(names), len(sts)), "src/orange/OrangeTypes.cc",
          why="duplicate or missing names make the JSON surface type ambiguous")
    quadric_translation(db, cx)
    rebuild_from_accessors(db, cx)
    solver_dependence(db, cx)
    plane_conversion(db, cx)
    sphere_conversion(db, cx)
    cyl_conversion(db, cx)
    cone_conversion(db, cx)


def fmt(form):
    if not form:
        return "0"
    out = []
    for (k, w), c in sorted(form.items()):
        m = "".join("R" if s == "R" else "R^T" for s in w)
        out.append("%s%s%s" % ("" if c == 1 else "%s*" % c, m + " " if m else "", "x" if k == "x" else "t"))
    return " + ".join(out)


def quadric_translation(db, cx):
    """C12.3 (A6, lib/polyinterp.py): SurfaceTranslator for the two quadric classes computes new
    coefficients from the old ones and the translation t.  The translated surface is the point
    set shifted by t, i.e. its implicit function is f(x - t).  The body is interpreted over
    polynomials in the symbolic coefficients and t, and the resulting implicit function is
    compared with the expansion of f(x - t) as a polynomial identity in x."""
    from polyinterp import Poly, interpret
    ST = C + "detail::SurfaceTranslator::operator()"
    x = [Poly.sym("x%d" % i) for i in range(3)]
    t = [Poly.sym("t%d" % i) for i in range(3)]
    a = [Poly.sym("a%d" % i) for i in range(3)]
    b = [Poly.sym("b%d" % i) for i in range(3)]
    e = [Poly.sym("e%d" % i) for i in range(3)]      # cross terms: xy, yz, zx
    c0 = Poly.sym("c")

    def f_sq(sec, fst, z, p):
        r = as_p(z)
        for i in range(3):
            r = r + as_p(sec[i]) * p[i] * p[i] + as_p(fst[i]) * p[i]
        return r

    def f_gq(sec, crs, fst, z, p):
        r = f_sq(sec, fst, z, p)
        r = r + as_p(crs[0]) * p[0] * p[1] + as_p(crs[1]) * p[1] * p[2] + as_p(crs[2]) * p[2] * p[0]
        return r
    from polyinterp import as_poly as as_p
    shifted = [x[i] - t[i] for i in range(3)]
    cases = (("SimpleQuadric", {C + "SimpleQuadric::second": a, C + "SimpleQuadric::first": b,
                                C + "SimpleQuadric::zeroth": c0},
              lambda args: f_sq(args[0], args[1], args[2], x), f_sq(a, b, c0, shifted)),
             ("GeneralQuadric", {C + "GeneralQuadric::second": a, C + "GeneralQuadric::cross": e,
                                 C + "GeneralQuadric::first": b, C + "GeneralQuadric::zeroth": c0},
              lambda args: f_gq(args[0], args[1], args[2], args[3], x), f_gq(a, e, b, c0, shifted)))
    for cls, acc, build, want in cases:
        fs = [f for f in db.get(ST) if f.r["params"] and cls in f.r["params"][0]["ty"] and "ast" in f.r]
        cx.require(fs, "anchor SurfaceTranslator::operator()(%s) (AST) not found" % cls)
        acc = dict(acc)
        acc[C + "Translation::translation"] = t
        # semantics of the Translation helpers (their mutual inverse property is C12.1)
        acc[C + "Translation::transform_up"] = lambda args: [as_p(args[0][i]) + t[i] for i in range(3)]
        acc[C + "Translation::transform_down"] = lambda args: [as_p(args[0][i]) - t[i] for i in range(3)]
        acc[C + "Translation::rotate_up"] = lambda args: list(args[0])
        acc[C + "Translation::rotate_down"] = lambda args: list(args[0])
        res = interpret(fs[0], acc)
        ok = False
        d = "unexpected return value %r" % (res,)
        if isinstance(res, tuple) and res[0] == "construct" and res[1].endswith(cls + "::" + cls):
            got = build(res[2])
            diff = got - want
            ok = diff == Poly()
            d = "f'(x) - f(x - t) = %s" % (diff if not ok else "0")
        cx.ob("C12.3-quadric-translation", "translated %s has the implicit function f(x - t)" % cls,
              ok, d[:600], short(fs[0].loc),
              why="a translated surface must contain exactly the translated points: any other "
                  "coefficient moves or deforms the surface, so the sense at the transformed point "
                  "differs from the original's sense at the original point")

    # rotation + translation of a general quadric: x = R^T (x' - t)  (R^T is the inverse the code
    # uses; orthonormality of R is an assumption of C12.1, not needed for this identity)
    STR = C + "detail::SurfaceTransformer::operator()"
    fs = [f for f in db.get(STR) if f.r["params"] and "GeneralQuadric" in f.r["params"][0]["ty"] and "ast" in f.r]
    cx.require(fs, "anchor SurfaceTransformer::operator()(GeneralQuadric) (AST) not found")
    R = [[Poly.sym("r%d%d" % (i, j)) for j in range(3)] for i in range(3)]

    def rot_down(args):
        v = args[0]
        return [R[0][i] * as_p(v[0]) + R[1][i] * as_p(v[1]) + R[2][i] * as_p(v[2]) for i in range(3)]
    acc = {C + "GeneralQuadric::second": a, C + "GeneralQuadric::cross": e,
           C + "GeneralQuadric::first": b, C + "GeneralQuadric::zeroth": c0,
           C + "Transformation::translation": t, C + "Transformation::rotation": R,
           C + "Transformation::rotate_down": rot_down}
    res = interpret(fs[0], acc)
    ok = False
    d = "unexpected return value %r" % (res,)
    if isinstance(res, tuple) and res[0] == "construct" and res[1].endswith("GeneralQuadric::GeneralQuadric"):
        args = res[2]
        got = f_gq(args[0], args[1], args[2], args[3], x)
        y = rot_down([[x[i] - t[i] for i in range(3)]])
        want = f_gq(a, e, b, c0, y)
        diff = got - want
        ok = diff == Poly()
        d = "f'(x) - f(R^T (x - t)) = %s" % (diff if not ok else "0 (polynomial identity in R, t, x)")
    cx.ob("C12.3-quadric-translation", "transformed GeneralQuadric has the implicit function "
          "f(R^T (x - t))", ok, d[:600], short(fs[0].loc),
          why="a rotated and translated surface must contain exactly the transformed points")


def rebuild_from_accessors(db, cx):
    """C12.4: the translators rebuild a surface as K{..., other.acc(), ...}.  That is the
    identity for a zero translation only if acc() returns what the constructor parameter means.
    Structural contradiction: the constructor stores parameter p in field F and then re-assigns
    F as a function of itself on some path (a normalisation such as F = pi - F), while acc() is a
    raw `return F` - then K{other.acc()} applies the normalisation twice."""
    n = 0
    for f in db.get(C + "detail::SurfaceTranslator::operator()"):
        for (b, i, ev) in f.events("call"):
            if not ev.get("ctor"):
                continue
            cls = ev["callee"].rsplit("::", 1)[0]
            ctors = [g for g in db.get(ev["callee"]) if g.r.get("sig") == ev.get("sig") or len(db.get(ev["callee"])) == 1]
            if not ctors or "/orange/surf/" not in ctors[0].loc:
                continue
            g = ctors[0]
            params = [p["n"] for p in g.r["params"]]
            for j, a in enumerate(ev.get("args", [])):
                accs = [c for c in a.get("calls", []) if c.startswith(cls + "::")]
                if len(accs) != 1 or len(a.get("calls", [])) != 1 or j >= len(params):
                    continue
                n += 1
                acc = accs[0]
                fld = None
                for (_b, _i, w) in g.events("write"):
                    if w.get("kind") == "ctorinit" and (w.get("rhs") or "").strip() == params[j]:
                        fld = path_leaf(w.get("path"))
                if fld is None:
                    continue
                renorm = [w for (_b, _i, w) in g.events("write") if w.get("kind") != "ctorinit"
                          and path_leaf(w.get("path")) == fld and "F:" + fld in w.get("refs", [])]
                raw = False
                for h in db.get(acc):
                    rets = [r for (_b, _i, r) in h.events("return")]
                    raw = bool(rets) and all(not r.get("calls") and r.get("refs") and
                                             set(x for x in r["refs"] if x != "this") == {"F:" + fld}
                                             for r in rets)
                bad = bool(renorm) and raw
                cx.ob("C12.4-rebuild-from-accessors", "%s rebuilt from %s(): accessor and constructor "
                      "parameter `%s` mean the same [%s]" % (cls.split("::")[-1], acc.split("::")[-1], params[j],
                                                              f.inst.split("<")[-1][:30] if "<" in f.inst else "-"),
                      not bad, ("constructor re-normalises %s (`%s = %s`) but %s() returns the stored "
                                "value" % (fld.split("::")[-1], renorm[0].get("lhs"), renorm[0].get("rhs"),
                                           acc.split("::")[-1])) if bad else "", short(ev["loc"]),
                      why="rebuilding the surface from that accessor applies the constructor's "
                          "normalisation a second time: even a zero translation changes the surface")
    cx.floor("surfaces rebuilt from accessors in SurfaceTranslator", n, 3)


def solver_dependence(db, cx):
    """C12.5-solver-dependence (dependence analysis).  Whether a x^2 + 2(b/2) x + c = 0 has a
    positive root cannot be decided without the leading coefficient: for every (b/2, c) not both
    zero there are values of `a` with and without a positive root.  So every exit of
    solve_general must depend on `a` - through the value returned or through a condition that
    controls reaching it; likewise solve_along_surface (a = 0: -c / b) on `half_b`.  An early
    "no intersection" that looks only at the other coefficients is wrong for some surface
    (negative leading coefficient: cones, hyperboloids, saddles)."""
    QS = C + "detail::QuadraticSolver::"
    table = [("solve_general", "a", "the leading coefficient a"),
             ("solve_along_surface", "half_b", "the linear coefficient b/2")]
    n = 0
    for meth, prm, what in table:
        fs = db.get(QS + meth)
        cx.require(fs, "anchor QuadraticSolver::%s not found" % meth)
        for f in fs:
            cx.require(prm in [p_["n"] for p_ in f.r["params"]],
                       "QuadraticSolver::%s has no parameter `%s`" % (meth, prm))
            branches = [b for b in f.branch_blocks(lambda c, _b: True) if None not in f.blocks[b]["succ"]]

            def closure(names, pos, depth=4):
                out = set(names)
                frontier = set(local_refs(names))
                for _ in range(depth):
                    nxt = set()
                    for v in frontier:
                        for (_b, _i, d) in f.reaching_defs(v, pos):
                            out |= set(d.get("refs", []))
                            nxt |= set(local_refs(d.get("refs", [])))
                        # element-wise writes (result[0] = ...)
                        for (_b, _i, w) in f.events("write"):
                            if w.get("path", {}).get("root") in ("l:" + v,):
                                out |= set(w.get("refs", []))
                                nxt |= set(local_refs(w.get("refs", [])))
                    if not nxt:
                        break
                    frontier = nxt
                return out
            for (b, i, ev) in f.events("return"):
                dep = closure(ev.get("refs", []), (b, i))
                ctrl = []
                for br in branches:
                    for e in (0, 1):
                        if f.guarded_by_edge((b, i), br, e):
                            c = f.blocks[br]["cond"]
                            dep |= closure(c.get("allrefs", c.get("refs", [])), (br, 0))
                            ctrl.append(c.get("t", "")[:40])
                n += 1
                cx.ob("C12.5-solver-dependence", "%s: the result returned at %s depends on %s"
                      % (meth, short(ev["loc"]).split(":", 1)[1], what), prm in dep,
                      "returns `%s` under [%s]" % (ev.get("t", "")[:60], "; ".join(ctrl)),
                      short(ev["loc"]),
                      why="no statement about the positive roots holds for all values of this "
                          "coefficient: an exit that ignores it is wrong for some surface")
    cx.floor("solver exits examined", n, 4)


def plane_conversion(db, cx):
    """C12.6-plane-conversion (A6 with a norm symbol): a quadric without second-order terms,
    b.x + z = 0, is replaced by Plane{n, d}, i.e. n.x - d = 0 with n a unit vector.  The same
    point set with the same orientation needs n = b/|b| and d = -z/|b| - both scaled by the same
    positive factor.  The converter is interpreted with b, z symbolic and N = |b| a symbol
    (N^2 = b.b; divisions by a monomial are exact in Laurent monomials)."""
    from polyinterp import Poly, Interp, Return, as_poly
    from astutil import OutOfVocabulary
    name = C + "detail::QuadricPlaneConverter::operator()"
    fs = [f for f in db.get(name) if f.r.get("ast")]
    cx.require(fs, "anchor QuadricPlaneConverter::operator() (AST) not found")
    f = fs[0]
    b = [Poly.sym("b%d" % i) for i in range(3)]
    z = Poly.sym("z")
    N = Poly.sym("N")
    B = b[0] * b[0] + b[1] * b[1] + b[2] * b[2]

    def norm(args):
        v = args[0]
        if not isinstance(v, list) or len(v) != 3:
            raise OutOfVocabulary("norm of a non-vector")
        s2 = Poly()
        for x in v:
            s2 = s2 + as_poly(x) * as_poly(x)
        # s2 must be m * (b.b) for one monomial m that is a perfect square
        lead = [(k, c) for k, c in s2.t.items() if dict(k).get("b0") == 2
                and "b1" not in dict(k) and "b2" not in dict(k)]
        if len(lead) != 1:
            raise OutOfVocabulary("norm of a vector that is not a multiple of the coefficient vector")
        k, c = lead[0]
        m = Poly({tuple((s_, p_) for s_, p_ in k if s_ != "b0"): c})
        if not (m * B == s2):
            raise OutOfVocabulary("norm of a vector that is not a multiple of the coefficient vector")
        (mk, mc), = m.t.items()
        from fractions import Fraction
        import math
        rn, rd = math.isqrt(mc.numerator), math.isqrt(mc.denominator)
        if mc <= 0 or rn * rn != mc.numerator or rd * rd != mc.denominator or any(p_ % 2 for _s, p_ in mk):
            raise OutOfVocabulary("norm: scale factor is not a perfect square")
        root = Poly({tuple((s_, p_ // 2) for s_, p_ in mk): Fraction(rn, rd)})
        return root * N

    def unit(args):
        n_ = norm(args)
        return [as_poly(x).div(n_) for x in args[0]]
    acc = {C + "SimpleQuadric::first": b, C + "SimpleQuadric::zeroth": z,
           C + "norm": norm, C + "make_unit_vector": unit,
           C + "negate": lambda a: -as_poly(a[0])}
    it = Interp(f, acc)
    try:
        try:
            it.run(f.r["ast"])
            val = None
        except Return as r:
            val = r.v
    except OutOfVocabulary as e:
        raise AnalysisBroken("C12.6: QuadricPlaneConverter is outside the interpreter's vocabulary: %s" % e)
    cx.require(isinstance(val, tuple) and val[0] == "construct" and val[1].endswith("Plane::Plane")
               and len(val[2]) == 2 and isinstance(val[2][0], list),
               "QuadricPlaneConverter does not return Plane{normal, displacement}: %r" % (val,))
    n_r, d_r = val[2]
    Ninv = Poly.const(1).div(N)
    ok_n = all(as_poly(n_r[i]) == b[i] * Ninv for i in range(3))
    ok_d = as_poly(d_r) == -z * Ninv
    cx.ob("C12.6-plane-conversion", "QuadricPlaneConverter: the plane's normal is b/|b|", ok_n,
          "normal = (%s)" % ", ".join(repr(x) for x in n_r), short(f.loc),
          why="Plane stores a unit normal")
    cx.ob("C12.6-plane-conversion", "QuadricPlaneConverter: the displacement is -z/|b| (same factor as the normal)",
          ok_d, "d = %r  (N = |b|)" % (d_r,), short(f.loc),
          why="n.x - d must be a positive multiple of b.x + z, otherwise the plane is displaced "
              "and points between the two planes change sense")


def sphere_conversion(db, cx):
    """C12.6-sphere-conversion (A6): a simple quadric a(x^2+y^2+z^2) + e.x + h = 0 with equal
    second-order coefficients is replaced by Sphere{origin, r^2}, i.e. |x - o|^2 - r^2 = 0.
    Dividing the quadric by a (> 0): o = -e/(2a) and o.o - r^2 = h/a.  The converter is
    interpreted on the path that returns a sphere (equal coefficients, r^2 > 0), with a, e, h
    symbolic."""
    from polyinterp import Poly, Interp, Return, as_poly
    from astutil import OutOfVocabulary
    from fractions import Fraction
    name = C + "detail::QuadricSphereConverter::operator()"
    fs = [f for f in db.get(name) if f.r.get("ast")]
    cx.require(fs, "anchor QuadricSphereConverter::operator() (AST) not found")
    f = fs[0]
    a = Poly.sym("a")
    e = [Poly.sym("e%d" % i) for i in range(3)]
    h = Poly.sym("h")
    assumed = []

    def assume(op, x, y, n):
        # the path under study: the radius is real
        assumed.append(n.get("loc", ""))
        if op in ("<=", "<"):
            return False
        if op in (">", ">="):
            return True
        return None
    acc = {C + "SimpleQuadric::second": [a, a, a], C + "SimpleQuadric::first": e,
           C + "SimpleQuadric::zeroth": h, "member:soft_equal_": lambda args: True,
           C + "Sphere::from_radius_sq": lambda args: ("sphere", args[0], args[1]),
           "assume": assume}
    it = Interp(f, acc)
    try:
        try:
            it.run(f.r["ast"])
            val = None
        except Return as r:
            val = r.v
        while isinstance(val, tuple) and val[0] == "construct" and len(val[2]) == 1:
            val = val[2][0]
    except OutOfVocabulary as ex:
        raise AnalysisBroken("C12.6: QuadricSphereConverter is outside the interpreter's vocabulary: %s" % ex)
    cx.require(isinstance(val, tuple) and val[0] == "sphere" and isinstance(val[1], list) and len(val[1]) == 3,
               "QuadricSphereConverter does not return Sphere::from_radius_sq(origin, r^2): %r" % (val,))
    o, r2 = val[1], as_poly(val[2])
    half_inv = Poly.const(Fraction(-1, 2)).div(a)
    ok_o = all(as_poly(o[i]) == e[i] * half_inv for i in range(3))
    oo = Poly()
    for x in o:
        oo = oo + as_poly(x) * as_poly(x)
    ok_r = (oo - r2) == h.div(a)
    cx.ob("C12.6-sphere-conversion", "QuadricSphereConverter: origin = -e / (2a)", ok_o,
          "origin = (%s)" % ", ".join(repr(x) for x in o), short(f.loc),
          why="expanding |x - o|^2 - r^2 must reproduce the quadric divided by a")
    cx.ob("C12.6-sphere-conversion", "QuadricSphereConverter: o.o - r^2 = h / a", ok_r,
          "r^2 = %r" % (r2,), short(f.loc),
          why="a radius computed with another scale is a different sphere: points between the two "
              "change sense")


def cyl_conversion(db, cx):
    """C12.6-cyl-conversion (A6), sibling of the sphere rule: for each axis T the quadric
    a(u^2 + v^2) + e_u u + e_v v + h = 0 becomes CylAligned<T>{origin, r^2}:
    origin_u = -e_u/(2a), origin_v = -e_v/(2a), origin_T = 0, o_u^2 + o_v^2 - r^2 = h/a."""
    from polyinterp import Poly, Interp, Return, as_poly
    from astutil import OutOfVocabulary
    from fractions import Fraction
    name = C + "detail::QuadricCylConverter::operator()"
    fs = [f for f in db.get(name) if f.r.get("ast")]
    cx.floor("QuadricCylConverter instantiations", len(fs), 3)
    a = Poly.sym("a")
    h = Poly.sym("h")
    for f in fs:
        m = re.search(r"Axis::([xyz])>", f.inst)
        cx.require(m, "QuadricCylConverter instantiation without an axis: %s" % f.inst)
        t = "xyz".index(m.group(1))
        e = [Poly.sym("e%d" % i) if i != t else Poly() for i in range(3)]
        second = [a if i != t else Poly() for i in range(3)]

        def assume(op, x, y, n):
            if op in ("<=", "<"):
                return False
            if op in (">", ">="):
                return True
            return None
        acc = {C + "SimpleQuadric::second": second, C + "SimpleQuadric::first": e,
               C + "SimpleQuadric::zeroth": h, "member:soft_equal_": lambda args: True,
               C + "CylAligned::from_radius_sq": lambda args: ("cyl", args[0], args[1]),
               "assume": assume}
        it = Interp(f, acc)
        try:
            try:
                it.run(f.r["ast"])
                val = None
            except Return as r:
                val = r.v
            while isinstance(val, tuple) and val[0] == "construct" and len(val[2]) == 1:
                val = val[2][0]
        except OutOfVocabulary as ex:
            raise AnalysisBroken("C12.6: QuadricCylConverter<%s> is outside the interpreter's vocabulary: %s"
                                 % (m.group(1), ex))
        cx.require(isinstance(val, tuple) and val[0] == "cyl" and isinstance(val[1], list) and len(val[1]) == 3,
                   "QuadricCylConverter<%s> does not return CylAligned::from_radius_sq(origin, r^2): %r"
                   % (m.group(1), val))
        o, r2 = val[1], as_poly(val[2])
        half_inv = Poly.const(Fraction(-1, 2)).div(a)
        ok_o = all(as_poly(o[i]) == e[i] * half_inv for i in range(3))
        oo = Poly()
        for i in range(3):
            if i != t:
                oo = oo + as_poly(o[i]) * as_poly(o[i])
        ok_r = (oo - r2) == h.div(a)
        cx.ob("C12.6-cyl-conversion", "QuadricCylConverter<%s>: origin = -e / (2a) in the plane, 0 along the axis"
              % m.group(1), ok_o, "origin = (%s)" % ", ".join(repr(x) for x in o), short(f.loc),
              why="expanding the cylinder's implicit function must reproduce the quadric divided by a")
        cx.ob("C12.6-cyl-conversion", "QuadricCylConverter<%s>: o_u^2 + o_v^2 - r^2 = h / a" % m.group(1),
              ok_r, "r^2 = %r" % (r2,), short(f.loc),
              why="a radius computed with another scale is a different cylinder")


def cone_conversion(db, cx):
    """C12.6-cone-conversion (A6), sibling rule: c t^2... for each axis T the quadric
    c x_T^2 + b(u^2 + v^2) + e.x + h = 0 (c < 0 < b) becomes ConeAligned<T>{origin, t^2} with
    -t^2 (x_T - o_T)^2 + (u - o_u)^2 + (v - o_v)^2: t^2 = -c/b, o_T = -e_T/(2c), o_u = -e_u/(2b),
    and the constant that is compared with h/b at run time (hyperboloid test) is
    -t^2 o_T^2 + o_u^2 + o_v^2."""
    from polyinterp import Poly, Interp, Return, as_poly
    from astutil import OutOfVocabulary
    from fractions import Fraction
    name = C + "detail::QuadricConeConverter::operator()"
    fs = [f for f in db.get(name) if f.r.get("ast")]
    cx.floor("QuadricConeConverter instantiations", len(fs), 3)
    b, c, h = Poly.sym("b"), Poly.sym("c"), Poly.sym("h")
    for f in fs:
        m = re.search(r"Axis::([xyz])>", f.inst)
        cx.require(m, "QuadricConeConverter instantiation without an axis: %s" % f.inst)
        t = "xyz".index(m.group(1))
        e = [Poly.sym("e%d" % i) for i in range(3)]
        second = [b if i != t else c for i in range(3)]
        compared = []

        def assume(op, x, y, n):
            if op == "<" and as_poly(x) == c and as_poly(y) == Poly():
                return True          # the negative second-order coefficient
            if op in (">", ">="):
                return True
            return None

        def soft_equal(args):
            compared.append(args)
            return True
        acc = {C + "SimpleQuadric::second": second, C + "SimpleQuadric::first": e,
               C + "SimpleQuadric::zeroth": h, "member:soft_equal_": soft_equal,
               C + "ConeAligned::from_tangent_sq": lambda args: ("cone", args[0], args[1]),
               "assume": assume}
        it = Interp(f, acc)
        try:
            try:
                it.run(f.r["ast"])
                val = None
            except Return as r:
                val = r.v
            while isinstance(val, tuple) and val[0] == "construct" and len(val[2]) == 1:
                val = val[2][0]
        except OutOfVocabulary as ex:
            raise AnalysisBroken("C12.6: QuadricConeConverter<%s> is outside the interpreter's vocabulary: %s"
                                 % (m.group(1), ex))
        cx.require(isinstance(val, tuple) and val[0] == "cone" and isinstance(val[1], list) and len(val[1]) == 3,
                   "QuadricConeConverter<%s> does not return ConeAligned::from_tangent_sq(origin, t^2): %r"
                   % (m.group(1), val))
        o, tsq = [as_poly(x) for x in val[1]], as_poly(val[2])
        ok_t = tsq == (-c).div(b)
        half = Fraction(-1, 2)
        ok_o = all(o[i] == (e[i] * Poly.const(half)).div(c if i == t else b) for i in range(3))
        const = Poly()
        for i in range(3):
            const = const + (o[i] * o[i] * (-tsq) if i == t else o[i] * o[i])
        pair = [p_ for p_ in compared if len(p_) == 2 and (as_poly(p_[1]) == h.div(b) or as_poly(p_[0]) == h.div(b))]
        ok_h = bool(pair) and any(as_poly(p_[0]) == const or as_poly(p_[1]) == const for p_ in pair)
        tag = m.group(1)
        cx.ob("C12.6-cone-conversion", "QuadricConeConverter<%s>: t^2 = -c/b" % tag, ok_t, "t^2 = %r" % (tsq,),
              short(f.loc), why="the opening angle of the cone")
        cx.ob("C12.6-cone-conversion", "QuadricConeConverter<%s>: origin = -e_T/(2c) along the axis, -e/(2b) across"
              % tag, ok_o, "origin = (%s)" % ", ".join(repr(x) for x in o), short(f.loc),
              why="expanding the cone's implicit function must reproduce the quadric divided by b")
        cx.ob("C12.6-cone-conversion", "QuadricConeConverter<%s>: the hyperboloid test compares h/b with "
              "-t^2 o_T^2 + o_u^2 + o_v^2" % tag, ok_h,
              "compared: %s" % "; ".join("(%r, %r)" % (p_[0], p_[1]) for p_ in compared if len(p_) == 2)[:300],
              short(f.loc),
              why="with another constant a hyperboloid is accepted as a cone (or a cone rejected)")
