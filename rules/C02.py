"""C02 - every primary and secondary transported exactly once (structural clauses)."""
import itertools
import astutil
from common import C, short, field_writers, check_owners, local_refs
from cfg import path_leaf, follow, UnknownAtom
from facts import AnalysisBroken
import shared
import effects

EXPLANATION = (
    "Track-bookkeeping rules: initializer capacity validation dominates the writes; track ids "
    "come only from the atomic per-event counter; the initialisation state (vacancies, "
    "initializers, parents, counts, counters) is written only by its owning functions and only "
    "from generate/start/end actions; the track status is set to each enumerator only from the "
    "step-action orders that make the life cycle monotone; the predicate under which "
    "LocateAlive keeps a dying parent's slot equals the predicate under which ProcessSecondaries "
    "initialises a secondary in place (compared by truth table).")
NOT_DECIDED = "index arithmetic of the scans/partitions, counter values, termination"

TECHNIQUE = ("ownership and effect-set analysis over the call graph; typestate of status setters by enumerator argument and action order; truth table of LocateAlive's slot decision and boolean-domain interpretation (lib/boolinterp.py) of ProcessSecondariesExecutor over parent status x track order x sequences of surviving/cleared secondaries; guard dominance of the capacity validation")

UNITS = [
    "src/celeritas/track/ExtendFromPrimariesAction.cc",
    "src/celeritas/track/ExtendFromSecondariesAction.cc",
    "src/celeritas/track/InitializeTracksAction.cc",
    "src/celeritas/track/TrackInitParams.cc",
    "src/celeritas/track/SortTracksAction.cc",
    "src/celeritas/track/detail/TrackInitAlgorithms.cc",
    "src/celeritas/global/Stepper.cc",
    "src/celeritas/global/CoreState.cc",
    "src/celeritas/global/CoreTrackData.cc",
    "src/celeritas/phys/detail/PreStepAction.cc",
    "src/celeritas/phys/detail/DiscreteSelectAction.cc",
    "src/celeritas/phys/detail/TrackingCutAction.cc",
    "src/celeritas/geo/detail/BoundaryAction.cc",
    "src/celeritas/global/alongstep/AlongStepUniformMscAction.cc",
    "src/celeritas/global/alongstep/AlongStepNeutralAction.cc",
    "src/celeritas/em/model/KleinNishinaModel.cc",
    "src/celeritas/user/detail/StepGatherAction.cc",
    "src/celeritas/user/ActionDiagnostic.cc",
    "src/celeritas/user/StepDiagnostic.cc",
]

TIS = C + "TrackInitStateData::"
CNT = C + "CoreStateCounters::"
D = C + "detail::"
STATUS = C + "SimTrackView::status"



def inplace_agreement(db, cx, rule="C02.5-inplace-agreement"):
    """LocateAlive's slot decision agrees with what ProcessSecondaries carries out (shared with C01:
    a surviving secondary that is neither initialised in place nor queued vanishes with its energy)."""
    # 5 ------------------------------------------------- in-place predicate agreement
    la = None
    for n in db.find(r"^celeritas::detail::LocateAliveExecutor::operator\(\)::\(lambda"):
        for f in db.get(n):
            la = f
    cx.require(la is not None, "LocateAliveExecutor's slot-decision lambda not found")
    ps = db.get(D + "ProcessSecondariesExecutor::operator()")
    ps = [f for f in ps if f.has_call(C + "SimTrackView::operator=")]
    cx.require(ps, "ProcessSecondariesExecutor body not found")
    ps = ps[0]

    def atom(c, env):
        """truth of the core condition under env{A,B,S,I} or None"""
        if c.get("renum", "").endswith("TrackStatus::alive") and C + "SimTrackView::status" in c.get("lcalls", []):
            return env["A"] if c["op"] == "==" else (not env["A"]) if c["op"] == "!=" else None
        if c.get("renum", "").endswith("TrackOrder::init_charge"):
            return env["B"] if c["op"] == "==" else (not env["B"]) if c["op"] == "!=" else None
        if c.get("op") == ">" and c.get("lrefs") == [svar] and c.get("rlit") == "0":
            return env["S"]
        if ivar is not None and (c.get("core") == ivar or c.get("var") == ivar):
            return not env["I"]
        if c.get("op") in ("&&", "||"):
            return "skip"
        return None

    def decide(f, start, targets, env):
        def truth(c):
            t = atom(c, env)
            if t == "skip":
                return None
            return t
        return follow(f, start, truth, targets)

    # LocateAlive: block that decrements num_secondaries = "keep slot for first secondary"
    la_decs = [(b, ev.get("var")) for (b, i, ev) in la.events("def") if ev.get("op") == "--"]
    cx.require(len(la_decs) == 1, "LocateAlive lambda: expected exactly one decrement of the "
               "secondary counter")
    la_dec = [la_decs[0][0]]
    svar = la_decs[0][1]          # the per-track secondary counter (whatever it is called)
    # LocateAlive: keep(A, B, S) by walking its CFG under the truth assignment
    def la_keep(A, B, S):
        env = {"A": A, "B": B, "S": S, "I": True}
        return decide(la, la.entry, set(la_dec), env) is not None
    ivar = None
    rows = []
    agree = True
    detail = ""
    try:
        for A, B in itertools.product([False, True], repeat=2):
            if la_keep(A, B, False):
                agree = False
                rows.append({"alive": A, "init_charge": B, "no_secondary_but_keeps_slot": True})
    except UnknownAtom as e:
        raise AnalysisBroken("LocateAlive's slot decision uses an atom outside {alive, init_charge, "
                             "has-secondary}: %s" % e)
    # ProcessSecondaries: A7 (lib/boolinterp.py) - the body is interpreted over its boolean locals,
    # the parent status, the track order and an abstract sequence of surviving / cleared
    # secondaries; effects: in-place initialisation, queued initializer, slot freed
    import boolinterp
    psa = [f for f in db.get(D + "ProcessSecondariesExecutor::operator()") if "ast" in f.r
           and f.has_call(C + "SimTrackView::operator=")]
    cx.require(psa, "ProcessSecondariesExecutor body (AST) not found")
    ast = psa[0].r["ast"]

    def enum_of(n):
        n = astutil.strip(n)
        return n.get("name") if n is not None and n["k"] == "DeclRefExpr" and "cval" in n else None

    def atom2(n, st):
        if n["k"] == "BinaryOperator" and n["op"] in ("==", "!="):
            l, r = astutil.strip(n["c"][0]), astutil.strip(n["c"][1])
            for x, y in ((l, r), (r, l)):
                en = enum_of(y)
                if en is None:
                    continue
                if x["k"] == "CXXMemberCallExpr" and x.get("callee") == C + "SimTrackView::status" \
                        and len(x["c"]) == 1:
                    v = st.data["status"] == en
                    return v if n["op"] == "==" else not v
                if x["k"] == "MemberExpr" and x.get("name") == "track_order" and en == "init_charge":
                    v = st.data["init_charge"]
                    return v if n["op"] == "==" else not v
        if n["k"] == "CXXMemberCallExpr" and n.get("callee", "").startswith(C + "Secondary::operator") \
                and "loopvar" in st.data:
            item = st.data["loopvar"][1]
            if isinstance(item, tuple):          # index loop: the object is a reference bound to seq[i]
                recv = astutil.strip(n["c"][0]["c"][0]) if n["c"] and n["c"][0]["c"] else None
                nm = recv.get("name") if recv is not None and recv["k"] == "DeclRefExpr" else None
                if nm in st.data.get("alias", {}):
                    return st.data["alias"][nm]
                if recv is not None and recv["k"] == "CXXOperatorCallExpr" and recv.get("oop") == "[]":
                    return elem_of(recv, st)
                return None
            return item
        if n["k"] == "BinaryOperator" and n["op"] in ("==", "!=", ">", "<") and "loopvar" in st.data \
                and isinstance(st.data["loopvar"][1], tuple):
            l, r = astutil.strip(n["c"][0]), astutil.strip(n["c"][1])
            ci = astutil.const_int(r)
            if l["k"] == "DeclRefExpr" and l["name"] == st.data["loopvar"][0] and ci is not None:
                i = st.data["loopvar"][1][1]
                return {"==": i == ci, "!=": i != ci, ">": i > ci, "<": i < ci}[n["op"]]
        return None

    def elem_of(n, st):
        """value of `seqvar[loopindex]`, else None"""
        base, idx = astutil.strip(n["c"][1]), astutil.strip(n["c"][2])
        if base["k"] == "DeclRefExpr" and base["name"] in st.data.get("seqvars", ()) \
                and idx["k"] == "DeclRefExpr" and "loopvar" in st.data and idx["name"] == st.data["loopvar"][0] \
                and isinstance(st.data["loopvar"][1], tuple):
            return st.data["loopvar"][1][2]
        return None

    def effect(n, st, decl=None):
        for x in astutil.walk(n):
            if x["k"] == "LambdaExpr":
                return
        if decl is not None:
            m = astutil.strip(n, also=("CXXConstructExpr",))
            if m is not None and m["k"] == "CXXMemberCallExpr" and m.get("callee", "").endswith("::secondaries"):
                st.data.setdefault("seqvars", set()).add(decl["name"])      # a copy of the span
                return
            if m is not None and m["k"] == "CXXOperatorCallExpr" and m.get("oop") == "[]":
                v = elem_of(m, st)
                if v is not None:
                    st.data.setdefault("alias", {})[decl["name"]] = v        # reference to seq[i]
                    return
        if n["k"] == "CXXOperatorCallExpr" and n.get("oop") == "=":
            cal = n.get("callee", "")
            if cal == C + "SimTrackView::operator=":
                st.effects.append("inplace")
                st.data["status"] = "initializing"
            elif cal == C + "TrackInitializer::operator=" and any(
                    y["k"] == "MemberExpr" and y.get("name") == "initializers" for y in astutil.walk(n["c"][1])):
                st.effects.append("queued")
        if n["k"] == "CXXMemberCallExpr" and n.get("callee") == C + "SimTrackView::status" and len(n["c"]) == 2:
            en = enum_of(n["c"][1])
            st.effects.append("status:%s" % en)
            st.data["status"] = en

    def sequence(rng, st):
        r = astutil.strip(rng)
        if r["k"] == "CXXMemberCallExpr" and r.get("callee", "").endswith("::secondaries"):
            return list(st.data["seq"])
        if r["k"] == "DeclRefExpr" and r["name"] in st.data.get("seqvars", ()):
            return list(st.data["seq"])
        if r["k"] == "CallExpr" and r.get("callee") == C + "range" and len(r["c"]) == 2:
            a = astutil.strip(r["c"][1], also=("CXXConstructExpr", "CXXStaticCastExpr"))
            if a["k"] == "CXXMemberCallExpr" and a.get("callee", "").endswith("::size") and a["c"] and a["c"][0]["c"]:
                obj = astutil.strip(a["c"][0]["c"][0])
                if (obj["k"] == "DeclRefExpr" and obj["name"] in st.data.get("seqvars", ())) or \
                        (obj["k"] == "CXXMemberCallExpr" and obj.get("callee", "").endswith("::secondaries")):
                    return [("idx", i, v) for i, v in enumerate(st.data["seq"])]
        return None
    nruns = 0
    try:
        for P in ("alive", "killed", "errored"):
            for B in (False, True):
                for n_ in range(0, 5):
                    for seq in itertools.product([True, False], repeat=n_):
                        def init(st, P=P, B=B, seq=seq):
                            st.data.update(status=P, init_charge=B, seq=seq)
                        finals = boolinterp.explore(ast, atom2, effect, sequence, init)
                        nruns += 1
                        outs = set((st.effects.count("inplace"), st.effects.count("queued"),
                                    st.effects.count("status:inactive")) for st in finals)
                        surv = sum(seq)
                        keep = la_keep(P == "alive", B, surv > 0)
                        want = (1 if keep else 0, surv - (1 if keep else 0),
                                1 if (P == "killed" and not keep) else 0)
                        if outs != {want}:
                            agree = False
                            if len(rows) < 6:
                                rows.append({"parent": P, "init_charge": B,
                                             "secondaries": ["survives" if x else "cleared" for x in seq],
                                             "LocateAlive_keeps_slot": keep,
                                             "expected (in place, queued, freed)": want,
                                             "ProcessSecondaries": sorted(outs)})
    except astutil.OutOfVocabulary as e:
        raise AnalysisBroken("ProcessSecondariesExecutor outside the vocabulary of the boolean "
                             "interpretation: %s" % e)
    cx.count("in-place agreement: (parent status, track order, secondary sequence) cases", nruns)
    if agree:
        rows.append({"cases": nruns, "all": "in place == LocateAlive keeps the slot; queued == survivors "
                                           "- in place; slot freed iff parent killed and nothing in place"})
    cx.sample({"in_place_truth_table": rows})
    cx.ob(rule, "LocateAlive keeps the slot <=> ProcessSecondaries initialises "
          "exactly one surviving secondary in place (all secondary sequences up to length 4)", agree,
          str(rows), short(la.loc),
          why="a mismatch either loses the first secondary (slot kept, nobody fills it) or puts "
              "two tracks in one slot / double-counts a secondary")


def inactive_scratch(db, cx):
    """C02.6 (seeded change c02e): the per-step secondaries span of an *inactive* slot is stale
    scratch (pre-step clears it only in debug builds): LocateAlive and ProcessSecondaries read
    `PhysicsStepView::secondaries()` only on the not-inactive edge of a status test."""
    n = 0
    for nm in (D + "LocateAliveExecutor::operator()", D + "ProcessSecondariesExecutor::operator()"):
        fs = [f for f in db.get(nm) if f.has_call(C + "PhysicsStepView::secondaries")]
        cx.require(fs, "anchor %s (reading the secondaries) not found" % nm.split("::")[-2])
        for f in fs:
            brs = f.branch_blocks(lambda c, _b: c.get("renum", "").endswith("TrackStatus::inactive")
                                  and c.get("op") in ("==", "!=")
                                  and C + "SimTrackView::status" in (c.get("lcalls", []) + c.get("rcalls", [])))
            # boolean locals that hold the comparison (`bool const has_track = status != inactive`)
            flags = {}
            for (_b, _i, d) in f.events("def"):
                if d.get("kind") == "decl" and "bool" in (d.get("ty") or "") \
                        and any(r.endswith("TrackStatus::inactive") for r in d.get("refs", [])) \
                        and C + "SimTrackView::status" in d.get("calls", []):
                    rhs = (d.get("rhs") or "")
                    if "&&" in rhs or "||" in rhs:
                        continue
                    negs = rhs.count("!")          # each `!` and the one inside `!=` flips the meaning
                    flags[d["var"]] = (negs % 2 == 1)         # True: the flag means "not inactive"
            fbrs = [(br, v) for v in flags for br in f.branch_blocks(
                lambda c, _b, v=v: c.get("core") == v or (c.get("refs") == [v] and not c.get("calls")))]
            for (b, i, e) in f.events("call"):
                if e["callee"] != C + "PhysicsStepView::secondaries":
                    continue
                ok = False
                for br in brs:
                    c = f.blocks[br]["cond"]
                    # the edge on which the status is NOT inactive
                    edge = f.cond_polarity_edge(br, c.get("op") == "!=")
                    if f.guarded_by_edge((b, i), br, edge):
                        ok = True
                for (br, v) in fbrs:
                    if f.guarded_by_edge((b, i), br, f.cond_polarity_edge(br, flags[v])):
                        ok = True
                n += 1
                cx.ob("C02.6-inactive-scratch", "%s reads the secondaries only for a slot that is not inactive"
                      % nm.split("::")[-2], ok, "%d status test(s) against inactive" % len(brs), short(e["loc"]),
                      why="an empty slot keeps the span of its last occupant (release builds do not clear "
                          "it); counting those secondaries marks the empty slot as occupied and queues "
                          "initializers that nobody writes: counters drift, the event never drains, "
                          "finished tracks are transported again")
    cx.floor("readers of the secondaries span in the extend-from-secondaries kernels", n, 2)

def run(db, cx):
    eff = effects.Effects(db)
    cx.floor("step actions found", len(eff.actions()), 8)

    # 1 ---------------------------------------------------------------- capacity
    shared.capacity_validation(db, cx, "C02.1-capacity")

    # 2 ------------------------------------------------------------ track-id source
    w = field_writers(db, TIS + "track_counters")
    cx.floor("writers of track_counters", len(w), 2)
    check_owners(cx, "C02.2-track-id", "track_counters", w,
                 {D + "make_track_id", C + "TrackInitParams::reset_track_ids", "^celeritas::resize$",
                  "^celeritas::TrackInitStateData::operator=$"},
                 "a second writer of the per-event counter can hand out duplicate track ids")
    for f in db.get(D + "make_track_id"):
        at = [ev for (_b, _i, ev) in f.calls(C + "atomic_add")
              if ev.get("args") and path_leaf(ev["args"][0].get("path")) == TIS + "track_counters"
              and ev["args"][0].get("mode") == "ptr"]
        rets = [ev for (_b, _i, ev) in f.events("return")]
        var = None
        for (_b, _i, ev) in f.events("def"):
            if C + "atomic_add" in ev.get("calls", []):
                var = ev.get("var")
        ok = len(at) == 1 and len(rets) == 1 and var in rets[0].get("refs", []) \
            and at[0]["args"][1].get("t", "").rstrip("}").rstrip(")").endswith("1")
        cx.ob("C02.2-track-id", "make_track_id returns the atomic fetch-add(1) of the event counter",
              ok, "atomic_add(&track_counters[event], %s) -> %s" %
              (at[0]["args"][1]["t"] if at else "?", rets[0].get("t") if rets else "?"),
              short(f.loc), why="a non-atomic or non-unit increment duplicates or skips ids")
    cx.require(db.get(D + "make_track_id"), "anchor make_track_id not found")
    wt = field_writers(db, C + "SimTrackInitializer::track_id")
    cx.floor("writers of SimTrackInitializer::track_id", len(wt), 2)
    for f, ev, how in wt:
        ok = D + "make_track_id" in ev.get("calls", [])
        cx.ob("C02.2-track-id", "initializer track_id <- make_track_id in %s" % f.name.split("::")[-2],
              ok, "rhs %s" % ev.get("rhs"), short(ev["loc"]),
              why="every new track must take its id from the per-event counter")
    w = field_writers(db, C + "SimStateData::track_ids")
    check_owners(cx, "C02.2-track-id", "SimStateData::track_ids", w,
                 {C + "SimTrackView::operator=", "^celeritas::resize$",
                  "^celeritas::SimStateData::operator=$"},
                 "a track's id may only be set when the slot is initialised")

    # 3 ----------------------------------------------------- ownership of init state
    own = {
        "vacancies": {D + "LocateAliveExecutor::operator()", "^celeritas::detail::remove_if_alive",
                      "^celeritas::detail::partition_initializers",
                      "^celeritas::resize$", C + "CoreState::reset",
                      "^celeritas::TrackInitStateData::operator=$",
                      "^celeritas::detail::LocateAliveExecutor::operator\\(\\)::\\(lambda"},
        "initializers": {D + "ProcessPrimariesExecutor::operator()",
                         D + "ProcessSecondariesExecutor::operator()", "^celeritas::resize$",
                         "^celeritas::detail::partition_initializers",
                         "^celeritas::TrackInitStateData::operator=$"},
        "parents": {D + "ProcessSecondariesExecutor::operator()",
                    C + "ExtendFromPrimariesAction::step_impl",
                    C + "InitializeTracksAction::step_impl",   # clears stale parents (null id)
                    "^celeritas::resize$",
                    "^celeritas::TrackInitStateData::operator=$"},
        "secondary_counts": {D + "LocateAliveExecutor::operator()",
                             "^celeritas::detail::exclusive_scan_counts", "^celeritas::resize$",
                             "^celeritas::TrackInitStateData::operator=$"},
        "indices": {"^celeritas::detail::partition_initializers", "^celeritas::resize$",
                    C + "InitializeTracksAction::step_impl",
                    "^celeritas::TrackInitStateData::operator=$"},
    }
    for fld, owners in own.items():
        w = field_writers(db, TIS + fld)
        cx.floor("writers of " + fld, len(w), 1)
        check_owners(cx, "C02.3-ownership", "TrackInitStateData::" + fld, w, owners,
                     "a writer outside the track-initialisation code can lose or duplicate a track")
    counter_owners = {
        C + "ExtendFromPrimariesAction::step_impl", C + "ExtendFromSecondariesAction::step_impl",
        C + "InitializeTracksAction::step_impl", C + "Stepper::operator()",
        C + "CoreState::CoreState", C + "CoreState::reset", C + "CoreState::insert_primaries",
        C + "Stepper::kill_active"}
    for fld in ("num_initializers", "num_vacancies", "num_active", "num_alive", "num_generated",
                "num_secondaries", "num_pending"):
        # the optical loop owns a separate CoreStateCounters instance inside optical::CoreState
        w = field_writers(db, CNT + fld, skip_path=lambda p: any("celeritas::optical::" in x
                                                              for x in p.get("chain", [])))
        if not w:
            continue
        check_owners(cx, "C02.3-ownership", "CoreStateCounters::" + fld, w, counter_owners,
                     "the reported counters must be maintained only by the initialisation actions")
    # by action order: anything that reaches the initialisation executors
    effects.check_orders(
        cx, db, eff, "C02.3-orders", "track-initialisation executors",
        [D + "LocateAliveExecutor::operator()", D + "ProcessSecondariesExecutor::operator()",
         D + "ProcessPrimariesExecutor::operator()", D + "InitTracksExecutor::operator()"],
        {"generate", "start", "end"},
        "only generate/start/end actions may create tracks or recycle slots")

    # 2b ----------------------------- a secondary is born exactly where/when/as it was emitted
    want = {
        "ParticleTrackInitializer::energy": ("F", C + "Secondary::energy"),
        "ParticleTrackInitializer::particle_id": ("F", C + "Secondary::particle_id"),
        "GeoTrackInitializer::dir": ("F", C + "Secondary::direction"),
        "GeoTrackInitializer::pos": ("C", C + "OrangeTrackView::pos"),
        "SimTrackInitializer::time": ("C", C + "SimTrackView::time"),
        "SimTrackInitializer::event_id": ("C", C + "SimTrackView::event_id"),
    }
    psx = [f for f in db.get(D + "ProcessSecondariesExecutor::operator()")
           if f.has_call(C + "SimTrackView::operator=")]
    cx.require(psx, "ProcessSecondariesExecutor body not found")
    for f in psx:
        for fld, (kind, src) in sorted(want.items()):
            ws = [e for (_b, _i, e) in f.events("write") if path_leaf(e.get("path")) == C + fld]
            ok = len(ws) == 1
            if ok:
                e = ws[0]
                if kind == "F":
                    ok = "F:" + src in e.get("refs", []) and not [c_ for c_ in e.get("calls", [])
                                                                 if not c_.endswith("operator=")] \
                        and not any(ch in e.get("rhs", "").replace("->", ".") for ch in "+-*/")
                else:
                    calls = [c_ for c_ in e.get("calls", []) if not c_.endswith("operator=")]
                    ok = calls == [src] and not any(ch in e.get("rhs", "").replace("->", ".") for ch in "+-*/")
            cx.ob("C02.2-secondary-handoff", "initializer %s is exactly the %s" % (
                fld.split("::")[-1], src.split("::", 1)[1]), ok,
                "%s" % [e.get("rhs") for e in ws], short(f.loc),
                why="each secondary must become a track with the energy, type, direction, position, "
                    "time and event it was emitted with (per-track energy balance and step "
                    "continuity start from these values)")
        pw = [e for (_b, _i, e) in f.events("write") if path_leaf(e.get("path")) == C + "SimTrackInitializer::parent_id"]
        okp = len(pw) == 1
        if okp:
            v = local_refs(pw[0].get("refs", []))
            okp = len(v) == 1 and all(C + "SimTrackView::track_id" in d_[2].get("calls", [])
                                      for d_ in f.reaching_defs(next(iter(v)), (f.entry, 0)) or [(0, 0, {"calls": []})])
            defs = [e for (_b, _i, e) in f.events("def") if e.get("var") in v]
            okp = len(v) == 1 and bool(defs) and all(C + "SimTrackView::track_id" in e.get("calls", []) for e in defs)
        cx.ob("C02.2-secondary-handoff", "initializer parent_id is the emitting track's id", okp,
              "%s" % [e.get("rhs") for e in pw], short(f.loc),
              why="every secondary must have an existing parent")

    # 2c ------------- the secondaries span is per-step scratch: cleared for every occupied slot
    # (a span that survives into the next step is turned into tracks a second time)
    shared.prestep_scratch_reset(db, cx, "C02.2-secondaries-reset", meths=("secondaries",),
                                 step_limit=False)

    # 2d ------ the two kernels of ExtendFromSecondaries are one transaction: LocateAlive decides
    # which slots are kept for a first secondary, ProcessSecondaries carries the decision out
    for f in db.get(C + "ExtendFromSecondariesAction::step_impl"):
        tag = f.inst.split("<")[-1][:30]
        loc_ = [(b, i) for (b, i, ev) in f.calls(C + "ExtendFromSecondariesAction::locate_alive")]
        cx.require(loc_, "step_impl no longer calls locate_alive")
        okp, path = f.must_pass(lambda ev: ev["e"] == "call" and
                                ev["callee"] == C + "ExtendFromSecondariesAction::process_secondaries",
                                start=loc_[0])
        cx.ob("C02.2-kernels-paired", "ExtendFromSecondaries: every path after locate_alive launches "
              "process_secondaries [%s]" % tag, okp, "must-pass on all normal exits", short(f.loc),
              path=f.path_locs(path),
              why="LocateAlive already counted a dying parent's first secondary as 'stays in the slot': "
                  "if ProcessSecondaries does not run, that secondary never becomes a track and the "
                  "killed parent stays in the slot")

    # 3b ----------------------------------- index array re-sequenced before every partition
    n_part = 0
    for f in db.get(C + "InitializeTracksAction::step_impl"):
        parts = [(b, i, ev) for (b, i, ev) in f.events("call")
                 if ev["callee"].endswith("::partition_initializers")]
        for (b, i, ev) in parts:
            n_part += 1
            seqs = [(b2, i2) for (b2, i2, e2) in f.events("call")
                    if e2["callee"].endswith("fill_sequence") and e2.get("args")
                    and path_leaf(e2["args"][0].get("path")) == TIS + "indices"]
            ok = any(f.dominates(p, (b, i)) for p in seqs)
            # ... and nothing else writes the array in between (same block order)
            cx.ob("C02.3-indices-resequenced", "partition_initializers is preceded by "
                  "fill_sequence(indices) [%s]" % f.inst.split("<")[-1][:22], ok,
                  "%d fill_sequence call(s) on init.indices in the function" % len(seqs),
                  short(ev["loc"]),
                  why="the partition permutes the index array in place; starting from the previous "
                      "step's permutation makes InitTracksExecutor pick stale or out-of-range "
                      "initializers: tracks are duplicated and new ones are dropped")
    cx.floor("partition_initializers call sites", n_part, 1)

    shared.primaries_handoff(db, cx, "C02.1-primaries-handoff")

    # 4 ------------------------------------------------------------ status typestate
    shared.status_typestate(db, cx, "C02.4", eff)

    inplace_agreement(db, cx)
    inactive_scratch(db, cx)
