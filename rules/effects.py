"""W3: per-step-action effect sets through the instantiation-level call graph."""
from common import C

# order for classes whose order() is not a single constant
ORDER_OVERRIDE = {
    C + "detail::StepGatherAction": "user",      # user_pre / user_post by template arg
    C + "SortTracksAction": "sort",              # sort_* chosen at construction
}


# classes with a step(CoreParams, CoreState) method that only dispatch to actions
DISPATCHERS = {C + "ActionSequence"}


def class_order(db, cls, seen=None):
    if cls in ORDER_OVERRIDE:
        return ORDER_OVERRIDE[cls]
    seen = seen or set()
    if cls in seen:
        return None
    seen.add(cls)
    enums = set()
    for f in db.get(cls + "::order"):
        for _b, _i, ev in f.events("return"):
            if ev.get("enum"):
                enums.add(ev["enum"].split("::")[-1])
    if len(enums) == 1:
        return enums.pop()
    if len(enums) > 1:
        return "|".join(sorted(enums))
    rec = db.records.get(cls)
    if rec:
        for b in rec.get("bases", []):
            o = class_order(db, b, seen)
            if o:
                return o
    return None


def step_roots(db):
    """[(cls, order, Func)] for every step(CoreParams const&, CoreState<M>&)."""
    out = []
    for n in list(db.funcs):
        if not n.endswith("::step"):
            continue
        for f in db.get(n):
            ps = f.r.get("params", [])
            if len(ps) != 2:
                continue
            if "CoreParams" not in ps[0]["ty"] or "CoreState" not in ps[1]["ty"]:
                continue
            if "optical" in ps[0]["ty"] or "optical" in ps[1]["ty"]:
                continue
            cls = f.r.get("cls")
            if not cls or cls in DISPATCHERS:
                continue
            out.append((cls, class_order(db, cls), f))
    return out


class Effects:
    """Reachability of every core step action.  The optical sub-loop (namespace
    celeritas::optical) owns a separate optical::CoreState: its functions cannot reach the
    core track state, so the traversal does not enter them (stated as an assumption)."""

    def __init__(self, db, skip_optical=True):
        self.db = db
        self.roots = step_roots(db)
        self.reach = {}   # (cls, inst) -> (set(nodes), parent map)
        stop = ()
        if skip_optical:
            db.callgraph()
            stop = set(n for n in db.by_inst if n.startswith("celeritas::optical::"))
        for cls, order, f in self.roots:
            nodes = db.reachable_from([f.node], stop=stop)
            self.reach[(cls, f.node)] = (nodes, dict(db._last_parent), order)

    def actions(self):
        return sorted(set((c, o) for c, o, _f in self.roots))

    def who_reaches(self, pattern_names, pred=None):
        """{(cls, order): [(target node, chain)]} for every action whose step
        body transitively calls one of the given pattern names."""
        db = self.db
        db.callgraph()
        targets = set()
        for p in pattern_names:
            for r in db.funcs.get(p, ()):
                if pred is None or pred(r):
                    targets.add(db.node_of(r))
        out = {}
        for (cls, inst), (nodes, parent, order) in self.reach.items():
            hit = nodes & targets
            for t in sorted(hit):
                chain = []
                cur = t
                g = 0
                while cur is not None and g < 100:
                    chain.append(cur)
                    cur = parent.get(cur)
                    g += 1
                out.setdefault((cls, order), []).append((t, list(reversed(chain))))
        return out


def check_orders(cx, db, eff, rule, what, mutators, allowed_orders, why,
                 allowed_classes=(), pred=None):
    """Obligation per action class: it reaches `mutators` only if its order is
    allowed (or the class itself is listed)."""
    hits = eff.who_reaches(mutators, pred)
    n = 0
    for (cls, order), lst in sorted(hits.items(), key=lambda kv: str(kv[0])):
        ok = (order in allowed_orders) or (cls in allowed_classes)
        t, chain = lst[0]
        short_chain = [c.split("(")[0][-70:] for c in chain]
        cx.ob(rule, "%s reaches %s (order %s)" % (cls, what, order), ok,
              detail="call chain: " + " -> ".join(short_chain[:12]),
              where=cls, path=chain[:14], why=why)
        n += 1
    return n
