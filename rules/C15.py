"""C15 - random samplers: only the clauses whose truth is in the shape of the code are decided.

  C15.1-selector-index   every index returned by Selector is in [0, size)
  C15.2-unit-vector      IsotropicDistribution / from_spherical / make_unit_vector return vectors
                         whose squared norm is identically 1 (exact polynomial identity modulo
                         s^2 = 1 - c^2 and cos^2 + sin^2 = 1)
  C15.3-box-components   component i of UniformBoxDistribution is lower[i] + (upper[i]-lower[i]) u_i
  C15.4-draws            a loop that consumes random numbers is a counted loop or a rejection loop
                         whose exit is decided by draws made in the same iteration; loop-free
                         samplers have a finite maximum number of draws

The distributional agreement and every numeric threshold are NOT decided."""
import json
import os
import re
from fractions import Fraction

from astutil import strip, OutOfVocabulary, show
from cfg import path_leaf
from common import local_refs  # noqa
from common import C, short
from facts import AnalysisBroken
from polyinterp import Poly, Interp, Return, as_poly

LEVEL_TEXT = (
    "Static shape rules on the samplers named by the property's anchor files. Selector: CFG rule - "
    "every returned index is the dereferenced loop iterator on the `iter != last_` edge (or `*last_`), "
    "last_ = size - 1 by construction. Unit vectors: exact polynomial interpretation (lib/polyinterp.py "
    "extended with sqrt/sin/cos symbols and member samplers) of IsotropicDistribution -> "
    "UniformRealDistribution -> from_spherical and of make_unit_vector -> norm: x^2+y^2+z^2-1 reduces "
    "to the zero polynomial modulo s^2 = 1-c^2, cos^2+sin^2 = 1, and every sqrt argument is "
    "non-negative over the whole range of the canonical draws. UniformBoxDistribution: component i is "
    "lower[i] + (upper[i]-lower[i]) * u_i with three distinct canonical draws. Random-draw "
    "consumption: every loop that draws is a counted loop (trip count fixed at loop entry) or a "
    "rejection loop whose continuation condition depends on values drawn in the same iteration and on "
    "no stale draw; samplers without a drawing loop have a finite maximum number of draws (recorded). "
    "Distributional agreement, thresholds, floating-point behaviour and the expected number of "
    "rejection iterations are NOT decided.")
EXPLANATION = LEVEL_TEXT
NOT_DECIDED = (
    "agreement of the empirical distribution with the analytic density/mass function (all samplers); "
    "every numeric threshold and branch (Poisson/normal switch-over at lambda = 64, the gamma alpha < 1 "
    "branch, the Marsaglia-Tsang squeeze constants, Urban-model thresholds); floating-point support at "
    "extreme parameters (rounding of a + (b-a)u to b, log(0), sqrt of a rounding-negative argument, "
    "division by a zero norm in make_unit_vector, overflow); the expected number of iterations of "
    "rejection loops and their termination (assumed: probability one); the value of Poisson-distributed "
    "trip counts; callers of from_spherical other than IsotropicDistribution (|costheta| <= 1 there is a "
    "debug assertion only, see C04.9 / C20.4); Selector: that `total` equals the sum of the weights and "
    "that it is built with size >= 1 (debug assertions only)")
TECHNIQUE = (
    "CFG edge-guard / definition rules on every Selector instantiation; exact polynomial abstract "
    "interpretation (A6 + quadratic relations for sqrt, sin, cos; nested interpretation of member "
    "samplers and their constructors) for the unit-vector and box identities with interval discharge "
    "of the sqrt side conditions over the canonical draws; natural-loop classification (counted / "
    "rejection with data- and control-dependence closure and stale-draw detection) and longest-path "
    "draw counting over the call graph of the samplers")

UNITS = [
    "src/celeritas/em/model/RayleighModel.cc",
    "src/celeritas/phys/detail/DiscreteSelectAction.cc",
    "src/celeritas/optical/detail/ScintGeneratorAction.cc",
    "src/celeritas/phys/PrimaryGeneratorOptions.cc",
]
WHOLE_PROGRAM_THOROUGH = False
WITNESS = {"witness/c15_samplers.cc": "src/celeritas/random/XorwowRngParams.cc"}

VERIF = os.path.dirname(os.path.dirname(os.path.abspath(__file__)))
# anchor files that define no sampler taking an engine
NO_SAMPLER_FILES = ("src/celeritas/em/distribution/EnergyLossHelper.hh", "src/corecel/math/ArrayUtils.hh")


def anchor_files():
    with open(os.path.join(VERIF, "properties.jsonl")) as fh:
        for line in fh:
            line = line.strip()
            if line:
                d = json.loads(line)
                if d.get("id") == "C15":
                    return list(d["anchors"]["files"])
    raise AnalysisBroken("property C15 not found in properties.jsonl")


def file_of(loc):
    return loc.split(":")[0]


def engine_of(inst):
    """short name of the engine an operator()<Engine> instantiation was made for"""
    m = re.search(r"<((?:[^<>]|<[^<>]*>)*)>$", inst)
    s = m.group(1) if m else ""
    s = s.split("<")[0].split("::")[-1]
    return s or "-"


def cls_of(f):
    """class instantiation prefix of a member function instantiation"""
    name_tail = f.name.rsplit("::", 1)[1]
    s = f.inst
    k = s.rfind("::" + name_tail)
    return s[:k] if k >= 0 else s


def top_level_args(s):
    """template arguments of the outermost <...> at the end of a class instantiation name"""
    if not s.endswith(">"):
        return []
    depth = 0
    start = None
    for i in range(len(s) - 1, -1, -1):
        ch = s[i]
        if ch in ">)":
            depth += 1
        elif ch in "<(":
            depth -= 1
            if depth == 0:
                start = i
                break
    if start is None:
        return []
    inner = s[start + 1:-1]
    out, depth, cur = [], 0, ""
    for ch in inner:
        if ch in "<(":
            depth += 1
        elif ch in ">)":
            depth -= 1
        if ch == "," and depth == 0:
            out.append(cur.strip())
            cur = ""
        else:
            cur += ch
    out.append(cur.strip())
    return out


# =====================================================================================
# C15.1  Selector
# =====================================================================================
SEL = C + "Selector"
RIT = C + "detail::range_iter::"
LAST = SEL + "::last_"


def _is_last_path(p):
    return bool(p) and p.get("root") == "this" and p.get("chain") == ["f:" + LAST]


def _deref_recv(f, b, i, ev_like):
    """ev_like (a return or def) whose value is `*X`: the access path of X, else None"""
    calls = ev_like.get("calls", [])
    if calls != [RIT + "operator*"]:
        return None
    evs = f.blocks[b]["ev"]
    for k in range(i - 1, -1, -1):
        e = evs[k]
        if e["e"] == "call" and e["callee"] == RIT + "operator*":
            return (e.get("recv") or {}).get("path")
    return None


def _value_sites(f, b, i, ev, depth=0):
    """[(pos, path of X)] such that the value returned at (b, i) is `*X` evaluated at pos; None if
    the shape is not recognised."""
    p = _deref_recv(f, b, i, ev)
    if p is not None:
        return [((b, i), p)]
    if not ev.get("calls") and depth < 3:
        names = [r for r in ev.get("refs", []) if not r.startswith(("F:", "E:")) and r != "this"]
        if len(names) == 1:
            out = []
            for (b2, i2, d) in f.reaching_defs(names[0], (b, i)):
                sub = _value_sites(f, b2, i2, d, depth + 1) if d["e"] == "def" else None
                if sub is None:
                    return None
                out.extend(sub)
            return out or None
    return None


def _iter_defs(f, v):
    return [(b, i, e) for (b, i, e) in f.events("def") if e.get("var") == v]


def selector_site_ok(f, pos, path):
    """is X (dereferenced at pos) in [0, last_] there?"""
    if _is_last_path(path):
        return True, "*last_"
    if not path or not path.get("root", "").startswith("l:") or path.get("chain"):
        return False, "dereferences `%s`, neither the loop iterator nor last_" % json.dumps(path)
    v = path["root"][2:]
    defs = _iter_defs(f, v)
    decl = [(b, i, e) for (b, i, e) in defs if e.get("kind") == "decl"]
    incs = [(b, i, e) for (b, i, e) in defs if e.get("kind") != "decl"]
    # starts at IterT{}
    ok_start = len(decl) == 1
    if ok_start:
        b0, i0, e0 = decl[0]
        ctor = [e for e in f.blocks[b0]["ev"][:i0] if e["e"] == "call" and e["callee"] == RIT + "range_iter"
                and e.get("loc") == e0.get("loc")]
        ok_start = e0.get("calls") == [RIT + "range_iter"] and not e0.get("refs") and bool(ctor) \
            and ctor[-1].get("sig") == "()"
    if not ok_start:
        return False, "iterator `%s` does not start at IterT{}" % v
    if any(e.get("op") != "++" for (_b, _i, e) in incs):
        return False, "iterator `%s` is modified by something other than ++: %s" % (
            v, [e.get("op") for (_b, _i, e) in incs])
    # the comparison with last_
    def is_cmp(c, _b):
        refs = set(c.get("refs", []))
        return v in refs and "F:" + LAST in refs and c.get("op") in ("!=", "==") and \
            set(c.get("calls", [])) <= {RIT + "operator!=", RIT + "operator=="} and \
            set(r for r in refs if r != "this") == {v, "F:" + LAST}
    brs = f.branch_blocks(is_cmp)
    if not brs:
        return False, "no `%s != last_` test found" % v
    why = []
    for br in brs:
        c = f.blocks[br]["cond"]
        ne = f.cond_polarity_edge(br, c["op"] == "!=")
        eq = 1 - ne
        for edge, what in ((ne, "!="), (eq, "==")):
            succ = f.blocks[br]["succ"]
            if edge >= len(succ) or succ[edge] is None:
                continue
            if not f.guarded_by_edge(pos, br, edge):
                continue
            # no ++ between the edge and the site
            region = f.reach([succ[edge]], blocked_blocks=[br])
            stale = False
            for (b2, i2, e2) in incs:
                if b2 not in region:
                    continue
                if (b2 == pos[0] and i2 < pos[1]) or (pos[0] in f.reach(f.succ(b2), blocked_blocks=[br])):
                    stale = True
            if stale:
                why.append("`%s` is incremented between the test and the dereference" % v)
                continue
            if what == "==":
                return True, "*%s on the `%s == last_` edge" % (v, v)
            # invariant v <= last_: every ++ is on the != edge and is followed by the test before
            # the next ++
            inv = True
            for (b2, i2, e2) in incs:
                if not f.guarded_by_edge((b2, i2), br, ne):
                    inv = False
                    why.append("a ++%s is not guarded by `%s != last_`" % (v, v))
                after = f.reach(f.succ(b2), blocked_blocks=[br])
                for (b3, i3, e3) in incs:
                    if (b3 in after) or (b3 == b2 and i3 > i2):
                        inv = False
                        why.append("two increments of `%s` without the test in between" % v)
            if inv:
                return True, "*%s on the `%s != last_` edge of a loop from IterT{} stepping by one" % (v, v)
    return False, "; ".join(sorted(set(why))) or "the dereference of `%s` is not guarded by the comparison with last_" % v


def selector_rules(db, cx):
    ops = [f for f in db.get(SEL + "::operator()")]
    ctors = {cls_of(f): f for f in db.get(SEL + "::Selector")}
    cx.require(ops, "anchor celeritas::Selector::operator() not found (no instantiation in the parsed units)")
    cx.floor("Selector::operator() instantiations", len(ops), 4)
    methods = {}
    for n_ in db.find("^" + re.escape(SEL) + "::"):
        for g in db.get(n_):
            methods.setdefault(cls_of(g), []).append(g)
    for f in ops:
        cls = cls_of(f)
        tag = _sel_tag(cls)
        rets = sorted([(b, i, e) for (b, i, e) in f.events("return")], key=lambda t: _lockey(t[2].get("loc", "")))
        cx.require(rets, "Selector::operator() without a return: %s" % f.inst)
        for n_r, (b, i, e) in enumerate(rets):
            sites = _value_sites(f, b, i, e)
            if sites is None:
                ok, d = False, "returns `%s`: not a dereferenced iterator" % e.get("t")
            else:
                res = [selector_site_ok(f, pos, p) for pos, p in sites]
                ok = all(r[0] for r in res)
                d = "; ".join(r[1] for r in res)
            cx.ob("C15.1-selector-index", "Selector<%s>: return #%d yields an index in [0, size)"
                  % (tag, n_r + 1), ok, "returns `%s`: %s" % (e.get("t", "").strip(), d), short(e["loc"]),
                  why="the returned value is used unchecked as an element / process / component "
                      "index: `size` or beyond reads past the table")
        # last_ == size - 1
        g = ctors.get(cls)
        cx.require(g is not None, "constructor of %s not found" % cls)
        targs = top_level_args(cls)
        T = targs[-1] if targs else ""
        ws = [(b, i, e) for (b, i, e) in g.events("write") if path_leaf(e.get("path")) == LAST]
        inits = [(b, i, e) for (b, i, e) in ws if e.get("kind") == "ctorinit"]
        decs = [(b, i, e) for (b, i, e) in ws if e.get("op") == "--"]
        other = [(b, i, e) for (b, i, e) in ws if e.get("kind") != "ctorinit" and e.get("op") != "--"]
        problems = []
        src = None
        if len(inits) == 1:
            b0, i0, e0 = inits[0]
            for e in reversed(g.blocks[b0]["ev"][:i0]):
                if e["e"] == "call" and e["callee"] == RIT + "range_iter" and e.get("loc") == e0.get("loc"):
                    a = e.get("args", [])
                    if len(a) == 1 and (a[0].get("path") or {}).get("root", "").startswith("p:") \
                            and not (a[0].get("path") or {}).get("chain") and not a[0].get("calls"):
                        src = a[0]["path"]["root"][2:]
                    break
        prm = {p_["n"]: p_ for p_ in g.r["params"]}
        if src is None or src not in prm:
            problems.append("last_ is not initialised from a constructor parameter (`%s`)"
                            % (inits[0][2].get("rhs") if inits else "no initialiser"))
        elif not (prm[src].get("ty", "").endswith("::value_type")
                  or T in (prm[src].get("cty", ""), prm[src].get("ty", ""))):
            problems.append("last_ is initialised from `%s` of type %s, not the size (type %s)"
                            % (src, prm[src].get("cty"), T))
        if len(decs) != 1:
            problems.append("%d decrement(s) of last_ in the constructor, expected exactly one" % len(decs))
        else:
            okp, p_ = g.must_pass(lambda e: e["e"] == "write" and e.get("op") == "--"
                                  and path_leaf(e.get("path")) == LAST)
            if not okp:
                problems.append("a path through the constructor skips --last_")
            from cfg import loops_of
            if any(decs[0][0] in body for (_h, body) in loops_of(g)):
                problems.append("--last_ is inside a loop")
        for (_b, _i, e) in other:
            problems.append("last_ is also written by `%s %s %s`" % (e.get("lhs"), e.get("op"), e.get("rhs")))
        # nobody else writes last_
        for m_ in methods.get(cls, []):
            if m_ is g:
                continue
            for (_b, _i, e) in m_.events("write"):
                if path_leaf(e.get("path")) == LAST:
                    problems.append("%s writes last_" % m_.name.split("::")[-1])
            for (_b, _i, e) in m_.events("call"):
                rp = (e.get("recv") or {}).get("path")
                if _is_last_path(rp) and e.get("constm") is False:
                    problems.append("%s calls the mutating %s on last_" % (m_.name.split("::")[-1],
                                                                           e["callee"].split("::")[-1]))
                for a in e.get("args", []):
                    if _is_last_path(a.get("path")) and a.get("mode") in ("ref", "ptr"):
                        problems.append("%s hands last_ out by non-const reference" % m_.name.split("::")[-1])
        cx.ob("C15.1-selector-index", "Selector<%s>: last_ == size - 1 (initialised from the size, "
              "decremented exactly once, written nowhere else)" % tag, not problems,
              "; ".join(problems) or "last_{%s}; one --last_ on every path" % src, short(g.loc),
              why="the fall-through return is *last_ and the loop stops at last_: with last_ == size "
                  "the selector returns the one-past-the-end index")


def _lockey(loc):
    p_ = loc.split(":")
    try:
        return (p_[0], int(p_[1]), int(p_[2]))
    except (IndexError, ValueError):
        return (loc, 0, 0)


def _sel_tag(cls):
    a = top_level_args(cls)
    if not a:
        return cls
    m = re.search(r"lambda at ([^)]*)\)", a[0])
    fn = a[0]
    if m:
        parts = m.group(1).split("/")
        fn = "lambda@" + parts[-1]
    return "%s, %s" % (fn, a[-1].split("::")[-1].rstrip(">"))


# =====================================================================================
# symbolic interpretation of samplers (A6 extended)
# =====================================================================================
class World(object):
    """Shared state of one symbolic evaluation: canonical draws, sqrt / trig symbols and their
    quadratic relations, side conditions."""

    def __init__(self, db, engine=""):
        self.db = db
        self.engine = engine
        self.draws = []            # symbol names, each in [0, 1)
        self.sq = {}               # symbol -> polynomial equal to symbol^2
        self.sqrt_args = {}        # repr(arg) -> (symbol, arg, where)
        self.trig = {}             # repr(arg) -> (cos symbol, sin symbol)
        self.calls = []            # (callee, args, result) of nested library functions
        self.den = {}              # symbol -> polynomial (a sum) that was divided by
        self.den_keys = {}
        self.depth = 0
        self.funcs = {
            C + "generate_canonical": self.canonical,
            "fma": self.fma, "std::fma": self.fma, C + "fma": self.fma,
            "sqrt": self.sqrt, "std::sqrt": self.sqrt,
            "cos": lambda a, n: self.cossin(a, n, 0), "std::cos": lambda a, n: self.cossin(a, n, 0),
            "sin": lambda a, n: self.cossin(a, n, 1), "std::sin": lambda a, n: self.cossin(a, n, 1),
            C + "from_spherical": lambda a, n: self.nested(C + "from_spherical", a, n),
            C + "norm": lambda a, n: self.nested(C + "norm", a, n),
            C + "make_unit_vector": lambda a, n: self.nested(C + "make_unit_vector", a, n),
        }

    # ---- primitives
    def canonical(self, args, n):
        s = "u%d" % len(self.draws)
        self.draws.append(s)
        return Poly.sym(s)

    def denominator(self, p):
        """a symbol standing for the sum p in a division (Laurent monomials stay exact); it is
        expanded again after the denominators have been cleared"""
        key = repr(p)
        if key not in self.den_keys:
            sname = "den%d" % len(self.den)
            self.den_keys[key] = sname
            self.den[sname] = p
        return Poly.sym(self.den_keys[key])

    def subst(self, p, sym, q):
        out = Poly()
        for mon, c in p.t.items():
            d = dict(mon)
            k = d.pop(sym, 0)
            if k < 0:
                raise OutOfVocabulary("negative power of %s left after clearing denominators" % sym)
            term = Poly({tuple(sorted(d.items())): c})
            for _ in range(k):
                term = term * q
            out = out + term
        return out

    def fma(self, args, n):
        if len(args) != 3:
            raise OutOfVocabulary("fma with %d arguments" % len(args))
        return as_poly(args[0]) * as_poly(args[1]) + as_poly(args[2])

    def sqrt(self, args, n):
        if len(args) != 1:
            raise OutOfVocabulary("sqrt with %d arguments" % len(args))
        a = as_poly(args[0])
        key = repr(a)
        if key not in self.sqrt_args:
            s = "sqrt%d" % len(self.sqrt_args)
            self.sqrt_args[key] = (s, a, n.get("loc", ""))
            self.sq[s] = a
        return Poly.sym(self.sqrt_args[key][0])

    def cossin(self, args, n, which):
        if len(args) != 1:
            raise OutOfVocabulary("trigonometric call with %d arguments" % len(args))
        key = repr(as_poly(args[0]))
        if key not in self.trig:
            k = len(self.trig)
            self.trig[key] = ("cos%d" % k, "sin%d" % k)
            self.sq["sin%d" % k] = Poly.const(1) - Poly.sym("cos%d" % k) * Poly.sym("cos%d" % k)
        return Poly.sym(self.trig[key][which])

    # ---- nested interpretation of repository functions / samplers
    def pick(self, name, pred=None):
        fs = [f for f in self.db.get(name) if "ast" in f.r and (pred is None or pred(f))]
        if not fs:
            raise OutOfVocabulary("no analysed body (AST) of %s" % name)
        same = [f for f in fs if self.engine and f.inst.endswith("<%s>" % self.engine)]
        return (same or fs)[0]

    def nested(self, name, args, n):
        f = self.pick(name, lambda f: len(f.r["params"]) == len(args))
        env = {}
        for p_, a in zip(f.r["params"], args):
            env[p_["n"]] = list(a) if isinstance(a, list) else a
        v = self.run_body(f, env, {})
        self.calls.append((name, args, v))
        return v

    def run_body(self, f, env, members):
        self.depth += 1
        if self.depth > 12:
            raise OutOfVocabulary("nested interpretation deeper than 12")
        it = SInterp(f, self, env, members)
        try:
            try:
                it.run(f.r["ast"])
                v = None
            except Return as r:
                v = r.v
        finally:
            self.depth -= 1
        return v

    def members_of(self, ctor_name, args):
        """member values established by constructor `ctor_name` applied to args"""
        cands = [f for f in self.db.get(ctor_name) if "ast" in f.r and len(f.r["params"]) == len(args)]
        if not cands:
            raise OutOfVocabulary("no analysed constructor %s with %d parameter(s)" % (ctor_name, len(args)))
        f = cands[0]
        env = {p_["n"]: (list(a) if isinstance(a, list) else a) for p_, a in zip(f.r["params"], args)}
        it = SInterp(f, self, env, {})
        members = {}
        for ini in f.r.get("inits") or []:
            v = it.ev(ini["init"])
            if ini["member"] == "<base>":
                if isinstance(v, tuple) and v[0] == "construct" and v[1] == ctor_name:
                    members.update(self.members_of(v[1], v[2]))
                    continue
                raise OutOfVocabulary("base-class initialiser in %s" % ctor_name)
            members[ini["member"]] = v
        it.members = members
        try:
            it.run(f.r["ast"])          # body: only compiled-out assertions are in the vocabulary
        except Return:
            pass
        return it.members

    def call_object(self, obj, args, n):
        """obj(args...) for a sampler object built by a constructor seen earlier"""
        if not (isinstance(obj, tuple) and obj and obj[0] == "construct"):
            raise OutOfVocabulary("call of " + show(n["c"][1]))
        cls = obj[1].rsplit("::", 1)[0]
        members = self.members_of(obj[1], obj[2])
        f = self.pick(cls + "::operator()", lambda f: len(f.r["params"]) == len(args))
        env = {p_["n"]: a for p_, a in zip(f.r["params"], args)}
        return self.run_body(f, env, members)

    # ---- algebra
    def reduce(self, p):
        p = as_poly(p)
        for _ in range(200):
            out = Poly()
            changed = False
            for mon, coef in p.t.items():
                d = dict(mon)
                hit = None
                for s_ in sorted(d):
                    if d[s_] >= 2 and s_ in self.sq:
                        hit = s_
                        break
                if hit is None:
                    out = out + Poly({mon: coef})
                    continue
                d[hit] -= 2
                rest = Poly({tuple(sorted((a, b) for a, b in d.items() if b)): coef})
                out = out + rest * self.sq[hit]
                changed = True
            p = out
            if not changed:
                return p
        raise OutOfVocabulary("relation rewriting does not terminate")

    def is_zero(self, p):
        """p == 0 modulo the relations; Laurent monomials are cleared first (the symbols divided by
        are assumed non-zero, recorded by the caller)."""
        p = as_poly(p)
        low = {}
        for mon in p.t:
            for s_, pw in mon:
                if pw < 0:
                    low[s_] = min(low.get(s_, 0), pw)
        for s_, pw in low.items():
            k = -pw + ((-pw) % 2 if s_ in self.sq else 0)
            p = p * Poly({((s_, k),): Fraction(1)})
        for s_ in sorted(self.den, reverse=True):
            p = self.subst(p, s_, self.den[s_])
        r = self.reduce(p)
        return r == Poly(), r, sorted(low)

    def nonneg_on_draws(self, a):
        """a >= 0 for all values of the canonical draws in [0, 1]; exact for polynomials of degree
        <= 2 in one draw; None when outside that vocabulary."""
        a = as_poly(a)
        syms = set(s_ for mon in a.t for s_, _p in mon)
        if not syms:
            return a.cval() >= 0
        if len(syms) != 1 or not (syms <= set(self.draws)):
            return None
        (x,) = syms
        co = {0: Fraction(0), 1: Fraction(0), 2: Fraction(0)}
        for mon, c in a.t.items():
            pw = dict(mon).get(x, 0)
            if pw not in co:
                return None
            co[pw] += c

        def val(t):
            return co[2] * t * t + co[1] * t + co[0]
        pts = [Fraction(0), Fraction(1)]
        if co[2] != 0:
            vtx = -co[1] / (2 * co[2])
            if 0 < vtx < 1:
                pts.append(vtx)
        return all(val(t) >= 0 for t in pts)

    def range_of(self, a):
        """[min, max] over the draws of a polynomial that is affine in a single draw; else None"""
        a = as_poly(a)
        syms = set(s_ for mon in a.t for s_, _p in mon if s_ in self.draws)
        others = set(s_ for mon in a.t for s_, _p in mon if s_ not in self.draws)
        if len(syms) != 1:
            return None
        (x,) = syms
        c0, c1 = Poly(), Poly()
        for mon, c in a.t.items():
            d = dict(mon)
            pw = d.pop(x, 0)
            rest = Poly({tuple(sorted(d.items())): c})
            if pw == 0:
                c0 = c0 + rest
            elif pw == 1:
                c1 = c1 + rest
            else:
                return None
        return x, c0, c0 + c1, others


class SInterp(Interp):
    def __init__(self, func, world, env=None, members=None):
        Interp.__init__(self, func, {})
        self.w = world
        self.members = members if members is not None else {}
        if env:
            self.env.update(env)

    def ev(self, n):
        if n is None:
            return None
        k = n["k"]
        if "cval" in n and k != "VarDecl":
            try:
                int(n["cval"])
            except ValueError:
                if k == "DeclRefExpr":
                    # a named floating constant (constants::pi): a symbol
                    return Poly.sym(n.get("q") or n["name"])
                n = dict(n)
                del n["cval"]
                return self.ev(n)
        if k == "MemberExpr" and n["c"] and strip(n["c"][0])["k"] == "CXXThisExpr":
            if n["name"] in self.members:
                return self.members[n["name"]]
            raise OutOfVocabulary("member %s has no value established by the constructor" % n["name"])
        if k == "CXXOperatorCallExpr" and n.get("oop") == "()":
            obj = self.ev(n["c"][1])
            args = [self.ev(c) for c in n["c"][2:]]
            if isinstance(obj, tuple) and obj and obj[0] == "lambda" and not args:
                return self.call_lambda(obj[1])
            return self.w.call_object(obj, args, n)
        if k == "CallExpr" and n.get("callee", "") in self.w.funcs:
            return self.w.funcs[n["callee"]]([self.ev(c) for c in n["c"][1:]], n)
        if k == "CXXMemberCallExpr" and n.get("callee", "").endswith("::operator()"):
            me = strip(n["c"][0])
            obj = self.ev(me["c"][0]) if me["k"] == "MemberExpr" and me["c"] else None
            return self.w.call_object(obj, [self.ev(c) for c in n["c"][1:]], n)
        return Interp.ev(self, n)

    def arith(self, op, a, b, n):
        if op == "/" and isinstance(b, Poly) and len(b.t) > 1:
            b = self.w.denominator(b)
        return Interp.arith(self, op, a, b, n)

    def call_lambda(self, body):
        sub = SInterp(self.f, self.w, dict(self.env), self.members)
        sub.steps = self.steps
        try:
            sub.run(body)
        except Return as r:
            return r.v
        return None

    def run(self, st):
        if st is not None and st["k"] == "DoStmt":
            cond = st["c"][-1] if st["c"] else None
            if cond is None or str(cond.get("cval")) != "0":
                raise OutOfVocabulary("do-while loop")
            return                       # CELER_* macro body: do { if (false && ...) {} } while (0)
        if st is not None and st["k"] == "CXXForRangeStmt":
            kids = st["c"]
            vd = kids[6]["c"][0]
            ty = vd.get("ty", "")
            if ty.endswith("&") and not ty.startswith("const "):
                rexpr = kids[1]["c"][0]["c"][0]
                seq = self.load(self.lval(rexpr))
                if not isinstance(seq, list):
                    raise OutOfVocabulary("range-for over " + show(rexpr))
                for j in range(len(seq)):
                    self.env[vd["name"]] = seq[j]
                    self.run(kids[7])
                    seq[j] = self.env[vd["name"]]
                return
        return Interp.run(self, st)


def sq_norm(v):
    r = Poly()
    for x in v:
        r = r + as_poly(x) * as_poly(x)
    return r


def vec_of(v, n=None):
    while isinstance(v, tuple) and v and v[0] == "construct" and len(v[2]) == 1:
        v = v[2][0]
    if isinstance(v, list) and (n is None or len(v) == n) and all(not isinstance(x, (list, tuple)) for x in v):
        return [as_poly(x) for x in v]
    return None


def symbolic(cx, what, fn):
    """run one symbolic evaluation; leaving the vocabulary is an analysis failure, never a verdict"""
    try:
        return fn()
    except OutOfVocabulary as ex:
        raise AnalysisBroken("C15: %s is outside the interpreter's vocabulary: %s" % (what, ex))


# =====================================================================================
# C15.2  unit vectors
# =====================================================================================
def unit_vector_rules(db, cx):
    # (b) from_spherical: |from_spherical(c, phi)|^2 == 1 given s^2 = 1 - c^2, cos^2 + sin^2 = 1
    fs = [f for f in db.get(C + "from_spherical") if "ast" in f.r]
    cx.require(fs, "anchor celeritas::from_spherical (AST) not found")
    for f in fs:
        def go(f=f):
            w = World(db)
            cx.require(len(f.r["params"]) == 2, "from_spherical does not take (costheta, phi)")
            c, phi = Poly.sym("c"), Poly.sym("phi")
            v = w.run_body(f, {f.r["params"][0]["n"]: c, f.r["params"][1]["n"]: phi}, {})
            return w, v
        w, v = symbolic(cx, "from_spherical", go)
        vec = vec_of(v, 3)
        cx.require(vec is not None, "from_spherical does not return three scalar components: %r" % (v,))
        z, r, _ = w.is_zero(sq_norm(vec) - Poly.const(1))
        pre = ["%s >= 0" % (a,) for (_s, a, _l) in w.sqrt_args.values()]
        cx.ob("C15.2-unit-vector", "from_spherical(c, phi): x^2 + y^2 + z^2 - 1 == 0 identically [%s]"
              % f.inst.split("<")[-1].rstrip(">"), z,
              ("(%s); " % ", ".join(repr(x) for x in vec)) +
              ("reduces to 0 with %s" % _rels(w) if z else "remainder %r with %s" % (r, _rels(w))) +
              ("; precondition of the caller: %s" % ", ".join(pre) if pre else ""), short(f.loc),
              why="every direction sampled or scattered in the code is built by this function: a "
                  "component that breaks the identity gives non-unit directions for all inputs")
    # (c) make_unit_vector: |v / norm(v)|^2 == 1 given norm(w)^2 = w.w
    fs = [f for f in db.get(C + "make_unit_vector") if "ast" in f.r]
    cx.require(fs, "anchor celeritas::make_unit_vector (AST) not found")
    for f in fs:
        m = re.search(r"Array<\w+, (\d+)", f.r["params"][0].get("cty", "")) if f.r["params"] else None
        cx.require(m, "make_unit_vector: cannot read the vector length from %s" % f.r.get("params"))
        N = int(m.group(1))

        def go(f=f, N=N):
            w = World(db)
            vin = [Poly.sym("v%d" % i) for i in range(N)]
            v = w.run_body(f, {f.r["params"][0]["n"]: list(vin)}, {})
            return w, vin, v
        w, vin, v = symbolic(cx, "make_unit_vector", go)
        vec = vec_of(v, N)
        cx.require(vec is not None, "make_unit_vector<%d> does not return %d scalar components: %r" % (N, N, v))
        z, r, divs = w.is_zero(sq_norm(vec) - Poly.const(1))
        # every component is the matching input component times one common factor
        same_dir = all((vec[i] * vin[0] - vec[0] * vin[i]) == Poly() for i in range(N))
        cx.ob("C15.2-unit-vector", "make_unit_vector<%d>(v): |result|^2 - 1 == 0 identically and result is "
              "parallel to v" % N, z and same_dir,
              ("(%s); " % ", ".join(repr(x) for x in vec)) +
              ("reduces to 0 with %s" % _rels(w) if z else "remainder %r with %s" % (r, _rels(w))) +
              ("" if same_dir else "; components are not a common multiple of v") +
              "; assumes v != 0", short(f.loc),
              why="dividing by the norm of anything but the vector itself (or scaling only some "
                  "components) returns a vector that is not of unit length")
    # (a) IsotropicDistribution: composition sampler -> from_spherical
    ISO = C + "IsotropicDistribution"
    ops = [f for f in db.get(ISO + "::operator()") if "ast" in f.r]
    cx.require(ops, "anchor IsotropicDistribution::operator() (AST) not found")
    cx.floor("IsotropicDistribution::operator() instantiations", len(ops), 1)
    for f in ops:
        eng = _engine_short(f)

        def go(f=f):
            w = World(db)
            w.engine = _engine_full(f.inst)
            members = w.members_of(ISO + "::IsotropicDistribution", [])
            v = w.run_body(f, {f.r["params"][0]["n"]: ("param", "rng")}, members)
            return w, v
        w, v = symbolic(cx, "IsotropicDistribution", go)
        vec = vec_of(v, 3)
        cx.require(vec is not None, "IsotropicDistribution::operator() does not return three components: %r" % (v,))
        z, r, _ = w.is_zero(sq_norm(vec) - Poly.const(1))
        cx.ob("C15.2-unit-vector", "IsotropicDistribution<%s>: |result|^2 - 1 == 0 identically" % eng, z,
              ("(%s); " % ", ".join(repr(x) for x in vec)) +
              ("reduces to 0 with %s" % _rels(w) if z else "remainder %r with %s" % (r, _rels(w))),
              short(f.loc), why="a sampled direction must be a unit vector")
        # side conditions of every sqrt over the whole range of the draws
        bad, unknown = [], []
        for (_s, a, loc) in w.sqrt_args.values():
            nn = w.nonneg_on_draws(a)
            if nn is None:
                unknown.append(repr(a))
            elif not nn:
                bad.append("sqrt(%r) at %s" % (a, short(loc)))
        if unknown:
            raise AnalysisBroken("C15: cannot bound the sqrt argument(s) %s over the canonical draws" % unknown)
        cx.ob("C15.2-unit-vector", "IsotropicDistribution<%s>: every sqrt argument is >= 0 for all canonical "
              "draws in [0, 1]" % eng, not bad,
              "; ".join(bad) or "; ".join("%r >= 0 on [0, 1]" % (a,) for (_s, a, _l) in w.sqrt_args.values()),
              short(f.loc),
              why="with |cos(theta)| > 1 the sine is the square root of a negative number: the "
                  "direction is NaN")
        # the direction is from_spherical(c, phi) of two different draws covering the sphere
        fsph = [c_ for c_ in w.calls if c_[0] == C + "from_spherical"]
        prob = []
        if len(fsph) != 1 or vec_of(fsph[0][2], 3) != vec:
            prob.append("the result is not the value of one from_spherical(c, phi) call")
        else:
            c_, phi_ = [as_poly(x) for x in fsph[0][1]]
            rc, rp = w.range_of(c_), w.range_of(phi_)
            pi = Poly.sym(C + "constants::pi")
            if rc is None or rp is None:
                prob.append("c = %r, phi = %r are not affine in one canonical draw each" % (c_, phi_))
            else:
                if rc[0] == rp[0]:
                    prob.append("cos(theta) and phi are computed from the same draw")
                if not (rc[1] == Poly.const(-1) and rc[2] == Poly.const(1)):
                    prob.append("cos(theta) ranges over [%r, %r), not [-1, 1)" % (rc[1], rc[2]))
                if not (rp[1] == Poly() and rp[2] == pi * Poly.const(2)):
                    prob.append("phi ranges over [%r, %r), not [0, 2 pi)" % (rp[1], rp[2]))
        cx.ob("C15.2-unit-vector", "IsotropicDistribution<%s>: result = from_spherical(c, phi) with c uniform "
              "on [-1, 1) and phi uniform on [0, 2 pi) from two different draws" % eng, not prob,
              "; ".join(prob) or "c = %r, phi = %r" % (fsph[0][1][0], fsph[0][1][1]), short(f.loc),
              why="any other range leaves part of the sphere unreachable (or, beyond [-1, 1], leaves "
                  "the domain of from_spherical)")
    cx.assume("std::sqrt, std::sin, std::cos, std::fma are the mathematical functions (s*s = x for x >= 0, "
              "sin^2 + cos^2 = 1, fma(a,b,c) = ab + c); rounding is not modelled")
    cx.assume("celeritas::dot_product(x, y) = sum x_i y_i (as in C12); make_unit_vector is applied to a "
              "non-zero vector")


def _engine_full(inst):
    m = re.search(r"operator\(\)<(.*)>$", inst)
    return m.group(1) if m else ""


def _rels(w):
    out = []
    for (s, a, _l) in w.sqrt_args.values():
        out.append("%s^2 = %r" % (s, a))
    for key, (c, s) in w.trig.items():
        out.append("%s^2 + %s^2 = 1 (angle %s)" % (c, s, key))
    return "{" + "; ".join(out) + "}" if out else "no relation"


# =====================================================================================
# C15.3  UniformBoxDistribution
# =====================================================================================
def box_rules(db, cx):
    BOX = C + "UniformBoxDistribution"
    ops = [f for f in db.get(BOX + "::operator()") if "ast" in f.r]
    cx.require(ops, "anchor UniformBoxDistribution::operator() (AST) not found")
    cx.floor("UniformBoxDistribution::operator() instantiations", len(ops), 1)
    ctors = [g for g in db.get(BOX + "::UniformBoxDistribution") if "ast" in g.r and len(g.r["params"]) == 2]
    cx.require(ctors, "anchor UniformBoxDistribution(lower, upper) (AST) not found")
    for f in ops:
        eng = _engine_short(f)

        def go(f=f):
            w = World(db)
            w.engine = _engine_full(f.inst)
            lo = [Poly.sym("lower%d" % i) for i in range(3)]
            hi = [Poly.sym("upper%d" % i) for i in range(3)]
            members = w.members_of(BOX + "::UniformBoxDistribution", [list(lo), list(hi)])
            v = w.run_body(f, {f.r["params"][0]["n"]: ("param", "rng")}, members)
            return w, lo, hi, v
        w, lo, hi, v = symbolic(cx, "UniformBoxDistribution", go)
        vec = vec_of(v, 3)
        cx.require(vec is not None, "UniformBoxDistribution::operator() does not return three components: %r" % (v,))
        used = []
        for i in range(3):
            prob = []
            got = None
            for u in w.draws:
                if vec[i] == lo[i] + (hi[i] - lo[i]) * Poly.sym(u):
                    got = u
            if got is None:
                prob.append("component %d = %r" % (i, vec[i]))
            elif got in used:
                prob.append("component %d re-uses the draw %s of another component" % (i, got))
            used.append(got)
            cx.ob("C15.3-box-components", "UniformBoxDistribution<%s>: component %d = lower[%d] + (upper[%d] - "
                  "lower[%d]) * u with its own canonical draw" % (eng, i, i, i, i), not prob,
                  "; ".join(prob) or "%r" % (vec[i],), short(f.loc),
                  why="a component built from the bounds of another axis (or from a shared draw) puts "
                      "points outside the box / on a lower-dimensional subset of it")
    # the scalar sampler the box is made of
    URD = C + "UniformRealDistribution"
    ops = [f for f in db.get(URD + "::operator()") if "ast" in f.r]
    cx.require(ops, "anchor UniformRealDistribution::operator() (AST) not found")
    for f in ops:
        def go(f=f):
            w = World(db)
            a, b = Poly.sym("a"), Poly.sym("b")
            members = w.members_of(URD + "::UniformRealDistribution", [a, b])
            v = w.run_body(f, {f.r["params"][0]["n"]: ("param", "rng")}, members)
            return w, a, b, v
        w, a, b, v = symbolic(cx, "UniformRealDistribution", go)
        ok = len(w.draws) == 1 and not isinstance(v, (list, tuple)) and \
            as_poly(v) == a + (b - a) * Poly.sym(w.draws[0])
        cx.ob("C15.3-box-components", "UniformRealDistribution<%s>(a, b) returns a + (b - a) * u with one "
              "canonical draw u" % _engine_short(f), ok, "%r" % (v,), short(f.loc),
              why="a convex combination of the bounds is inside [a, b] for every u in [0, 1)")


# =====================================================================================
# C15.4  draws
# =====================================================================================
def engine_types(db):
    """canonical parameter types of the engines: whatever celeritas::generate_canonical is
    instantiated with"""
    out = set()
    for f in db.get(C + "generate_canonical"):
        for p_ in f.r["params"]:
            out.add(p_.get("cty", ""))
    for n_ in db.find(r"^celeritas::GenerateCanonical::operator\(\)$"):
        for f in db.get(n_):
            for p_ in f.r["params"]:
                out.add(p_.get("cty", ""))
    return set(t for t in out if t.endswith("&") and not t.startswith("const "))


class DrawInfo(object):
    def __init__(self, db, files):
        self.db = db
        self.files = set(files)
        self.etypes = engine_types(db)
        self.memo = {}
        self.stack = []
        db.callgraph()

    def rng_params(self, f):
        return [p_["n"] for p_ in f.r["params"] if p_.get("cty", "") in self.etypes]

    def is_draw(self, f, ev, rng):
        if ev["e"] != "call":
            return False
        for a in ev.get("args", []):
            p = a.get("path") or {}
            if p.get("root") in ["p:" + r for r in rng] and not [c for c in p.get("chain", []) if not c.startswith("~")] \
                    and a.get("mode") in ("ref", "ptr"):
                return True
        rp = (ev.get("recv") or {}).get("path") or {}
        if rp.get("root") in ["p:" + r for r in rng] and not [c for c in rp.get("chain", []) if not c.startswith("~")]:
            return True
        return False

    def samplers(self):
        out = []
        for f in self.db.all_funcs():
            if file_of(f.loc) in self.files and self.rng_params(f):
                out.append(f)
        return sorted(out, key=lambda f: (f.loc, f.inst))


def back_edge_loops(f):
    """natural loop of every back edge separately: [(header, latch, body)]"""
    dom = f.dominators()
    out = []
    for u in sorted(dom):
        for h in f.succ(u):
            if h in dom.get(u, ()):
                body = {h, u}
                work = [u]
                while work:
                    x = work.pop()
                    if x == h:
                        continue
                    for p in f.preds(x):
                        if p not in body and p in dom:
                            body.add(p)
                            work.append(p)
                out.append((h, u, body))
    # loops with the same body (two latches of one loop) are merged
    merged = {}
    for h, u, body in out:
        key = (h, frozenset(body))
        merged.setdefault(key, []).append(u)
    res = []
    for (h, body), latches in merged.items():
        res.append((h, sorted(latches), set(body)))
    # a `continue`-style second latch: same header, body a subset of another loop with that header
    # and the exit branches identical -> keep the larger one only
    res.sort(key=lambda t: (t[0], len(t[2])))
    return res


def _locals(refs):
    return [r for r in refs or [] if not r.startswith(("F:", "E:", "G:")) and r != "this"]


def _defs_in(f, body, v):
    out = []
    for b in sorted(body):
        for i, e in enumerate(f.blocks[b]["ev"]):
            if e["e"] == "def" and e.get("var") == v:
                out.append((b, i, e))
            elif e["e"] == "write" and (e.get("path") or {}).get("root") == "l:" + v:
                out.append((b, i, e))
    return out


def _field_writes_in(f, body, fld):
    out = []
    for b in sorted(body):
        for i, e in enumerate(f.blocks[b]["ev"]):
            if e["e"] == "write" and (e.get("path") or {}).get("root") == "this" and path_leaf(e.get("path")) == fld:
                out.append((b, i, e))
    return out


def _cond_refs(c):
    return list(c.get("allrefs") or c.get("refs") or [])


def classify_loop(f, di, rng, h, latches, body):
    """-> dict(kind = none|constant|counted|rejection|violation, detail, trip, where, fresh)"""
    live = f.live_blocks()
    body = set(b for b in body if b in live)
    draws = [(b, i, e) for b in sorted(body) for i, e in enumerate(f.blocks[b]["ev"]) if di.is_draw(f, e, rng)]
    exits = []
    for b in sorted(body):
        blk = f.blocks[b]
        outs = [s for s in blk["succ"] if s is not None and s not in body]
        if outs and blk.get("cond") is not None and len(blk["succ"]) == 2:
            exits.append(b)
    where = short(f.blocks[h].get("tloc") or (f.blocks[h]["ev"][0]["loc"] if f.blocks[h]["ev"] else f.loc))
    for b in exits:
        where = short(f.blocks[b].get("tloc", where))
    info = {"draws": draws, "exits": exits, "where": where, "trip": None, "fresh": []}
    if not draws:
        info["kind"] = "none"
        return info
    if not exits:
        # only returns / breaks without a condition inside the body: nothing decides the exit
        info.update(kind="violation", detail="the loop draws random numbers and has no conditional exit")
        return info
    # ---- counted loop: one exit test `v <op> bound`, v stepped by ++/-- only, bound invariant
    cnt = _counted(f, body, exits, h, latches)
    if cnt is not None:
        info.update(cnt)
        return info
    # ---- rejection loop: dependence closure of the exit conditions
    fresh, stale, seen = [], [], set()
    work = []
    for b in exits:
        c = f.blocks[b]["cond"]
        refs = _cond_refs(c)
        if set(refs) & set(rng):
            fresh.append("the exit test `%s` draws itself" % c.get("t", "")[:50])
        # draws evaluated as part of the condition expression (same block, no definition)
        work.extend(refs)
    dom_latch = latches
    while work:
        r = work.pop()
        if r in seen or r in rng or r == "this":
            continue
        seen.add(r)
        if r.startswith("F:"):
            for (b, i, e) in _field_writes_in(f, body, r[2:]):
                if set(e.get("refs", [])) & set(rng):
                    fresh.append("%s = %s" % (r[2:].split("::")[-1], (e.get("rhs") or "")[:50]))
                work.extend(e.get("refs", []))
                work.extend(_control_refs(f, body, b, i, rng, fresh))
            continue
        if r.startswith(("E:", "G:")):
            continue
        ds = _defs_in(f, body, r)
        accum = bool(ds) and all(e.get("kind") in ("compound", "incdec", "opassign") for (_b, _i, e) in ds)
        for (b, i, e) in ds:
            if set(e.get("refs", [])) & set(rng):
                fresh.append("%s %s %s" % (r, e.get("op") or "=", (e.get("rhs") or "")[:50]))
            work.extend(e.get("refs", []))
            work.extend(_control_refs(f, body, b, i, rng, fresh))
        # definitions made before the loop that survive a whole iteration
        if accum:
            continue
        for lt in dom_latch:
            for (b, i, e) in f.reaching_defs(r, (lt, 10 ** 9)):
                if b in body:
                    continue
                src = _drawn_outside(f, body, e, rng, set())
                if src:
                    stale.append("`%s` (%s, drawn before the loop at %s)" % (r, src, short(e.get("loc", ""))))
    info["fresh"] = sorted(set(fresh))
    if stale:
        info.update(kind="violation", detail="the exit depends on a draw that is not repeated in the loop: %s"
                    % "; ".join(sorted(set(stale))))
    elif fresh:
        info.update(kind="rejection", detail="exit decided by values drawn in the same iteration: %s"
                    % "; ".join(sorted(set(fresh))[:4]))
    else:
        conds = "; ".join("`%s`" % f.blocks[b]["cond"].get("t", "")[:60] for b in exits)
        info.update(kind="violation", detail="the loop draws %d time(s) per iteration but its exit test %s does "
                    "not depend on anything drawn in the loop and it is not a counted loop" % (len(draws), conds))
    return info


def _control_refs(f, body, b, i, rng, fresh):
    """references of the conditions (inside the loop) that control whether (b, i) executes"""
    out = []
    for br in body:
        blk = f.blocks[br]
        c = blk.get("cond")
        if c is None or len(blk["succ"]) != 2 or br == b:
            continue
        if any(s is None for s in blk["succ"]):
            continue
        for e_ in (0, 1):
            if blk["succ"][e_] in body and f.guarded_by_edge((b, i), br, e_):
                refs = _cond_refs(c)
                if set(refs) & set(rng):
                    fresh.append("branch on the draw `%s`" % c.get("t", "")[:50])
                out.extend(refs)
    return out


def _drawn_outside(f, body, e, rng, seen):
    """does the definition e (outside the loop) carry a drawn value?  returns its text or ''"""
    if set(e.get("refs", []) or []) & set(rng):
        return "%s = %s" % (e.get("var") or e.get("lhs"), (e.get("rhs") or "")[:50])
    for r in _locals(e.get("refs")):
        if r in seen:
            continue
        seen.add(r)
        for (b, i, d) in f.events("def"):
            if d.get("var") == r and b not in body:
                s = _drawn_outside(f, body, d, rng, seen)
                if s:
                    return s
    return ""


def _lit_of(f, body, name, depth=0):
    """integer value of a local defined once, before the loop, by a literal (through range(N)
    begin()/end() for the compiler-generated range-for variables); else None"""
    ds = [(b, i, e) for (b, i, e) in f.events("def") if e.get("var") == name and b not in body]
    if len(ds) != 1 or depth > 3:
        return None
    b, i, e = ds[0]
    if e.get("lit") is not None:
        try:
            return int(e["lit"])
        except ValueError:
            return None
    calls = e.get("calls", [])
    if calls in ([C + "Range::begin"], [C + "Range::end"]) and len(_locals(e.get("refs"))) == 1:
        rg = _locals(e["refs"])[0]
        rd = [(b2, i2, e2) for (b2, i2, e2) in f.events("def") if e2.get("var") == rg]
        if len(rd) == 1 and rd[0][2].get("calls") == [C + "range"]:
            b2, i2, e2 = rd[0]
            call = [c for c in f.blocks[b2]["ev"][:i2] if c["e"] == "call" and c["callee"] == C + "range"]
            if call:
                a = call[-1].get("args", [])
                try:
                    vals = [int(x["lit"]) for x in a]
                except (KeyError, ValueError, TypeError):
                    return None
                if len(vals) == 1:
                    return 0 if calls == [C + "Range::begin"] else vals[0]
                if len(vals) == 2:
                    return vals[0] if calls == [C + "Range::begin"] else vals[1]
    return None


def _counted(f, body, exits, h=None, latches=()):
    if len(exits) != 1:
        return None
    blk = f.blocks[exits[0]]
    c = blk["cond"]
    comp = {"<": ">=", "<=": ">", ">": "<=", ">=": "<", "!=": "==", "==": "!="}
    core = c.get("op")
    if core not in comp:
        return None
    # the relation that holds while the loop continues
    stay_true = blk["succ"][f.cond_polarity_edge(exits[0], True)] in body
    op = core if stay_true else comp[core]
    if op == "==":
        return None
    if "allrefs" in c and set(c["allrefs"]) != set(c.get("refs", [])):
        return None                      # a compound condition: not a plain counting test
    allowed_calls = {C + "detail::range_iter::operator!=", C + "detail::range_iter::operator=="}
    if set(c.get("calls", [])) - allowed_calls:
        return None
    l, r = _locals(c.get("lrefs")), _locals(c.get("rrefs"))
    lall, rall = c.get("lrefs") or [], c.get("rrefs") or []
    flip = {"<": ">", "<=": ">=", ">": "<", ">=": "<=", "!=": "!="}
    for var_side, other, other_all, o in ((l, r, rall, op), (r, l, lall, flip.get(op))):
        if len(var_side) != 1 or (var_side is l and len(lall) != 1) or (var_side is r and len(rall) != 1):
            continue
        v = var_side[0]
        ds = _defs_in(f, body, v)
        if not ds or any(e.get("op") not in ("++", "--") for (_b, _i, e) in ds):
            continue
        ops = set(e["op"] for (_b, _i, e) in ds)
        if len(ops) != 1:
            continue
        step = ops.pop()
        if (step == "++" and o not in ("<", "<=", "!=")) or (step == "--" and o not in (">", ">=", "!=")):
            continue
        # the bound is loop-invariant
        inv = True
        for x in other_all:
            if x == "this":
                continue
            if x.startswith("F:"):
                if _field_writes_in(f, body, x[2:]):
                    inv = False
            elif not x.startswith(("E:", "G:")) and _defs_in(f, body, x):
                inv = False
        if not inv:
            continue
        # a step on every iteration: no path from the loop header back to it avoids the step (a
        # skipped step makes the trip count depend on what happens in the body)
        stepped = set(b_ for (b_, _i, _e) in ds)
        if h is not None and h not in stepped:
            r_ = f.reach([s_ for s_ in f.succ(h) if s_ in body],
                         blocked_blocks=list(stepped | (set(f.blocks) - set(body)) | {h}))
            if any(lt in r_ for lt in latches):
                continue
        start = _lit_of(f, body, v)
        bound = None
        lit = c.get("rlit") if var_side is l else c.get("llit")
        if lit is not None:
            try:
                bound = int(lit)
            except ValueError:
                bound = None
        elif len(_locals(other_all)) == 1 and len(other_all) == 1:
            bound = _lit_of(f, body, other_all[0])
        trip = None
        if start is not None and bound is not None:
            n = (bound - start) if step == "++" else (start - bound)
            if o in ("<=", ">="):
                n += 1
            trip = max(n, 0)
        if trip is not None:
            return dict(kind="constant", trip=trip, detail="counted loop with the constant trip count %d (`%s`)"
                        % (trip, c.get("t", "")[:40]))
        return dict(kind="counted", trip=None,
                    detail="counted loop: `%s` with `%s` stepped by %s only and an invariant bound - the trip "
                           "count is fixed when the loop is entered" % (c.get("t", "")[:40], v, step))
    return None


INF = float("inf")


def draw_count(di, f, loops):
    """maximum number of draws on any path of f: (int or INF, set of reasons for INF)"""
    key = f.node
    if key in di.memo:
        return di.memo[key]
    if key in di.stack:
        return (INF, {"recursive"})
    di.stack.append(key)
    rng = di.rng_params(f)
    reasons = set()
    mult = {b: 1 for b in f.blocks}
    unbounded = set()
    for (h, latches, body, info) in loops:
        if info["kind"] == "none":
            continue
        if info["kind"] == "constant":
            for b in body:
                mult[b] *= info["trip"] + (1 if b in info["exits"] and b == h else 0)
        else:
            unbounded |= set(b for (b, _i, _e) in info["draws"])
            reasons.add(info["kind"])
    live = f.live_blocks()
    wt = {}
    for b, blk in f.blocks.items():
        w_ = 0
        if b in live:
            for e in blk["ev"]:
                if not di.is_draw(f, e, rng):
                    continue
                n_, why_ = callee_count(di, e)
                w_ += n_
                if n_ == INF:
                    reasons |= why_
        if w_ and b in unbounded:
            w_ = INF
        wt[b] = w_ * mult[b] if w_ not in (0, INF) else w_
    # longest path over the DAG without back edges
    dom = f.dominators()
    memo = {}

    def longest(b):
        if b in memo:
            return memo[b]
        memo[b] = 0                 # cycle guard (irreducible graphs do not occur)
        best = 0
        for s_ in f.succ(b):
            if s_ in dom.get(b, ()):     # back edge
                continue
            best = max(best, longest(s_))
        memo[b] = wt.get(b, 0) + best
        return memo[b]
    import sys
    sys.setrecursionlimit(max(sys.getrecursionlimit(), 5000))
    total = longest(f.entry) if f.entry in f.blocks else 0
    di.stack.pop()
    res = (total, reasons if total == INF else set())
    if "recursive" in reasons:
        res = (INF, reasons)
    di.memo[key] = res
    return res


def callee_count(di, ev):
    node = di.db.callee_node(ev)
    g = None
    for g_ in di.db.funcs_of_nodes([node]):
        g = g_
        break
    if g is None or not di.rng_params(g):
        return (1, set())                # primitive without an analysed body: one draw
    if g.name in (C + "generate_canonical",) or g.name.endswith("GenerateCanonical::operator()"):
        return (1, set())                # one canonical draw (the unit of counting)
    return draw_count(di, g, loops_of_sampler(di, g))


_loop_cache = {}


def loops_of_sampler(di, f):
    k = id(f.r)
    if k not in _loop_cache:
        rng = di.rng_params(f)
        out = []
        for (h, latches, body) in back_edge_loops(f):
            out.append((h, latches, body, classify_loop(f, di, rng, h, latches, body)))
        _loop_cache[k] = out
    return _loop_cache[k]


def draw_rules(db, cx):
    _loop_cache.clear()
    files = [a for a in anchor_files()]
    di = DrawInfo(db, files)
    cx.require(di.etypes, "no instantiation of celeritas::generate_canonical found: engine types unknown")
    sams = di.samplers()
    by_file = {}
    for f in sams:
        by_file.setdefault(file_of(f.loc), []).append(f)
    for a in files:
        cx.require(os.path.exists(os.path.join(_repo(), a)), "anchor file %s does not exist" % a)
        if a in NO_SAMPLER_FILES:
            continue
        cx.require(by_file.get(a), "no sampler (function taking an engine) of anchor file %s in the parsed units" % a)
    cx.floor("samplers (functions of the anchor files taking an engine, per instantiation)", len(sams), 30)
    nloops = {"constant": 0, "counted": 0, "rejection": 0, "violation": 0}
    rejection, finite = [], {}
    for f in sams:
        nm = _sampler_name(f)
        loops = loops_of_sampler(di, f)
        k = 0
        for (h, latches, body, info) in loops:
            if info["kind"] == "none":
                continue
            k += 1
            nloops[info["kind"]] += 1
            ok = info["kind"] != "violation"
            cx.ob("C15.4-draws", "%s: drawing loop #%d is counted or a rejection loop on fresh draws" % (nm, k),
                  ok, "%s [%d draw site(s) in the body]" % (info["detail"], len(info["draws"])), info["where"],
                  why="a loop that consumes random numbers but whose exit they cannot influence (or that "
                      "waits on a value drawn once, before the loop) may never end: the number of "
                      "draws is unbounded for some streams")
        n, why = draw_count(di, f, loops)
        cx.ob("C15.4-draws", "%s: the number of draws per sample is finite on every path or governed by "
              "rejection / counted loops only (no recursion)" % nm, "recursive" not in why,
              ("at most %d draw(s)" % n) if n != INF else "not bounded by a constant: %s"
              % ", ".join(sorted(why)), short(f.loc),
              why="a sampler that reaches itself again consumes an unbounded number of draws")
        if n == INF:
            rejection.append(nm)
        else:
            finite[nm] = n
    for nm, n in sorted(finite.items()):
        cx.count("max draws: " + nm, n)
    cx.count("rejection / random-count samplers", len(rejection))
    cx.sample({"rejection_or_random_count_samplers": sorted(set(rejection))})
    cx.sample({"max_draws_per_sample": {k: v for k, v in sorted(finite.items())}})
    cx.floor("drawing loops classified as rejection loops", nloops["rejection"] + nloops["violation"], 5)
    cx.floor("drawing loops classified as counted loops", nloops["constant"] + nloops["counted"]
             + nloops["violation"], 2)
    cx.assume("rejection loops (exit decided by fresh draws) terminate with probability one; their "
              "expected number of iterations is a numeric property and is not decided: %s"
              % ", ".join(sorted(set(rejection))))
    cx.assume("a counted loop whose trip count was itself sampled (EnergyLossUrbanDistribution: the Poisson "
              "number of ionisations) draws exactly that many times; the size of the count is not decided")
    cx.assume("one call of generate_canonical counts as one draw (it consumes two 32-bit words for double)")


def _repo():
    import facts
    return facts.REPO


def _sampler_name(f):
    s = f.name.replace(C, "")
    if f.name.startswith(SEL + "::"):
        s = "Selector<%s>::%s" % (_sel_tag(cls_of(f)), f.name.rsplit("::", 1)[1])
    elif f.name == C + "generate_canonical":
        s = "generate_canonical%s" % ("<RealType>" if f.inst.count(",") else "")
    e = _engine_short(f)
    return "%s<%s>" % (s, e)


def _engine_short(f):
    """engine of a sampler instantiation, read from the type of its engine parameter"""
    for p_ in f.r["params"]:
        t = p_.get("cty", "")
        if t.endswith("&") and not t.startswith("const ") and ("Engine" in t or "engine" in t or "Rng" in t):
            t = t[:-1].strip().split("<")[0].split("::")[-1]
            return "mt19937" if t == "mersenne_twister_engine" else t
    e = engine_of(f.inst)
    return "mt19937" if e == "mersenne_twister_engine" else e



def canonical_default(db, cx):
    """C15.5 (seeded change c15e): the generic GenerateCanonical (std-style engines, e.g. the
    mt19937 primary generator) stays inside [0, 1): it returns std::generate_canonical, whose
    result the standard library guards (LWG 2524), or - if it accumulates the words itself - the
    returned value is tested against 1 before it is returned."""
    import re as _re
    n = 0
    for nm in db.find(r"^celeritas::GenerateCanonical::operator\(\)$"):
        for f in db.get(nm):
            if "Xorwow" in f.inst or "SequenceEngine" in f.inst:
                continue            # specialisations: C13.8 decides GenerateCanonical32 exactly
            rets = [e for (_b, _i, e) in f.events("return")]
            if not rets:
                continue
            n += 1
            ok = True
            det = []
            for e in rets:
                calls = e.get("calls", [])
                t = e.get("t", "")
                direct = bool(calls) and all(c == "std::generate_canonical" for c in calls) \
                    and t.lstrip().startswith("std::generate_canonical<")
                guarded = False
                if not direct:
                    rv = sorted(local_refs(e.get("refs", [])))
                    for br in f.branch_blocks(lambda c, _b: c.get("op") in (">=", "<", "==", ">", "<=")
                                              and (c.get("rlit") in ("1", "1.0") or c.get("llit") in ("1", "1.0"))):
                        c = f.blocks[br]["cond"]
                        if set(local_refs(c.get("refs", []))) & set(rv):
                            guarded = True
                ok = ok and (direct or guarded)
                det.append("std::generate_canonical" if direct else ("guarded against 1" if guarded else
                                                                       "`%s` is returned without a test against 1" % t[:60]))
            cx.ob("C15.5-canonical-default", "generic canonical generator [%s] stays below 1" %
                  f.inst.split("<", 1)[1][:40], ok, "; ".join(det), short(f.loc),
                  why="integer-to-float accumulation of the largest engine words rounds up to exactly 1; "
                      "every inverse-CDF sampler built on it then reaches an excluded end point "
                      "(log(0), the upper corner of a box, Bernoulli(1) false)")
    cx.floor("instantiations of the generic GenerateCanonical", n, 1)

def run(db, cx):
    canonical_default(db, cx)
    selector_rules(db, cx)
    unit_vector_rules(db, cx)
    box_rules(db, cx)
    draw_rules(db, cx)
