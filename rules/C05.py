import re
"""C05 - step history continuity and step limits (effect sets by action order)."""
from common import (C, short, field_writers, check_owners, local_refs, accessor_summary)
from cfg import path_leaf
import shared
import effects

EXPLANATION = (
    "Effect sets by step-action order over the instantiation-level call graph plus guard rules "
    "on the CFG: status moves forward; time is only added to, by the along-step action, with "
    "step/speed on the speed>0 edge; the step length is only shortened after pre-step (step_limit "
    "writes under sl.step < current; the raw setter is called only from along-step with the "
    "propagated distance or the MSC path); the step counter is incremented once per along-step; "
    "volume/material change only through the boundary action or track initialisation; the "
    "remaining MFP is written only by pre-step sampling, the along-step update and the discrete "
    "select reset.")
NOT_DECIDED = ("that consecutive steps join up numerically, that the reported volume contains the "
               "position (C03), step >= displacement")

TECHNIQUE = ('per-step-action effect sets (who may call which mutator) over the instantiation-level call graph; guard dominance and exact access-path arguments for the step-length/time setters; edge reachability and must-pass from the boundary edge of the linear propagator; edge-guard rule on every candidate that replaces the physics step limit; shared sub-step bound of the field driver')

UNITS = [
    "src/celeritas/phys/detail/PreStepAction.cc",
    "src/celeritas/phys/detail/DiscreteSelectAction.cc",
    "src/celeritas/phys/detail/TrackingCutAction.cc",
    "src/celeritas/geo/detail/BoundaryAction.cc",
    "src/celeritas/global/alongstep/AlongStepUniformMscAction.cc",
    "src/celeritas/global/alongstep/AlongStepGeneralLinearAction.cc",
    "src/celeritas/global/alongstep/AlongStepNeutralAction.cc",
    "src/celeritas/global/alongstep/AlongStepRZMapFieldMscAction.cc",
    "src/celeritas/em/model/KleinNishinaModel.cc",
    "src/celeritas/em/model/MollerBhabhaModel.cc",
    "src/celeritas/track/InitializeTracksAction.cc",
    "src/celeritas/track/ExtendFromSecondariesAction.cc",
    "src/celeritas/track/ExtendFromPrimariesAction.cc",
    "src/celeritas/track/SortTracksAction.cc",
    "src/celeritas/user/detail/StepGatherAction.cc",
    "src/celeritas/user/ActionDiagnostic.cc",
    "src/celeritas/user/StepDiagnostic.cc",
    "src/celeritas/global/Stepper.cc",
    "src/celeritas/global/CoreState.cc",
]

SIM = C + "SimStateData::"
STV = C + "SimTrackView::"
D = C + "detail::"
OTV = C + "OrangeTrackView::"
COPY = {"^celeritas::resize$", "^celeritas::[A-Za-z]+StateData::operator=$"}


def setters(db, name, nargs):
    return [(f, ev, "call") for f, ev in db.callers_of(name) if len(ev.get("args", [])) == nargs]



def physics_limit_shrinks(db, cx):
    """C05.8 (seeded change c05f): inside calc_physics_step_limit the limit starts as the distance
    to the discrete interaction and every later candidate (range step, user step limiter) replaces
    it only on the edge where the candidate is smaller than the *current limit* - not smaller than
    some other candidate."""
    fs = db.get(C + "calc_physics_step_limit")
    cx.require(fs, "anchor calc_physics_step_limit not found")
    n = 0
    for f in fs:
        ws = [(b, i, e) for (b, i, e) in f.events("write")
              if (e.get("path") or {}).get("chain") == ["f:" + C + "StepLimit::step"]]
        for (b, i, e) in ws:
            lr = sorted(local_refs(e.get("refs", [])))
            if e.get("lit") is not None or e.get("calls"):
                continue            # the initial definitions (0 for a stopped particle, mfp / xs)
            if len(lr) != 1 or (e.get("rhs") or "").strip() != lr[0]:
                continue
            v = lr[0]
            ok = False
            for br in f.branch_blocks(lambda c, _b: c.get("op") in ("<", "<=") and c.get("lrefs") == [v]
                                      and "F:" + C + "StepLimit::step" in c.get("rrefs", [])):
                if f.guarded_by_edge((b, i), br, f.cond_polarity_edge(br, True)):
                    ok = True
            for br in f.branch_blocks(lambda c, _b: c.get("op") in (">", ">=") and c.get("rrefs") == [v]
                                      and "F:" + C + "StepLimit::step" in c.get("lrefs", [])):
                if f.guarded_by_edge((b, i), br, f.cond_polarity_edge(br, True)):
                    ok = True
            n += 1
            cx.ob("C05.8-physics-limit-shrinks", "limit.step = %s @%s only where %s is below the current limit"
                  % (v, short(e["loc"]).split(":", 1)[1], v), ok, "", short(e["loc"]),
                  why="a candidate that replaces a shorter limit lengthens the step beyond the sampled "
                      "interaction distance: the track passes its interaction point and the "
                      "interaction is silently skipped")
    cx.floor("candidates replacing the physics step limit", n, 2)

def run(db, cx):
    physics_limit_shrinks(db, cx)
    # shared with C08: the field driver never integrates a sub-step past the requested chord
    # (otherwise the track moves further than its reported step length; seeded change c05e)
    import C08 as _c08
    _c08.substep_bounded(db, cx, rule="C05.7-substep-bounded")
    eff = effects.Effects(db)
    cx.floor("step actions found", len(eff.actions()), 10)

    # 1 status forward ---------------------------------------------------------
    shared.status_typestate(db, cx, "C05.1", eff)

    # 2 time only added to -----------------------------------------------------
    w = field_writers(db, SIM + "time")
    cx.floor("writers of SimStateData::time", len(w), 2)
    check_owners(cx, "C05.2-time", "SimStateData::time", w,
                 {STV + "operator=", STV + "add_time"} | COPY,
                 "a second writer of the lab time can make it decrease")
    for f in db.get(STV + "add_time"):
        ws = [ev for (_b, _i, ev) in f.writes(SIM + "time")]
        ok = len(ws) == 1 and ws[0].get("op") == "+=" and local_refs(ws[0].get("refs", [])) == \
            {f.r["params"][0]["n"]}
        cx.ob("C05.2-time", "add_time accumulates (time += delta)", ok,
              "%s %s %s" % (ws[0].get("lhs"), ws[0].get("op"), ws[0].get("rhs")) if ws else "no write",
              short(f.loc), why="anything but += delta can move time backwards")
    callers = setters(db, STV + "add_time", 1)
    cx.floor("callers of add_time", len(callers), 1)
    check_owners(cx, "C05.2-time", "add_time", callers, {D + "TimeUpdater::operator()"},
                 "time advances once per step, in the along-step kernel")
    for f in db.get(D + "TimeUpdater::operator()"):
        for (b, i, ev) in f.calls(STV + "add_time"):
            var = local_refs(ev["args"][0].get("refs", []))
            ok = False
            d = ""
            if len(var) == 1:
                defs = f.reaching_defs(next(iter(var)), (b, i))
                import re as _re
                mdiv = _re.search(r"/\s*([A-Za-z_]\w*)\s*$", defs[0][2].get("rhs", "")) if len(defs) == 1 else None
                divisor = mdiv.group(1) if mdiv else None
                okd = len(defs) == 1 and divisor is not None and \
                    STV + "step_length" in defs[0][2].get("calls", []) and \
                    divisor in defs[0][2].get("refs", [])
                g = False
                for br in f.branch_blocks(lambda c, _b: c.get("op") == ">" and c.get("lrefs") == [divisor]
                                          and c.get("rlit") in ("0", "0.0")):
                    if f.guarded_by_edge((b, i), br, f.cond_polarity_edge(br, True)):
                        g = True
                ok = okd and g
                d = "delta = %s on the speed>0 edge: %s" % (defs[0][2].get("rhs") if defs else "?", g)
            cx.ob("C05.2-time", "TimeUpdater adds step_length()/speed under speed > 0", ok, d,
                  short(ev["loc"]), why="a negative or infinite increment breaks monotone time")
    effects.check_orders(cx, db, eff, "C05.2-time-orders", "add_time", [STV + "add_time"], {"along"},
                         "time is advanced only by the along-step action")

    # 3 step length only shrinks after pre-step --------------------------------
    w = field_writers(db, SIM + "step_length")
    cx.floor("writers of SimStateData::step_length", len(w), 4)
    check_owners(cx, "C05.3-step-length", "SimStateData::step_length", w,
                 {STV + "operator=", STV + "reset_step_limit", STV + "step_limit",
                  STV + "step_length"} | COPY,
                 "the step length has exactly four writers; any other can lengthen the step "
                 "past the physics limit")
    for f in db.get(STV + "step_limit"):
        ws = [(b, i, ev) for (b, i, ev) in f.writes(SIM + "step_length")]
        ok = bool(ws)
        for (b, i, ev) in ws:
            g = False
            for br in f.branch_blocks(lambda c, _b: True):
                c = f.blocks[br]["cond"]
                # is_limiting = sl.step < states_.step_length[..]
                names = local_refs(c.get("refs", []))
                for nm in names:
                    for (_b2, _i2, d) in f.reaching_defs(nm, (br, 10 ** 6)):
                        if "<" in d.get("rhs", "") and "F:" + SIM + "step_length" in d.get("refs", []) \
                                and "F:" + C + "StepLimit::step" in d.get("refs", []):
                            if f.guarded_by_edge((b, i), br, f.cond_polarity_edge(br, True)):
                                g = True
                if c.get("op") == "<" and "F:" + SIM + "step_length" in c.get("rrefs", []) \
                        and f.guarded_by_edge((b, i), br, f.cond_polarity_edge(br, True)):
                    g = True
            ok = ok and g
        cx.ob("C05.3-step-length", "step_limit writes only when sl.step < current", ok,
              "write guarded by the is_limiting edge", short(f.loc),
              why="an unguarded write lets a later limiter lengthen the step")
    raw = setters(db, STV + "step_length", 1)
    cx.floor("raw step_length(x) call sites", len(raw), 3)
    check_owners(cx, "C05.3-step-length", "raw setter step_length(x)", raw,
                 {D + "PropagationApplierBaseImpl::operator()", C + "UrbanMsc::limit_step",
                  C + "UrbanMsc::apply_step"},
                 "only propagation and the MSC path conversion may replace the step length")
    for f, ev, _h in raw:
        a = ev["args"][0]
        if f.name == D + "PropagationApplierBaseImpl::operator()":
            pos = None
            for (b, i, e2) in f.calls(STV + "step_length"):
                if e2 is ev:
                    pos = (b, i)
            refs = set(a.get("refs", []))
            ok = "F:" + C + "Propagation::distance" in refs and len(local_refs(refs)) == 1 \
                and (a.get("path") or {}).get("chain") == ["f:" + C + "Propagation::distance"]
            pv = next(iter(local_refs(refs))) if ok else None
            okd = False
            if ok and pos:
                defs = f.reaching_defs(pv, pos)
                okd = bool(defs) and all(
                    d[2].get("kind") == "decl" and not d[2].get("rhs") or
                    STV + "step_length" in d[2].get("calls", []) for d in defs)
            cx.ob("C05.3-step-length", "PropagationApplier sets step_length(p.distance) [%s@%s]"
                  % (f.inst.split("<")[-1][:30], short(ev["loc"]).split(":")[-1]), ok and okd,
                  "argument %s; p = propagate(sim.step_length()): %s" % (a["t"], okd),
                  short(ev["loc"]),
                  why="the propagated distance is bounded by the requested step; any other value "
                      "can exceed the physics limit")
        elif f.name == C + "UrbanMsc::limit_step":
            ok = (a.get("path") or {}).get("chain") == \
                ["f:" + C + "detail::MscStepToGeo::result_type::step"]
            cx.ob("C05.3-step-length", "UrbanMsc::limit_step stores the geometric path", ok,
                  "argument %s" % a["t"], short(ev["loc"]))
        elif f.name == C + "UrbanMsc::apply_step":
            ok = (a.get("path") or {}).get("chain") == ["f:" + C + "MscStep::true_path"]
            cx.ob("C05.3-step-length", "UrbanMsc::apply_step restores the true path", ok,
                  "argument %s" % a["t"], short(ev["loc"]))
    effects.check_orders(cx, db, eff, "C05.3-step-length-orders", "raw setter / MSC step functions",
                         [D + "PropagationApplierBaseImpl::operator()", C + "UrbanMsc::limit_step",
                          C + "UrbanMsc::apply_step"], {"along"},
                         "after pre-step only the along-step action may replace the step length")
    effects.check_orders(cx, db, eff, "C05.3-step-length-orders", "reset_step_limit",
                         [STV + "reset_step_limit"], {"pre"},
                         "the step limit is (re)computed only at pre-step")
    # post-step users of step_limit pass a zero step
    for f, ev, _h in setters(db, STV + "step_limit", 1):
        if "optical" in f.name:
            continue
        t = ev["args"][0]["t"].replace(" ", "")
        in_applier = f.name == C + "InteractionApplierBaseImpl::operator()"
        if in_applier:
            cx.ob("C05.3-step-length", "post-step step_limit uses a zero step", t.startswith("{0,"),
                  "step_limit(%s)" % ev["args"][0]["t"], short(ev["loc"]),
                  why="a post-step action may not move the track")

    # 3b the MSC hand-off flag is step-local: MscApplier replays msc_step() whenever geom_path > 0,
    # so the limiter stage has to (re)define it on every path of every step
    GP = C + "MscStep::geom_path"
    lims = db.get(D + "MscStepLimitApplier::operator()")
    cx.require(lims, "anchor MscStepLimitApplier::operator() not found")
    nlim = 0
    for f in lims:
        tag = f.inst.split("MscStepLimitApplier<")[-1][:40]
        if "NoMsc" in tag:
            continue
        nlim += 1

        def defines_flag(e):
            if e["e"] == "write" and path_leaf(e.get("path")) == GP:
                return True
            return e["e"] == "call" and e["callee"].endswith("::limit_step")
        okp, pth = f.must_pass(defines_flag)
        cx.ob("C05.3-msc-flag", "MscStepLimitApplier (re)defines msc_step().geom_path on every path [%s]"
              % tag, okp, "limit_step(track) or geom_path = 0 on every path", short(f.loc),
              path=f.path_locs(pth),
              why="MscApplier applies the stored MSC step whenever geom_path > 0: a path that leaves "
                  "the previous step's record in place makes a track take the old true path as its "
                  "step length (e.g. a stopped positron reports a non-zero step)")
    cx.floor("MscStepLimitApplier instantiations with MSC", nlim, 1)
    for f in db.get(C + "UrbanMsc::limit_step"):
        okp, pth = f.must_pass(lambda e: (e["e"] == "call" and e["callee"] == C + "PhysicsStepView::msc_step"
                                          and len(e.get("args", [])) == 1))
        cx.ob("C05.3-msc-flag", "UrbanMsc::limit_step stores the MSC step record on every path", okp,
              "", short(f.loc), path=f.path_locs(pth))

    # 4 step counter -----------------------------------------------------------
    w = field_writers(db, SIM + "num_steps")
    check_owners(cx, "C05.4-step-counter", "SimStateData::num_steps", w,
                 {STV + "operator=", STV + "increment_num_steps"} | COPY,
                 "steps must be numbered consecutively")
    callers = setters(db, STV + "increment_num_steps", 0)
    cx.floor("callers of increment_num_steps", len(callers), 1)
    check_owners(cx, "C05.4-step-counter", "increment_num_steps", callers,
                 {D + "TrackUpdater::operator()"}, "one increment per along-step")
    for f in db.get(D + "TrackUpdater::operator()"):
        brs = f.branch_blocks(lambda c, _b: c.get("renum", "").endswith("TrackStatus::errored")
                              and c.get("op") == "==")
        cx.require(brs, "TrackUpdater no longer tests for errored tracks")
        br = brs[0]
        tgt = f.blocks[br]["succ"][f.cond_polarity_edge(br, False)]
        okp, path = f.must_pass(lambda e: e["e"] == "call" and e["callee"] == STV + "increment_num_steps",
                                start=(tgt, -1))
        n = len(list(f.calls(STV + "increment_num_steps")))
        cx.ob("C05.4-step-counter", "TrackUpdater increments the counter on every non-errored path",
              okp and n == 1, "must-pass from the not-errored edge; %d call site(s)" % n, short(f.loc),
              path=f.path_locs(path), why="a path that skips or doubles the increment breaks "
              "consecutive step numbering")
    effects.check_orders(cx, db, eff, "C05.4-step-counter", "increment_num_steps",
                         [STV + "increment_num_steps"], {"along"}, "")

    # 5 volume / material only at a boundary or at birth ------------------------
    acc = accessor_summary(db)
    O = C + "OrangeStateData::"
    vol_accs = [k for k, v in acc.items() if v in (O + "vol", O + "universe", O + "level")]
    for fld in ("vol", "universe", "level"):
        w = field_writers(db, O + fld, [k for k, v in acc.items() if v == O + fld])
        cx.floor("writers of OrangeStateData::" + fld, len(w), 2)
        check_owners(cx, "C05.5-volume", "OrangeStateData::" + fld, w,
                     {OTV + "cross_boundary", OTV + "operator=", OTV + "level",
                      D + "LevelStateAccessor::operator="} | COPY,
                     "the current volume/level changes only when crossing a boundary or at "
                     "initialisation")
    lvl = setters(db, OTV + "level", 1)
    check_owners(cx, "C05.5-volume", "OrangeTrackView::level(LevelId)", lvl,
                 {OTV + "cross_boundary", OTV + "operator="}, "")
    lsa = [(f, ev, "call") for f, ev in db.callers_of(D + "LevelStateAccessor::operator=")]
    check_owners(cx, "C05.5-volume", "LevelStateAccessor::operator=", lsa,
                 {OTV + "cross_boundary", OTV + "operator="}, "")
    effects.check_orders(cx, db, eff, "C05.5-volume-orders", "cross_boundary",
                         [OTV + "cross_boundary"], set(),
                         "only the boundary action may change the volume within a step",
                         allowed_classes={D + "BoundaryAction"})
    effects.check_orders(cx, db, eff, "C05.5-volume-orders", "geometry initialisation",
                         [OTV + "operator="], {"start", "end"},
                         "geometry state is initialised only when a track is born")
    mat = [(f, ev, "call") for f, ev in db.callers_of(C + "MaterialTrackView::operator=")]
    cx.floor("MaterialTrackView::operator= call sites", len(mat), 2)
    check_owners(cx, "C05.5-volume", "MaterialTrackView::operator=", mat,
                 {D + "BoundaryExecutor::operator()", D + "InitTracksExecutor::operator()"},
                 "the material follows the volume: only boundary crossing or initialisation")
    for f in db.get(D + "BoundaryAction::step"):
        if "device" in f.r["params"][1]["ty"].lower():
            continue
        mk = [ev for (_b, _i, ev) in f.calls(C + "make_action_track_executor")]
        ok = len(mk) == 1 and any("action_id" in a.get("t", "") for a in mk[0].get("args", []))
        cx.ob("C05.5-volume", "BoundaryAction runs only for tracks limited by the boundary action",
              ok, "make_action_track_executor(..., action_id(), ...)", short(f.loc),
              why="running the boundary executor for other tracks changes their volume without a "
                  "boundary-limited step")
    cx.require(db.get(D + "BoundaryAction::step"), "anchor BoundaryAction::step not found")

    # 5b a propagation that ends on a boundary hands the track to the boundary action
    BND = "F:" + C + "Propagation::boundary"
    SIMPSA = C + "SimTrackView::post_step_action"

    def sets_boundary_action(e):
        return e["e"] == "call" and e["callee"] == SIMPSA and len(e.get("args", [])) == 1 and \
            C + "CoreTrackView::boundary_action" in e["args"][0].get("calls", [])
    appl = db.get(D + "PropagationApplierBaseImpl::operator()")
    cx.require(appl, "anchor PropagationApplierBaseImpl::operator() not found")
    for f in appl:
        tag = f.inst.split("<")[-1][:50]
        brs = f.branch_blocks(lambda c, _b: BND in c.get("refs", []) and not c.get("op"))
        ok = bool(brs)
        detail = "no branch on Propagation::boundary" if not brs else ""
        path = None
        for br in brs:
            tgt = f.blocks[br]["succ"][f.cond_polarity_edge(br, True)]
            okp, pth = f.must_pass(sets_boundary_action, start=(tgt, -1))
            if not okp:
                ok = False
                path = f.path_locs(pth)
                detail = "a path from the true edge of `%s` reaches the exit without " \
                         "post_step_action(boundary_action())" % f.blocks[br]["cond"]["t"]
        cx.ob("C05.5-boundary-dispatch", "PropagationApplier: p.boundary => post-step action is the "
              "boundary action [%s]" % tag, ok, detail or "must-pass from the true edge of p.boundary",
              short(f.loc), path=path,
              why="the propagator has already moved the geometry state onto the surface; if the "
                  "boundary action is not dispatched the track continues in the old volume and "
                  "material although its position is beyond the boundary")
        for (b, i, ev) in f.events("call", sets_boundary_action):
            g = any(f.guarded_by_edge((b, i), br, f.cond_polarity_edge(br, True)) for br in brs)
            cx.ob("C05.5-boundary-dispatch", "PropagationApplier: boundary action only on the "
                  "p.boundary edge [%s]" % tag, g, "", short(ev["loc"]),
                  why="dispatching the boundary action for a track that is not on a boundary "
                      "changes its volume without a boundary-limited step")

    # 6 remaining MFP -----------------------------------------------------------
    P = C + "PhysicsTrackView::"
    w = setters(db, P + "interaction_mfp", 1)
    cx.floor("interaction_mfp(x) call sites", len(w), 2)
    check_owners(cx, "C05.6-mfp", "interaction_mfp(x)", w,
                 {D + "PreStepExecutor::operator()", D + "TrackUpdater::operator()"},
                 "the remaining number of mean free paths is sampled at pre-step and reduced "
                 "along the step; another writer changes where the track interacts")
    w = setters(db, P + "reset_interaction_mfp", 0)
    check_owners(cx, "C05.6-mfp", "reset_interaction_mfp", w,
                 {"^celeritas::select_discrete_interaction$", D + "DiscreteSelectExecutor::operator()",
                  P + "operator="}, "")
    for f in db.get(D + "TrackUpdater::operator()"):
        for (b, i, ev) in f.calls(P + "interaction_mfp"):
            if len(ev.get("args", [])) != 1:
                continue
            g = False
            for br in f.branch_blocks(lambda c, _b: c.get("op") == "!=" and
                                      C + "PhysicsParamsScalars::discrete_action" in c.get("rcalls", [])
                                      + c.get("lcalls", [])):
                if f.guarded_by_edge((b, i), br, f.cond_polarity_edge(br, True)):
                    g = True
            cx.ob("C05.6-mfp", "TrackUpdater reduces the MFP only when the step was not limited by "
                  "the discrete action", g, "", short(ev["loc"]),
                  why="reducing it for an interacting track double-counts the path")

    # 7 linear propagation: position and boundary flag agree -------------------
    linear_propagator_boundary(db, cx, "C05.5-linear-boundary")

    # 8 the MSC step-limit samplers never exceed the physics step ---------------
    msc_limit_bounded(db, cx, "C05.3-msc-limit-bounded")


def linear_propagator_boundary(db, cx, rule):
    """LinearPropagator::operator()(dist): the geometry's find_next_step says whether the step
    ends on a boundary.  The track must then be moved onto it (move_to_boundary) and the flag
    returned unchanged; move_internal is for the other case only.  A track moved by
    move_internal onto the surface, or a returned flag that differs from the geometry's, leaves
    the step point's volume/surface state inconsistent with the boundary action dispatch."""
    LP = C + "LinearPropagator::operator()"
    fs = [f for f in db.get(LP) if any(ev["callee"].endswith("::find_next_step") for (_b, _i, ev) in f.events("call"))]
    cx.floor("LinearPropagator::operator() instantiations", len(fs), 1)
    n = 0
    for f in fs:
        tag = "%s(%s)" % (f.inst.split("<")[-1].split(">")[0].split("::")[-1], ",".join(p["n"] for p in f.r["params"]))
        fns = [(b, i, ev) for (b, i, ev) in f.events("call") if ev["callee"].endswith("::find_next_step")]
        res = [ev["var"] for (_b, _i, ev) in f.events("def")
               if any(c.endswith("::find_next_step") for c in ev.get("calls", []))]
        cx.require(res, "LinearPropagator %s: result of find_next_step is not a named local" % tag)
        rv = res[0]
        mtb = [(b, i, ev) for (b, i, ev) in f.events("call") if ev["callee"].endswith("::move_to_boundary")]
        mi = [(b, i, ev) for (b, i, ev) in f.events("call") if ev["callee"].endswith("::move_internal")]
        cx.require(mtb, "LinearPropagator %s: no move_to_boundary" % tag)
        # the flag returned is the geometry's
        wr = [ev for (_b, _i, ev) in f.events("write")
              if ev.get("path", {}).get("root") == "l:" + rv
              and (path_leaf(ev.get("path")) or "").split("::")[-1] in ("boundary", "")] + \
             [ev for (_b, _i, ev) in f.events("def") if ev.get("var") == rv and ev.get("kind") != "decl"]
        rets = [ev for (_b, _i, ev) in f.events("return")]
        ret_ok = bool(rets) and all(ev.get("path", {}).get("root") == "l:" + rv and not ev.get("path", {}).get("chain")
                                    for ev in rets)
        n += 1
        cx.ob(rule, "LinearPropagator %s returns the geometry's boundary flag unchanged" % tag,
              ret_ok and not wr, "; ".join("%s @%s" % (e.get("lhs", e.get("t", "?")), short(e["loc"])) for e in wr)
              or "returns %s" % rv, short(f.loc),
              why="the boundary flag and distance come from find_next_step: a flag edited afterwards "
                  "disagrees with where the track was moved")
        brs = f.branch_blocks(lambda c, _b: c.get("core", "").replace(" ", "") == rv + ".boundary")
        brs = [b for b in brs if None not in f.blocks[b]["succ"]]
        if not mi:
            # unconditional form: every path from find_next_step to the exit moves to the boundary
            okp, path = f.must_pass(lambda ev: ev["e"] == "call" and ev["callee"].endswith("::move_to_boundary"),
                                    start=(fns[0][0], fns[0][1]))
            cx.ob(rule, "LinearPropagator %s: every path after find_next_step moves to the boundary" % tag,
                  okp, str(path and f.path_locs(path)), short(f.loc),
                  why="the unbounded form always ends the step on the next boundary")
            continue
        cx.require(brs, "LinearPropagator %s: no branch on %s.boundary" % (tag, rv))
        for br in brs:
            te = f.cond_polarity_edge(br, True)
            t_tgt, f_tgt = f.blocks[br]["succ"][te], f.blocks[br]["succ"][1 - te]
            rt = f.reach([t_tgt])
            bad = [ev for (b, _i, ev) in mi if b in rt]
            cx.ob(rule, "LinearPropagator %s: move_internal is unreachable once the geometry reports "
                  "a boundary" % tag, not bad, ", ".join(short(e["loc"]) for e in bad), short(f.loc),
                  why="moving by the full distance with move_internal puts the track on the surface "
                      "without crossing state: the step point's volume is then ambiguous")
            okp, path = f.must_pass(lambda ev: ev["e"] == "call" and ev["callee"].endswith("::move_to_boundary"),
                                    start=(t_tgt, -1))
            cx.ob(rule, "LinearPropagator %s: every path from the boundary edge calls move_to_boundary"
                  % tag, okp, str(path and f.path_locs(path)), short(f.loc),
                  why="a boundary-limited step must end on the boundary")
            rf = f.reach([f_tgt])
            bad = [ev for (b, _i, ev) in mtb if b in rf and b not in rt]
            cx.ob(rule, "LinearPropagator %s: move_to_boundary only on the boundary edge" % tag,
                  not bad, ", ".join(short(e["loc"]) for e in bad), short(f.loc),
                  why="move_to_boundary without a found boundary is undefined in the navigator")
    cx.floor("LinearPropagator forms checked", n, 1)


def msc_limit_bounded(db, cx, rule):
    """The true path returned by the Urban MSC step-limit samplers becomes the step length; it
    may not exceed `max_step_` (the physics step chosen at pre-step).  Order-domain argument per
    return: the value is `max_step_` itself, or `clamp(., ., max_step_)` / `min(., max_step_)`,
    or a member X on a path where the branch edges give X <= max_step_: the false edge of
    `max_step_ <= Y` (so Y < max_step_) together with X being Y, or being equal to Y by the true
    edge of `Y == X`."""
    n = 0
    for nm in db.find(r"^celeritas::detail::UrbanMsc(Safety|Minimal)StepLimit::operator\(\)$"):
        cls = nm.split("::")[-2]
        MAXS = "F:" + C + "detail::%s::max_step_" % cls
        done = set()
        for f in db.get(nm):
            brs = [b for b in f.branch_blocks(lambda c, _b: True) if None not in f.blocks[b]["succ"]]

            def norm(t):
                return (t or "").replace("this->", "").replace(" ", "")
            for (b, i, ev) in f.events("return"):
                if ev["loc"] in done:
                    continue
                done.add(ev["loc"])
                t = norm(ev.get("t"))
                ok, how = False, "no bound by max_step_ on this path"
                calls = [c_.split("::")[-1] for c_ in ev.get("calls", [])]
                if t == "max_step_":
                    ok, how = True, "returns max_step_"
                elif "clamp" in calls and re.match(r"^clamp\((.*),max_step_\)$", t):
                    ok, how = True, "clamp(., ., max_step_)"
                elif "min" in calls and re.match(r"^(celeritas::)?min(<[^>]*>)?\((max_step_,.*|.*,max_step_)\)$", t) \
                        and t.count("(") == 1:
                    ok, how = True, "min(., max_step_)"
                elif re.match(r"^[A-Za-z_]\w*$", t):
                    below, equal = set(), {t}
                    for br in brs:
                        c = f.blocks[br]["cond"]
                        l, r, op = norm(c.get("l")), norm(c.get("r")), c.get("op")
                        for e_ in (0, 1):
                            if not f.guarded_by_edge((b, i), br, e_):
                                continue
                            truth = (e_ == f.cond_polarity_edge(br, True))
                            if op == "==" and truth:
                                if l in equal or r in equal:
                                    equal |= {l, r}
                            if (op == "<=" and not truth and l == "max_step_") or \
                                    (op == ">" and truth and l == "max_step_") or \
                                    (op == "<" and truth and r == "max_step_") or \
                                    (op == ">=" and not truth and r == "max_step_"):
                                below.add(r if l == "max_step_" else l)
                    # second pass for equalities discovered after the bound
                    for br in brs:
                        c = f.blocks[br]["cond"]
                        l, r, op = norm(c.get("l")), norm(c.get("r")), c.get("op")
                        if op == "==" and f.guarded_by_edge((b, i), br, f.cond_polarity_edge(br, True)) \
                                and (l in equal or r in equal):
                            equal |= {l, r}
                    if equal & below:
                        ok, how = True, "%s = %s < max_step_ on this path" % (t, sorted(equal & below)[0])
                n += 1
                cx.ob(rule, "%s returns at most the physics step [@%s]" % (cls, short(ev["loc"]).split(":", 1)[1]),
                      ok, "`return %s`: %s" % (ev.get("t", "")[:60], how), short(ev["loc"]),
                      why="the returned true path becomes the step length: above max_step_ the track "
                          "is moved beyond the limit chosen at pre-step (range, interaction point)")
    cx.floor("returns of the MSC step-limit samplers", n, 6)
